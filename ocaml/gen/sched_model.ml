
(** val negb : bool -> bool **)

let negb = function
| true -> false
| false -> true

type nat =
| O
| S of nat

(** val option_map : ('a1 -> 'a2) -> 'a1 option -> 'a2 option **)

let option_map f = function
| Some a -> Some (f a)
| None -> None

(** val snd : ('a1 * 'a2) -> 'a2 **)

let snd = function
| (_, y) -> y

(** val app : 'a1 list -> 'a1 list -> 'a1 list **)

let rec app l m =
  match l with
  | [] -> m
  | a :: l1 -> a :: (app l1 m)

module Coq__1 = struct
 (** val add : nat -> nat -> nat **)
 let rec add n0 m =
   match n0 with
   | O -> m
   | S p0 -> S (add p0 m)
end
include Coq__1

(** val eqb : bool -> bool -> bool **)

let eqb b1 b2 =
  if b1 then b2 else if b2 then false else true

module Nat =
 struct
  (** val sub : nat -> nat -> nat **)

  let rec sub n0 m =
    match n0 with
    | O -> n0
    | S k -> (match m with
              | O -> n0
              | S l -> sub k l)

  (** val eqb : nat -> nat -> bool **)

  let rec eqb n0 m =
    match n0 with
    | O -> (match m with
            | O -> true
            | S _ -> false)
    | S n' -> (match m with
               | O -> false
               | S m' -> eqb n' m')

  (** val divmod : nat -> nat -> nat -> nat -> nat * nat **)

  let rec divmod x y q u =
    match x with
    | O -> (q, u)
    | S x' ->
      (match u with
       | O -> divmod x' y (S q) y
       | S u' -> divmod x' y q u')

  (** val modulo : nat -> nat -> nat **)

  let modulo x = function
  | O -> x
  | S y' -> sub y' (snd (divmod x y' O y'))

  (** val eq_dec : nat -> nat -> bool **)

  let rec eq_dec n0 m =
    match n0 with
    | O -> (match m with
            | O -> true
            | S _ -> false)
    | S n1 -> (match m with
               | O -> false
               | S n2 -> eq_dec n1 n2)
 end

(** val remove : ('a1 -> 'a1 -> bool) -> 'a1 -> 'a1 list -> 'a1 list **)

let rec remove eq_dec0 x = function
| [] -> []
| y :: tl ->
  if eq_dec0 x y then remove eq_dec0 x tl else y :: (remove eq_dec0 x tl)

(** val existsb : ('a1 -> bool) -> 'a1 list -> bool **)

let rec existsb f = function
| [] -> false
| a :: l0 -> (||) (f a) (existsb f l0)

(** val repeat : 'a1 -> nat -> 'a1 list **)

let rec repeat x = function
| O -> []
| S k -> x :: (repeat x k)

type positive =
| XI of positive
| XO of positive
| XH

type n =
| N0
| Npos of positive

type z =
| Z0
| Zpos of positive
| Zneg of positive

module Pos =
 struct
  (** val succ : positive -> positive **)

  let rec succ = function
  | XI p0 -> XO (succ p0)
  | XO p0 -> XI p0
  | XH -> XO XH

  (** val add : positive -> positive -> positive **)

  let rec add x y =
    match x with
    | XI p0 ->
      (match y with
       | XI q -> XO (add_carry p0 q)
       | XO q -> XI (add p0 q)
       | XH -> XO (succ p0))
    | XO p0 ->
      (match y with
       | XI q -> XI (add p0 q)
       | XO q -> XO (add p0 q)
       | XH -> XI p0)
    | XH -> (match y with
             | XI q -> XO (succ q)
             | XO q -> XI q
             | XH -> XO XH)

  (** val add_carry : positive -> positive -> positive **)

  and add_carry x y =
    match x with
    | XI p0 ->
      (match y with
       | XI q -> XI (add_carry p0 q)
       | XO q -> XO (add_carry p0 q)
       | XH -> XI (succ p0))
    | XO p0 ->
      (match y with
       | XI q -> XO (add_carry p0 q)
       | XO q -> XI (add p0 q)
       | XH -> XO (succ p0))
    | XH ->
      (match y with
       | XI q -> XI (succ q)
       | XO q -> XO (succ q)
       | XH -> XI XH)

  (** val pred_double : positive -> positive **)

  let rec pred_double = function
  | XI p0 -> XI (XO p0)
  | XO p0 -> XI (pred_double p0)
  | XH -> XH

  (** val pred_N : positive -> n **)

  let pred_N = function
  | XI p0 -> Npos (XO p0)
  | XO p0 -> Npos (pred_double p0)
  | XH -> N0

  (** val mul : positive -> positive -> positive **)

  let rec mul x y =
    match x with
    | XI p0 -> add y (XO (mul p0 y))
    | XO p0 -> XO (mul p0 y)
    | XH -> y

  (** val iter : ('a1 -> 'a1) -> 'a1 -> positive -> 'a1 **)

  let rec iter f x = function
  | XI n' -> f (iter f (iter f x n') n')
  | XO n' -> iter f (iter f x n') n'
  | XH -> f x

  (** val div2 : positive -> positive **)

  let div2 = function
  | XI p1 -> p1
  | XO p1 -> p1
  | XH -> XH

  (** val div2_up : positive -> positive **)

  let div2_up = function
  | XI p1 -> succ p1
  | XO p1 -> p1
  | XH -> XH

  (** val eqb : positive -> positive -> bool **)

  let rec eqb p0 q =
    match p0 with
    | XI p1 -> (match q with
                | XI q0 -> eqb p1 q0
                | _ -> false)
    | XO p1 -> (match q with
                | XO q0 -> eqb p1 q0
                | _ -> false)
    | XH -> (match q with
             | XH -> true
             | _ -> false)

  (** val testbit : positive -> n -> bool **)

  let rec testbit p0 n0 =
    match p0 with
    | XI p1 -> (match n0 with
                | N0 -> true
                | Npos n1 -> testbit p1 (pred_N n1))
    | XO p1 -> (match n0 with
                | N0 -> false
                | Npos n1 -> testbit p1 (pred_N n1))
    | XH -> (match n0 with
             | N0 -> true
             | Npos _ -> false)

  (** val iter_op : ('a1 -> 'a1 -> 'a1) -> positive -> 'a1 -> 'a1 **)

  let rec iter_op op p0 a =
    match p0 with
    | XI p1 -> op a (iter_op op p1 (op a a))
    | XO p1 -> iter_op op p1 (op a a)
    | XH -> a

  (** val to_nat : positive -> nat **)

  let to_nat x =
    iter_op Coq__1.add x (S O)
 end

module N =
 struct
  (** val testbit : n -> n -> bool **)

  let testbit a n0 =
    match a with
    | N0 -> false
    | Npos p0 -> Pos.testbit p0 n0
 end

module Z =
 struct
  (** val double : z -> z **)

  let double = function
  | Z0 -> Z0
  | Zpos p0 -> Zpos (XO p0)
  | Zneg p0 -> Zneg (XO p0)

  (** val succ_double : z -> z **)

  let succ_double = function
  | Z0 -> Zpos XH
  | Zpos p0 -> Zpos (XI p0)
  | Zneg p0 -> Zneg (Pos.pred_double p0)

  (** val pred_double : z -> z **)

  let pred_double = function
  | Z0 -> Zneg XH
  | Zpos p0 -> Zpos (Pos.pred_double p0)
  | Zneg p0 -> Zneg (XI p0)

  (** val pos_sub : positive -> positive -> z **)

  let rec pos_sub x y =
    match x with
    | XI p0 ->
      (match y with
       | XI q -> double (pos_sub p0 q)
       | XO q -> succ_double (pos_sub p0 q)
       | XH -> Zpos (XO p0))
    | XO p0 ->
      (match y with
       | XI q -> pred_double (pos_sub p0 q)
       | XO q -> double (pos_sub p0 q)
       | XH -> Zpos (Pos.pred_double p0))
    | XH ->
      (match y with
       | XI q -> Zneg (XO q)
       | XO q -> Zneg (Pos.pred_double q)
       | XH -> Z0)

  (** val add : z -> z -> z **)

  let add x y =
    match x with
    | Z0 -> y
    | Zpos x' ->
      (match y with
       | Z0 -> x
       | Zpos y' -> Zpos (Pos.add x' y')
       | Zneg y' -> pos_sub x' y')
    | Zneg x' ->
      (match y with
       | Z0 -> x
       | Zpos y' -> pos_sub y' x'
       | Zneg y' -> Zneg (Pos.add x' y'))

  (** val opp : z -> z **)

  let opp = function
  | Z0 -> Z0
  | Zpos x0 -> Zneg x0
  | Zneg x0 -> Zpos x0

  (** val mul : z -> z -> z **)

  let mul x y =
    match x with
    | Z0 -> Z0
    | Zpos x' ->
      (match y with
       | Z0 -> Z0
       | Zpos y' -> Zpos (Pos.mul x' y')
       | Zneg y' -> Zneg (Pos.mul x' y'))
    | Zneg x' ->
      (match y with
       | Z0 -> Z0
       | Zpos y' -> Zneg (Pos.mul x' y')
       | Zneg y' -> Zpos (Pos.mul x' y'))

  (** val eqb : z -> z -> bool **)

  let eqb x y =
    match x with
    | Z0 -> (match y with
             | Z0 -> true
             | _ -> false)
    | Zpos p0 -> (match y with
                  | Zpos q -> Pos.eqb p0 q
                  | _ -> false)
    | Zneg p0 -> (match y with
                  | Zneg q -> Pos.eqb p0 q
                  | _ -> false)

  (** val to_nat : z -> nat **)

  let to_nat = function
  | Zpos p0 -> Pos.to_nat p0
  | _ -> O

  (** val odd : z -> bool **)

  let odd = function
  | Z0 -> false
  | Zpos p0 -> (match p0 with
                | XO _ -> false
                | _ -> true)
  | Zneg p0 -> (match p0 with
                | XO _ -> false
                | _ -> true)

  (** val div2 : z -> z **)

  let div2 = function
  | Z0 -> Z0
  | Zpos p0 -> (match p0 with
                | XH -> Z0
                | _ -> Zpos (Pos.div2 p0))
  | Zneg p0 -> Zneg (Pos.div2_up p0)

  (** val testbit : z -> z -> bool **)

  let testbit a = function
  | Z0 -> odd a
  | Zpos p0 ->
    (match a with
     | Z0 -> false
     | Zpos a0 -> Pos.testbit a0 (Npos p0)
     | Zneg a0 -> negb (N.testbit (Pos.pred_N a0) (Npos p0)))
  | Zneg _ -> false

  (** val shiftl : z -> z -> z **)

  let shiftl a = function
  | Z0 -> a
  | Zpos p0 -> Pos.iter (mul (Zpos (XO XH))) a p0
  | Zneg p0 -> Pos.iter div2 a p0

  (** val shiftr : z -> z -> z **)

  let shiftr a n0 =
    shiftl a (opp n0)
 end

type ag =
| AT of nat
| AC of nat

type res =
| RVal of z
| RPan of z
| RCancel

type jmode =
| MJoin
| MWait

type gstate =
| GInit
| GLive
| GFin

type place =
| LNone
| LG of nat
| LL of nat
| LH of nat
| LRun of nat
| LSlot
| LDead

type qid =
| QG of nat
| QL of nat

type jpc =
| JW0 of jmode
| JW1 of jmode
| JW2 of jmode * nat
| JW3 of jmode * nat
| JW3p of jmode * nat
| JW4 of jmode * nat
| JT1
| JT2

type pc =
| Idle
| SG of nat
| SP of nat * nat
| SW of nat
| SL of nat
| InJ of nat
| ID0 of nat
| CF of z
| CT1
| CT2
| CT3 of nat
| CRet
| PP0 of z
| PT1
| PT2
| PT3 of nat
| PD

type kpc =
| K0
| KG of nat
| KW of nat
| KRe
| KRun
| KD
| KEnd

type frame =
| FRun of nat
| FKer of nat * kpc
| FPan of nat

type cor = { spawned : bool; gst : gstate; upc : pc; cancelled : bool;
             jstate : bool; jwake : nat option; pkt : z option;
             pan : z option; jcall : (ag * jpc) option; jdone : bool;
             loc : place; bodycnt : nat; outcome : res option; ptaken : 
             bool; jret : res option }

type st = { co : (nat -> cor); gq : (nat -> nat list);
            lq : (nat -> nat list); hand : (nat -> nat list);
            stk : (nat -> frame list); slots : nat list; dead : nat list;
            tpc : (nat -> pc); tok : (nat -> bool); bjoin : (nat -> nat);
            nextb : nat; punp : nat list; rr : nat; nw : nat }

(** val upd : (nat -> 'a1) -> nat -> 'a1 -> nat -> 'a1 **)

let upd f i v j =
  if Nat.eqb j i then v else f j

(** val ag_eqb : ag -> ag -> bool **)

let ag_eqb x y =
  match x with
  | AT a -> (match y with
             | AT b -> Nat.eqb a b
             | AC _ -> false)
  | AC a -> (match y with
             | AT _ -> false
             | AC b -> Nat.eqb a b)

(** val cor0 : cor **)

let cor0 =
  { spawned = false; gst = GInit; upc = Idle; cancelled = false; jstate =
    true; jwake = None; pkt = None; pan = None; jcall = None; jdone = false;
    loc = LNone; bodycnt = O; outcome = None; ptaken = false; jret = None }

(** val cor_new : place -> cor **)

let cor_new l =
  { spawned = true; gst = GInit; upc = Idle; cancelled = false; jstate =
    true; jwake = None; pkt = None; pan = None; jcall = None; jdone = false;
    loc = l; bodycnt = O; outcome = None; ptaken = false; jret = None }

(** val mkc :
    bool -> gstate -> pc -> bool -> bool -> nat option -> z option -> z
    option -> (ag * jpc) option -> bool -> place -> nat -> res option -> bool
    -> res option -> cor **)

let mkc sp g u cn js jw pk pn jb jd l bc oc pt jr =
  { spawned = sp; gst = g; upc = u; cancelled = cn; jstate = js; jwake = jw;
    pkt = pk; pan = pn; jcall = jb; jdone = jd; loc = l; bodycnt = bc;
    outcome = oc; ptaken = pt; jret = jr }

(** val c_upc : cor -> pc -> cor **)

let c_upc x u =
  mkc x.spawned x.gst u x.cancelled x.jstate x.jwake x.pkt x.pan x.jcall
    x.jdone x.loc x.bodycnt x.outcome x.ptaken x.jret

(** val c_loc : cor -> place -> cor **)

let c_loc x l =
  mkc x.spawned x.gst x.upc x.cancelled x.jstate x.jwake x.pkt x.pan x.jcall
    x.jdone l x.bodycnt x.outcome x.ptaken x.jret

(** val c_canc : cor -> bool -> cor **)

let c_canc x b =
  mkc x.spawned x.gst x.upc b x.jstate x.jwake x.pkt x.pan x.jcall x.jdone
    x.loc x.bodycnt x.outcome x.ptaken x.jret

(** val c_jstate : cor -> bool -> cor **)

let c_jstate x b =
  mkc x.spawned x.gst x.upc x.cancelled b x.jwake x.pkt x.pan x.jcall x.jdone
    x.loc x.bodycnt x.outcome x.ptaken x.jret

(** val c_jwake : cor -> nat option -> cor **)

let c_jwake x w =
  mkc x.spawned x.gst x.upc x.cancelled x.jstate w x.pkt x.pan x.jcall
    x.jdone x.loc x.bodycnt x.outcome x.ptaken x.jret

(** val c_pkt : cor -> z option -> cor **)

let c_pkt x p0 =
  mkc x.spawned x.gst x.upc x.cancelled x.jstate x.jwake p0 x.pan x.jcall
    x.jdone x.loc x.bodycnt x.outcome x.ptaken x.jret

(** val c_pan : cor -> z option -> cor **)

let c_pan x p0 =
  mkc x.spawned x.gst x.upc x.cancelled x.jstate x.jwake x.pkt p0 x.jcall
    x.jdone x.loc x.bodycnt x.outcome x.ptaken x.jret

(** val c_jcall : cor -> (ag * jpc) option -> cor **)

let c_jcall x b =
  mkc x.spawned x.gst x.upc x.cancelled x.jstate x.jwake x.pkt x.pan b
    x.jdone x.loc x.bodycnt x.outcome x.ptaken x.jret

(** val c_jfin : cor -> res -> cor **)

let c_jfin x r =
  mkc x.spawned x.gst x.upc x.cancelled x.jstate x.jwake x.pkt x.pan None
    true x.loc x.bodycnt x.outcome x.ptaken (Some r)

(** val c_ptaken : cor -> cor **)

let c_ptaken x =
  mkc x.spawned x.gst x.upc x.cancelled x.jstate x.jwake x.pkt x.pan x.jcall
    x.jdone x.loc x.bodycnt x.outcome true x.jret

(** val c_resume : cor -> place -> cor **)

let c_resume x l =
  mkc x.spawned (match x.gst with
                 | GInit -> GLive
                 | x0 -> x0) x.upc x.cancelled x.jstate x.jwake x.pkt x.pan
    x.jcall x.jdone l
    (match x.gst with
     | GInit -> S x.bodycnt
     | _ -> x.bodycnt) x.outcome x.ptaken x.jret

(** val c_end : cor -> gstate -> pc -> res -> cor **)

let c_end x g u o =
  mkc x.spawned g u x.cancelled x.jstate x.jwake x.pkt x.pan x.jcall x.jdone
    x.loc x.bodycnt (Some o) x.ptaken x.jret

(** val c_gst : cor -> gstate -> cor **)

let c_gst x g =
  mkc x.spawned g x.upc x.cancelled x.jstate x.jwake x.pkt x.pan x.jcall
    x.jdone x.loc x.bodycnt x.outcome x.ptaken x.jret

(** val mk :
    (nat -> cor) -> (nat -> nat list) -> (nat -> nat list) -> (nat -> nat
    list) -> (nat -> frame list) -> nat list -> nat list -> (nat -> pc) ->
    (nat -> bool) -> (nat -> nat) -> nat -> nat list -> nat -> nat -> st **)

let mk c g l h k sl d tp tk bo nb pu r n0 =
  { co = c; gq = g; lq = l; hand = h; stk = k; slots = sl; dead = d; tpc =
    tp; tok = tk; bjoin = bo; nextb = nb; punp = pu; rr = r; nw = n0 }

(** val s_co : st -> (nat -> cor) -> st **)

let s_co s f =
  mk f s.gq s.lq s.hand s.stk s.slots s.dead s.tpc s.tok s.bjoin s.nextb
    s.punp s.rr s.nw

(** val s_gq : st -> (nat -> nat list) -> st **)

let s_gq s f =
  mk s.co f s.lq s.hand s.stk s.slots s.dead s.tpc s.tok s.bjoin s.nextb
    s.punp s.rr s.nw

(** val s_lq : st -> (nat -> nat list) -> st **)

let s_lq s f =
  mk s.co s.gq f s.hand s.stk s.slots s.dead s.tpc s.tok s.bjoin s.nextb
    s.punp s.rr s.nw

(** val s_hand : st -> (nat -> nat list) -> st **)

let s_hand s f =
  mk s.co s.gq s.lq f s.stk s.slots s.dead s.tpc s.tok s.bjoin s.nextb s.punp
    s.rr s.nw

(** val s_stk : st -> (nat -> frame list) -> st **)

let s_stk s f =
  mk s.co s.gq s.lq s.hand f s.slots s.dead s.tpc s.tok s.bjoin s.nextb
    s.punp s.rr s.nw

(** val s_slots : st -> nat list -> st **)

let s_slots s f =
  mk s.co s.gq s.lq s.hand s.stk f s.dead s.tpc s.tok s.bjoin s.nextb s.punp
    s.rr s.nw

(** val s_dead : st -> nat list -> st **)

let s_dead s f =
  mk s.co s.gq s.lq s.hand s.stk s.slots f s.tpc s.tok s.bjoin s.nextb s.punp
    s.rr s.nw

(** val s_tpc : st -> (nat -> pc) -> st **)

let s_tpc s f =
  mk s.co s.gq s.lq s.hand s.stk s.slots s.dead f s.tok s.bjoin s.nextb
    s.punp s.rr s.nw

(** val s_tok : st -> (nat -> bool) -> st **)

let s_tok s f =
  mk s.co s.gq s.lq s.hand s.stk s.slots s.dead s.tpc f s.bjoin s.nextb
    s.punp s.rr s.nw

(** val s_newb : st -> nat -> st **)

let s_newb s d =
  mk s.co s.gq s.lq s.hand s.stk s.slots s.dead s.tpc
    (upd s.tok s.nextb false) (upd s.bjoin s.nextb d) (S s.nextb) s.punp s.rr
    s.nw

(** val s_punp : st -> nat list -> st **)

let s_punp s f =
  mk s.co s.gq s.lq s.hand s.stk s.slots s.dead s.tpc s.tok s.bjoin s.nextb f
    s.rr s.nw

(** val s_rr : st -> nat -> st **)

let s_rr s f =
  mk s.co s.gq s.lq s.hand s.stk s.slots s.dead s.tpc s.tok s.bjoin s.nextb
    s.punp f s.nw

(** val rm : nat -> nat list -> nat list **)

let rm =
  remove Nat.eq_dec

(** val memb : nat -> nat list -> bool **)

let memb c l =
  existsb (Nat.eqb c) l

(** val rm1 : nat -> nat list -> nat list **)

let rec rm1 w = function
| [] -> []
| x :: r -> if Nat.eqb x w then r else x :: (rm1 w r)

(** val on_co : st -> nat -> (cor -> cor) -> st **)

let on_co s c f =
  s_co s (upd s.co c (f (s.co c)))

(** val getq : st -> qid -> nat list **)

let getq s = function
| QG k -> s.gq k
| QL t -> s.lq t

(** val setq : st -> qid -> nat list -> st **)

let setq s q l =
  match q with
  | QG k -> s_gq s (upd s.gq k l)
  | QL t -> s_lq s (upd s.lq t l)

(** val qloc : qid -> place **)

let qloc = function
| QG k -> LG k
| QL t -> LL t

(** val pushq : st -> qid -> nat -> st **)

let pushq s q c =
  setq s q (app (getq s q) (c :: []))

(** val add_hand : st -> nat -> nat -> st **)

let add_hand s t c =
  s_hand s (upd s.hand t (app (s.hand t) (c :: [])))

(** val del_hand : st -> nat -> nat -> st **)

let del_hand s t c =
  s_hand s (upd s.hand t (rm c (s.hand t)))

(** val set_stk : st -> nat -> frame list -> st **)

let set_stk s t l =
  s_stk s (upd s.stk t l)

(** val cur : st -> nat -> ag option **)

let cur s t =
  match s.stk t with
  | [] -> Some (AT t)
  | f :: _ -> (match f with
               | FRun c -> Some (AC c)
               | _ -> None)

(** val apc : st -> ag -> pc **)

let apc s = function
| AT t -> s.tpc t
| AC c -> (s.co c).upc

(** val set_apc : st -> ag -> pc -> st **)

let set_apc s a p0 =
  match a with
  | AT t -> s_tpc s (upd s.tpc t p0)
  | AC c -> on_co s c (fun x -> c_upc x p0)

(** val live_ag : st -> ag -> bool **)

let live_ag s = function
| AT _ -> true
| AC c -> (match (s.co c).gst with
           | GLive -> true
           | _ -> false)

(** val base_idle : st -> nat -> bool **)

let base_idle s t =
  match s.stk t with
  | [] -> (match s.tpc t with
           | Idle -> true
           | _ -> false)
  | _ :: _ -> false

type action =
| ASpawn of nat * nat * nat option * bool
| AJoin of nat * nat * jmode
| AIsDone of nat * nat
| ACancel of nat * nat
| AYield of nat
| AFinish of nat * z
| APanic of nat * z option
| AStep of nat
| AFire of nat
| KLocal of nat
| KFA of nat
| KStep of nat
| KStore of nat
| KSelfTake of nat
| KSkip of nat
| KDrop of nat
| KSubscribed of nat
| Grab of nat * qid
| Put of nat
| TakeSlot of nat * nat
| Resume of nat * nat
| Wake of nat * qid
| DoUnpark of nat * qid

(** val call_of : st -> ag -> nat -> jpc option **)

let call_of s a d =
  match (s.co d).jcall with
  | Some p0 -> let (a', p1) = p0 in if ag_eqb a' a then Some p1 else None
  | None -> None

(** val set_call : st -> ag -> nat -> jpc -> st **)

let set_call s a d p0 =
  on_co s d (fun x -> c_jcall x (Some (a, p0)))

(** val end_call : st -> nat -> st **)

let end_call s d =
  on_co s d (fun x -> c_jcall x None)

(** val park_ret : st -> nat -> st **)

let park_ret s c =
  match (s.co c).upc with
  | InJ d ->
    (match call_of s (AC c) d with
     | Some j ->
       (match j with
        | JW3p (m, b) ->
          s_tok (set_call s (AC c) d (JW0 m)) (upd s.tok b false)
        | _ -> s)
     | None -> s)
  | _ -> s

(** val pc_idle : pc -> bool **)

let pc_idle = function
| Idle -> true
| _ -> false

(** val take_wake : st -> nat -> (nat -> pc) -> pc -> st **)

let take_wake s c some none =
  match (s.co c).jwake with
  | Some w -> on_co s c (fun x -> c_upc (c_jwake x None) (some w))
  | None -> on_co s c (fun x -> c_upc x none)

(** val step : st -> action -> st option **)

let step s = function
| ASpawn (t, c, id, local) ->
  (match cur s t with
   | Some a ->
     if (&&) ((&&) (pc_idle (apc s a)) (live_ag s a)) (negb (s.co c).spawned)
     then let s1 = add_hand (s_co s (upd s.co c (cor_new (LH t)))) t c in
          Some
          (set_apc s1 a
            (if local
             then SL c
             else (match id with
                   | Some i -> SP (c, (Nat.modulo i s.nw))
                   | None -> SG c)))
     else None
   | None -> None)
| AJoin (t, d, m) ->
  (match cur s t with
   | Some a ->
     if (&&) ((&&) ((&&) (pc_idle (apc s a)) (live_ag s a)) (s.co d).spawned)
          (negb (s.co d).jdone)
     then (match (s.co d).jcall with
           | Some _ -> None
           | None -> Some (set_apc (set_call s a d (JW0 m)) a (InJ d)))
     else None
   | None -> None)
| AIsDone (t, d) ->
  (match cur s t with
   | Some a ->
     if (&&) ((&&) (pc_idle (apc s a)) (live_ag s a)) (s.co d).spawned
     then Some (set_apc s a (ID0 d))
     else None
   | None -> None)
| ACancel (t, d) ->
  (match cur s t with
   | Some a ->
     if (&&) ((&&) (pc_idle (apc s a)) (live_ag s a)) (s.co d).spawned
     then Some (on_co s d (fun x -> c_canc x true))
     else None
   | None -> None)
| AYield t ->
  (match s.stk t with
   | [] -> None
   | f :: rest ->
     (match f with
      | FRun c ->
        let go = fun s0 -> Some
          (add_hand
            (set_stk (on_co s0 c (fun x -> c_loc x (LH t))) t ((FKer (c,
              K0)) :: rest)) t c)
        in
        (match (s.co c).gst with
         | GLive ->
           (match (s.co c).upc with
            | Idle -> go s
            | InJ d ->
              (match call_of s (AC c) d with
               | Some j ->
                 (match j with
                  | JW0 _ -> go s
                  | JW3 (m, b) -> go (set_call s (AC c) d (JW3p (m, b)))
                  | _ -> None)
               | None -> None)
            | CRet -> go s
            | _ -> None)
         | _ -> None)
      | _ -> None))
| AFinish (t, v) ->
  (match s.stk t with
   | [] -> None
   | f :: _ ->
     (match f with
      | FRun c ->
        (match (s.co c).gst with
         | GLive ->
           (match (s.co c).upc with
            | Idle ->
              Some (on_co s c (fun x -> c_end x GLive (CF v) (RVal v)))
            | _ -> None)
         | _ -> None)
      | _ -> None))
| APanic (t, v) ->
  (match s.stk t with
   | [] -> None
   | f :: rest ->
     (match f with
      | FRun c ->
        let go = fun s0 -> Some
          (add_hand
            (set_stk
              (on_co s0 c (fun x ->
                c_loc
                  (c_end x GFin
                    (match v with
                     | Some p0 -> PP0 p0
                     | None -> PT1)
                    (match v with
                     | Some p0 -> RPan p0
                     | None -> RCancel)) (LH t))) t ((FPan c) :: rest)) t c)
        in
        if match v with
           | Some _ -> true
           | None -> (s.co c).cancelled
        then (match (s.co c).gst with
              | GLive ->
                (match (s.co c).upc with
                 | Idle -> go s
                 | InJ d ->
                   (match call_of s (AC c) d with
                    | Some j ->
                      (match j with
                       | JW0 _ -> go (end_call s d)
                       | JW3 (_, _) -> go (end_call s d)
                       | _ -> None)
                    | None -> None)
                 | _ -> None)
              | _ -> None)
        else None
      | _ -> None))
| AStep t ->
  (match s.stk t with
   | [] ->
     (match cur s t with
      | Some a ->
        if live_ag s a
        then (match apc s a with
              | SG c ->
                Some
                  (s_rr (set_apc s a (SP (c, (Nat.modulo s.rr s.nw)))) (S
                    s.rr))
              | SP (c, k) ->
                if memb c (s.hand t)
                then Some
                       (set_apc
                         (pushq
                           (del_hand (on_co s c (fun x -> c_loc x (LG k))) t
                             c) (QG k) c) a (SW k))
                else None
              | SW _ -> Some (set_apc s a Idle)
              | InJ d ->
                (match call_of s a d with
                 | Some j ->
                   (match j with
                    | JW0 m ->
                      if (s.co d).jstate
                      then Some (set_call s a d (JW1 m))
                      else (match m with
                            | MJoin -> Some (set_call s a d JT1)
                            | MWait -> Some (set_apc (end_call s d) a Idle))
                    | JW1 m ->
                      let b = s.nextb in
                      Some
                      (on_co (s_newb s d) d (fun x ->
                        c_jcall (c_jwake x (Some b)) (Some (a, (JW2 (m, b))))))
                    | JW2 (m, b) ->
                      Some
                        (set_call s a d
                          (if (s.co d).jstate then JW3 (m, b) else JW4 (m, b)))
                    | JW3 (m, b) ->
                      if s.tok b
                      then Some
                             (s_tok (set_call s a d (JW0 m))
                               (upd s.tok b false))
                      else (match a with
                            | AT _ -> Some (set_call s a d (JW3p (m, b)))
                            | AC _ -> None)
                    | JW3p (m, b) ->
                      (match a with
                       | AT _ ->
                         if s.tok b
                         then Some
                                (s_tok (set_call s a d (JW0 m))
                                  (upd s.tok b false))
                         else None
                       | AC _ -> None)
                    | JW4 (m, _) ->
                      Some
                        (on_co s d (fun x ->
                          c_jcall (c_jwake x None) (Some (a, (JW0 m)))))
                    | JT1 ->
                      (match (s.co d).pkt with
                       | Some v ->
                         Some
                           (set_apc
                             (on_co s d (fun x ->
                               c_jfin (c_ptaken (c_pkt x None)) (RVal v))) a
                             Idle)
                       | None -> Some (set_call s a d JT2))
                    | JT2 ->
                      (match (s.co d).pan with
                       | Some v ->
                         Some
                           (set_apc
                             (on_co s d (fun x ->
                               c_jfin (c_pan x None) (RPan v))) a Idle)
                       | None ->
                         Some
                           (set_apc (on_co s d (fun x -> c_jfin x RCancel)) a
                             Idle)))
                 | None -> None)
              | ID0 _ -> Some (set_apc s a Idle)
              | CF v ->
                (match a with
                 | AT _ -> None
                 | AC c ->
                   Some (on_co s c (fun x -> c_upc (c_pkt x (Some v)) CT1)))
              | CT1 ->
                (match a with
                 | AT _ -> None
                 | AC c ->
                   Some (on_co s c (fun x -> c_upc (c_jstate x false) CT2)))
              | CT2 ->
                (match a with
                 | AT _ -> None
                 | AC c -> Some (take_wake s c (fun x -> CT3 x) CRet))
              | CT3 w ->
                (match a with
                 | AT _ -> None
                 | AC c ->
                   Some
                     (on_co (s_punp s (app s.punp (w :: []))) c (fun x ->
                       c_upc x CRet)))
              | CRet ->
                (match a with
                 | AT _ -> None
                 | AC c ->
                   (match s.stk t with
                    | [] -> None
                    | _ :: rest ->
                      Some
                        (add_hand
                          (set_stk
                            (on_co s c (fun x -> c_loc (c_gst x GFin) (LH t)))
                            t ((FKer (c, KD)) :: rest)) t c)))
              | _ -> None)
        else None
      | None -> None)
   | f :: rest ->
     (match f with
      | FRun _ ->
        (match cur s t with
         | Some a ->
           if live_ag s a
           then (match apc s a with
                 | SG c ->
                   Some
                     (s_rr (set_apc s a (SP (c, (Nat.modulo s.rr s.nw)))) (S
                       s.rr))
                 | SP (c, k) ->
                   if memb c (s.hand t)
                   then Some
                          (set_apc
                            (pushq
                              (del_hand (on_co s c (fun x -> c_loc x (LG k)))
                                t c) (QG k) c) a (SW k))
                   else None
                 | SW _ -> Some (set_apc s a Idle)
                 | InJ d ->
                   (match call_of s a d with
                    | Some j ->
                      (match j with
                       | JW0 m ->
                         if (s.co d).jstate
                         then Some (set_call s a d (JW1 m))
                         else (match m with
                               | MJoin -> Some (set_call s a d JT1)
                               | MWait -> Some (set_apc (end_call s d) a Idle))
                       | JW1 m ->
                         let b = s.nextb in
                         Some
                         (on_co (s_newb s d) d (fun x ->
                           c_jcall (c_jwake x (Some b)) (Some (a, (JW2 (m,
                             b))))))
                       | JW2 (m, b) ->
                         Some
                           (set_call s a d
                             (if (s.co d).jstate
                              then JW3 (m, b)
                              else JW4 (m, b)))
                       | JW3 (m, b) ->
                         if s.tok b
                         then Some
                                (s_tok (set_call s a d (JW0 m))
                                  (upd s.tok b false))
                         else (match a with
                               | AT _ -> Some (set_call s a d (JW3p (m, b)))
                               | AC _ -> None)
                       | JW3p (m, b) ->
                         (match a with
                          | AT _ ->
                            if s.tok b
                            then Some
                                   (s_tok (set_call s a d (JW0 m))
                                     (upd s.tok b false))
                            else None
                          | AC _ -> None)
                       | JW4 (m, _) ->
                         Some
                           (on_co s d (fun x ->
                             c_jcall (c_jwake x None) (Some (a, (JW0 m)))))
                       | JT1 ->
                         (match (s.co d).pkt with
                          | Some v ->
                            Some
                              (set_apc
                                (on_co s d (fun x ->
                                  c_jfin (c_ptaken (c_pkt x None)) (RVal v)))
                                a Idle)
                          | None -> Some (set_call s a d JT2))
                       | JT2 ->
                         (match (s.co d).pan with
                          | Some v ->
                            Some
                              (set_apc
                                (on_co s d (fun x ->
                                  c_jfin (c_pan x None) (RPan v))) a Idle)
                          | None ->
                            Some
                              (set_apc
                                (on_co s d (fun x -> c_jfin x RCancel)) a
                                Idle)))
                    | None -> None)
                 | ID0 _ -> Some (set_apc s a Idle)
                 | CF v ->
                   (match a with
                    | AT _ -> None
                    | AC c ->
                      Some (on_co s c (fun x -> c_upc (c_pkt x (Some v)) CT1)))
                 | CT1 ->
                   (match a with
                    | AT _ -> None
                    | AC c ->
                      Some (on_co s c (fun x -> c_upc (c_jstate x false) CT2)))
                 | CT2 ->
                   (match a with
                    | AT _ -> None
                    | AC c -> Some (take_wake s c (fun x -> CT3 x) CRet))
                 | CT3 w ->
                   (match a with
                    | AT _ -> None
                    | AC c ->
                      Some
                        (on_co (s_punp s (app s.punp (w :: []))) c (fun x ->
                          c_upc x CRet)))
                 | CRet ->
                   (match a with
                    | AT _ -> None
                    | AC c ->
                      (match s.stk t with
                       | [] -> None
                       | _ :: rest0 ->
                         Some
                           (add_hand
                             (set_stk
                               (on_co s c (fun x ->
                                 c_loc (c_gst x GFin) (LH t))) t ((FKer (c,
                               KD)) :: rest0)) t c)))
                 | _ -> None)
           else None
         | None -> None)
      | FKer (_, _) -> None
      | FPan c ->
        (match (s.co c).upc with
         | PP0 v -> Some (on_co s c (fun x -> c_upc (c_pan x (Some v)) PT1))
         | PT1 -> Some (on_co s c (fun x -> c_upc (c_jstate x false) PT2))
         | PT2 -> Some (take_wake s c (fun x -> PT3 x) PD)
         | PT3 w ->
           Some
             (on_co (s_punp s (app s.punp (w :: []))) c (fun x -> c_upc x PD))
         | PD ->
           if memb c (s.hand t)
           then Some
                  (s_dead
                    (set_stk
                      (del_hand (on_co s c (fun x -> c_loc x LDead)) t c) t
                      rest) (c :: s.dead))
           else None
         | _ -> None)))
| AFire t ->
  (match s.stk t with
   | [] ->
     (match s.tpc t with
      | InJ d ->
        (match call_of s (AT t) d with
         | Some j ->
           (match j with
            | JW3p (m, b) ->
              Some (s_tok (set_call s (AT t) d (JW0 m)) (upd s.tok b false))
            | _ -> None)
         | None -> None)
      | _ -> None)
   | _ :: _ -> None)
| KLocal t ->
  (match s.stk t with
   | [] -> None
   | f :: rest ->
     (match f with
      | FKer (c, k) ->
        (match k with
         | K0 ->
           if memb c (s.hand t)
           then Some
                  (set_stk
                    (pushq
                      (del_hand (on_co s c (fun x -> c_loc x (LL t))) t c)
                      (QL t) c) t ((FKer (c, KEnd)) :: rest))
           else None
         | _ -> None)
      | _ -> None))
| KFA t ->
  (match s.stk t with
   | [] -> None
   | f :: rest ->
     (match f with
      | FKer (c, k) ->
        (match k with
         | K0 ->
           Some
             (s_rr
               (set_stk s t ((FKer (c, (KG (Nat.modulo s.rr s.nw)))) :: rest))
               (S s.rr))
         | _ -> None)
      | _ -> None))
| KStep t ->
  (match s.stk t with
   | [] -> None
   | f :: rest ->
     (match f with
      | FKer (c, k0) ->
        (match k0 with
         | KG k ->
           if memb c (s.hand t)
           then Some
                  (set_stk
                    (pushq
                      (del_hand (on_co s c (fun x -> c_loc x (LG k))) t c)
                      (QG k) c) t ((FKer (c, (KW k))) :: rest))
           else None
         | KW _ -> Some (set_stk s t ((FKer (c, KEnd)) :: rest))
         | _ -> None)
      | _ -> None))
| KStore t ->
  (match s.stk t with
   | [] -> None
   | f :: rest ->
     (match f with
      | FKer (c, k) ->
        (match k with
         | K0 ->
           if memb c (s.hand t)
           then Some
                  (set_stk
                    (s_slots
                      (del_hand (on_co s c (fun x -> c_loc x LSlot)) t c)
                      (app s.slots (c :: []))) t ((FKer (c, KRe)) :: rest))
           else None
         | _ -> None)
      | _ -> None))
| KSelfTake t ->
  (match s.stk t with
   | [] -> None
   | f :: rest ->
     (match f with
      | FKer (c, k) ->
        (match k with
         | KRe ->
           if memb c s.slots
           then Some
                  (set_stk
                    (add_hand
                      (s_slots (on_co s c (fun x -> c_loc x (LH t)))
                        (rm c s.slots)) t c) t ((FKer (c, KRun)) :: rest))
           else None
         | _ -> None)
      | _ -> None))
| KSkip t ->
  (match s.stk t with
   | [] -> None
   | f :: rest ->
     (match f with
      | FKer (c, k) ->
        (match k with
         | KRe -> Some (set_stk s t ((FKer (c, KEnd)) :: rest))
         | _ -> None)
      | _ -> None))
| KDrop t ->
  (match s.stk t with
   | [] -> None
   | f :: rest ->
     (match f with
      | FKer (c, k) ->
        (match k with
         | KD ->
           if memb c (s.hand t)
           then Some
                  (s_dead
                    (set_stk
                      (del_hand (on_co s c (fun x -> c_loc x LDead)) t c) t
                      ((FKer (c, KEnd)) :: rest)) (c :: s.dead))
           else None
         | _ -> None)
      | _ -> None))
| KSubscribed t ->
  (match s.stk t with
   | [] -> None
   | f :: rest ->
     (match f with
      | FKer (_, k) ->
        (match k with
         | KEnd -> Some (set_stk s t rest)
         | _ -> None)
      | _ -> None))
| Grab (t, q) ->
  if base_idle s t
  then (match getq s q with
        | [] -> None
        | c :: r ->
          Some (add_hand (setq (on_co s c (fun x -> c_loc x (LH t))) q r) t c))
  else None
| Put t ->
  if base_idle s t
  then (match s.hand t with
        | [] -> None
        | c :: _ ->
          Some
            (pushq (del_hand (on_co s c (fun x -> c_loc x (LL t))) t c) (QL
              t) c))
  else None
| TakeSlot (t, c) ->
  if (&&) (base_idle s t) (memb c s.slots)
  then Some
         (add_hand
           (s_slots (on_co s c (fun x -> c_loc x (LH t))) (rm c s.slots)) t c)
  else None
| Resume (t, c) ->
  if memb c (s.hand t)
  then (match (s.co c).gst with
        | GInit ->
          let s1 =
            del_hand (on_co (park_ret s c) c (fun x -> c_resume x (LRun t)))
              t c
          in
          (match s.stk t with
           | [] ->
             let l = [] in
             (match cur s t with
              | Some a ->
                (match apc s a with
                 | Idle ->
                   (match l with
                    | [] -> Some (set_stk s1 t ((FRun c) :: []))
                    | _ :: _ -> None)
                 | SL c' ->
                   if (&&) (Nat.eqb c' c) (live_ag s a)
                   then Some (set_stk (set_apc s1 a Idle) t ((FRun c) :: l))
                   else None
                 | _ -> None)
              | None -> None)
           | f :: rest ->
             (match f with
              | FKer (c', k) ->
                (match k with
                 | KRun ->
                   if Nat.eqb c' c
                   then Some
                          (set_stk s1 t ((FRun c) :: ((FKer (c,
                            KEnd)) :: rest)))
                   else None
                 | x ->
                   let l = (FKer (c', x)) :: rest in
                   (match cur s t with
                    | Some a ->
                      (match apc s a with
                       | Idle ->
                         (match l with
                          | [] -> Some (set_stk s1 t ((FRun c) :: []))
                          | _ :: _ -> None)
                       | SL c'0 ->
                         if (&&) (Nat.eqb c'0 c) (live_ag s a)
                         then Some
                                (set_stk (set_apc s1 a Idle) t ((FRun
                                  c) :: l))
                         else None
                       | _ -> None)
                    | None -> None))
              | x ->
                let l = x :: rest in
                (match cur s t with
                 | Some a ->
                   (match apc s a with
                    | Idle ->
                      (match l with
                       | [] -> Some (set_stk s1 t ((FRun c) :: []))
                       | _ :: _ -> None)
                    | SL c' ->
                      if (&&) (Nat.eqb c' c) (live_ag s a)
                      then Some
                             (set_stk (set_apc s1 a Idle) t ((FRun c) :: l))
                      else None
                    | _ -> None)
                 | None -> None)))
        | GLive ->
          let s1 =
            del_hand (on_co (park_ret s c) c (fun x -> c_resume x (LRun t)))
              t c
          in
          (match s.stk t with
           | [] ->
             let l = [] in
             (match cur s t with
              | Some a ->
                (match apc s a with
                 | Idle ->
                   (match l with
                    | [] -> Some (set_stk s1 t ((FRun c) :: []))
                    | _ :: _ -> None)
                 | SL c' ->
                   if (&&) (Nat.eqb c' c) (live_ag s a)
                   then Some (set_stk (set_apc s1 a Idle) t ((FRun c) :: l))
                   else None
                 | _ -> None)
              | None -> None)
           | f :: rest ->
             (match f with
              | FKer (c', k) ->
                (match k with
                 | KRun ->
                   if Nat.eqb c' c
                   then Some
                          (set_stk s1 t ((FRun c) :: ((FKer (c,
                            KEnd)) :: rest)))
                   else None
                 | x ->
                   let l = (FKer (c', x)) :: rest in
                   (match cur s t with
                    | Some a ->
                      (match apc s a with
                       | Idle ->
                         (match l with
                          | [] -> Some (set_stk s1 t ((FRun c) :: []))
                          | _ :: _ -> None)
                       | SL c'0 ->
                         if (&&) (Nat.eqb c'0 c) (live_ag s a)
                         then Some
                                (set_stk (set_apc s1 a Idle) t ((FRun
                                  c) :: l))
                         else None
                       | _ -> None)
                    | None -> None))
              | x ->
                let l = x :: rest in
                (match cur s t with
                 | Some a ->
                   (match apc s a with
                    | Idle ->
                      (match l with
                       | [] -> Some (set_stk s1 t ((FRun c) :: []))
                       | _ :: _ -> None)
                    | SL c' ->
                      if (&&) (Nat.eqb c' c) (live_ag s a)
                      then Some
                             (set_stk (set_apc s1 a Idle) t ((FRun c) :: l))
                      else None
                    | _ -> None)
                 | None -> None)))
        | GFin -> None)
  else None
| Wake (c, q) ->
  if memb c s.slots
  then Some
         (pushq
           (s_slots (on_co s c (fun x -> c_loc x (qloc q))) (rm c s.slots)) q
           c)
  else None
| DoUnpark (w, q) ->
  if memb w s.punp
  then let s1 = s_tok (s_punp s (rm1 w s.punp)) (upd s.tok w true) in
       (match (s.co (s.bjoin w)).jcall with
        | Some p0 ->
          let (a, j) = p0 in
          (match a with
           | AT _ -> Some s1
           | AC c ->
             (match j with
              | JW3p (_, b) ->
                if (&&) (memb c s1.slots) (Nat.eqb b w)
                then Some
                       (pushq
                         (s_slots (on_co s1 c (fun x -> c_loc x (qloc q)))
                           (rm c s1.slots)) q c)
                else Some s1
              | _ -> Some s1))
        | None -> Some s1)
  else None

(** val init : nat -> st **)

let init workers =
  mk (fun _ -> cor0) (fun _ -> []) (fun _ -> []) (fun _ -> []) (fun _ -> [])
    [] [] (fun _ -> Idle) (fun _ -> false) (fun _ -> O) O [] O workers

(** val steps : st -> action list -> st option **)

let rec steps s = function
| [] -> Some s
| a :: l' -> (match step s a with
              | Some s' -> steps s' l'
              | None -> None)

type aux = { started : bool; bindx : (z * nat) list; pend : (nat -> z);
             panv : (nat -> z option); dfr : (nat -> bool); ost : (nat -> z);
             owk : (nat -> z); opk : (nat -> z); opn : (nat -> z) }

type ast = st * aux

(** val aux0 : aux **)

let aux0 =
  { started = false; bindx = []; pend = (fun _ -> Z0); panv = (fun _ ->
    None); dfr = (fun _ -> false); ost = (fun _ -> Z0); owk = (fun _ -> Z0);
    opk = (fun _ -> Z0); opn = (fun _ -> Z0) }

(** val m_init : ast **)

let m_init =
  ((init O), aux0)

(** val x_started : aux -> aux **)

let x_started x =
  { started = true; bindx = x.bindx; pend = x.pend; panv = x.panv; dfr =
    x.dfr; ost = x.ost; owk = x.owk; opk = x.opk; opn = x.opn }

(** val x_bind : aux -> (z * nat) list -> aux **)

let x_bind x l =
  { started = x.started; bindx = l; pend = x.pend; panv = x.panv; dfr =
    x.dfr; ost = x.ost; owk = x.owk; opk = x.opk; opn = x.opn }

(** val x_pend : aux -> (nat -> z) -> aux **)

let x_pend x m =
  { started = x.started; bindx = x.bindx; pend = m; panv = x.panv; dfr =
    x.dfr; ost = x.ost; owk = x.owk; opk = x.opk; opn = x.opn }

(** val x_panv : aux -> (nat -> z option) -> aux **)

let x_panv x m =
  { started = x.started; bindx = x.bindx; pend = x.pend; panv = m; dfr =
    x.dfr; ost = x.ost; owk = x.owk; opk = x.opk; opn = x.opn }

(** val x_dfr : aux -> (nat -> bool) -> aux **)

let x_dfr x m =
  { started = x.started; bindx = x.bindx; pend = x.pend; panv = x.panv; dfr =
    m; ost = x.ost; owk = x.owk; opk = x.opk; opn = x.opn }

(** val x_ost : aux -> (nat -> z) -> aux **)

let x_ost x m =
  { started = x.started; bindx = x.bindx; pend = x.pend; panv = x.panv; dfr =
    x.dfr; ost = m; owk = x.owk; opk = x.opk; opn = x.opn }

(** val x_owk : aux -> (nat -> z) -> aux **)

let x_owk x m =
  { started = x.started; bindx = x.bindx; pend = x.pend; panv = x.panv; dfr =
    x.dfr; ost = x.ost; owk = m; opk = x.opk; opn = x.opn }

(** val x_opk : aux -> (nat -> z) -> aux **)

let x_opk x m =
  { started = x.started; bindx = x.bindx; pend = x.pend; panv = x.panv; dfr =
    x.dfr; ost = x.ost; owk = x.owk; opk = m; opn = x.opn }

(** val x_opn : aux -> (nat -> z) -> aux **)

let x_opn x m =
  { started = x.started; bindx = x.bindx; pend = x.pend; panv = x.panv; dfr =
    x.dfr; ost = x.ost; owk = x.owk; opk = x.opk; opn = m }

(** val lookup : z -> (z * nat) list -> nat option **)

let rec lookup x = function
| [] -> None
| p0 :: r -> let (y, j) = p0 in if Z.eqb y x then Some j else lookup x r

(** val bound_co : nat -> (z * nat) list -> bool **)

let rec bound_co j = function
| [] -> false
| p0 :: r -> let (_, i) = p0 in (||) (Nat.eqb i j) (bound_co j r)

(** val bind_obj : (nat -> z) -> nat -> z -> (nat -> z) option **)

let bind_obj m j o =
  if Z.eqb (m j) Z0
  then Some (upd m j o)
  else if Z.eqb (m j) o then Some m else None

(** val zb : z -> bool **)

let zb v =
  negb (Z.eqb v Z0)

(** val is_some : 'a1 option -> bool **)

let is_some = function
| Some _ -> true
| None -> false

(** val guard : bool -> 'a1 option -> 'a1 option **)

let guard b p0 =
  if b then p0 else None

(** val index_of : nat -> nat list -> nat option **)

let rec index_of c = function
| [] -> None
| x :: r ->
  if Nat.eqb x c then Some O else option_map (fun x0 -> S x0) (index_of c r)

(** val settle : nat -> st -> nat -> action list **)

let rec settle fuel s t =
  match fuel with
  | O -> []
  | S f ->
    let go =
      match step s (AStep t) with
      | Some s1 -> (AStep t) :: (settle f s1 t)
      | None -> []
    in
    (match s.stk t with
     | [] ->
       (match cur s t with
        | Some a ->
          (match apc s a with
           | SP (_, _) -> go
           | SW _ -> go
           | CT3 _ -> go
           | _ -> [])
        | None -> [])
     | f0 :: _ ->
       (match f0 with
        | FRun _ ->
          (match cur s t with
           | Some a ->
             (match apc s a with
              | SP (_, _) -> go
              | SW _ -> go
              | CT3 _ -> go
              | _ -> [])
           | None -> [])
        | FKer (_, _) -> []
        | FPan c -> (match (s.co c).upc with
                     | PT3 _ -> go
                     | _ -> [])))

(** val release_act : st -> nat -> nat -> action option **)

let release_act s j a =
  match s.stk a with
  | [] ->
    (match cur s a with
     | Some g ->
       (match apc s g with
        | SP (c, _) -> if Nat.eqb c j then Some (AStep a) else None
        | _ -> None)
     | None -> None)
  | f :: _ ->
    (match f with
     | FRun _ ->
       (match cur s a with
        | Some g ->
          (match apc s g with
           | SP (c, _) -> if Nat.eqb c j then Some (AStep a) else None
           | _ -> None)
        | None -> None)
     | FKer (c, k) ->
       (match k with
        | K0 -> if Nat.eqb c j then Some (KStore a) else None
        | KG _ -> if Nat.eqb c j then Some (KStep a) else None
        | _ -> None)
     | FPan _ -> None)

(** val avail : nat -> st -> nat -> nat -> action list option **)

let rec avail fuel s j b =
  match fuel with
  | O -> None
  | S f ->
    (match (s.co j).loc with
     | LG k ->
       (match index_of j (s.gq k) with
        | Some i ->
          Some (app (repeat (Grab (b, (QG k))) (S i)) (repeat (Put b) i))
        | None -> None)
     | LL t ->
       (match index_of j (s.lq t) with
        | Some i ->
          Some (app (repeat (Grab (b, (QL t))) (S i)) (repeat (Put b) i))
        | None -> None)
     | LH a ->
       if Nat.eqb a b
       then Some []
       else (match release_act s j a with
             | Some ac ->
               (match step s ac with
                | Some s1 -> option_map (fun x -> ac :: x) (avail f s1 j b)
                | None -> None)
             | None -> None)
     | LSlot -> Some ((TakeSlot (b, j)) :: [])
     | _ -> None)

(** val resume_acts :
    st -> aux -> nat -> nat -> (action list * aux) option **)

let resume_acts s x j b =
  match s.stk b with
  | [] ->
    let pre =
      match (s.co j).loc with
      | LNone -> None
      | LG _ -> None
      | LL _ -> None
      | LH _ -> None
      | LRun a -> if (&&) (x.dfr a) (negb (Nat.eqb a b)) then Some a else None
      | _ -> None
    in
    (match pre with
     | Some a ->
       (match step s (AYield a) with
        | Some s1 ->
          (match avail (S (S (S (S O)))) s1 j b with
           | Some l ->
             Some (((AYield a) :: (app l ((Resume (b, j)) :: []))),
               (x_dfr x (upd x.dfr a false)))
           | None -> None)
        | None -> None)
     | None ->
       (match avail (S (S (S (S O)))) s j b with
        | Some l -> Some ((app l ((Resume (b, j)) :: [])), x)
        | None -> None))
  | f :: _ ->
    (match f with
     | FRun _ ->
       let pre =
         match (s.co j).loc with
         | LNone -> None
         | LG _ -> None
         | LL _ -> None
         | LH _ -> None
         | LRun a ->
           if (&&) (x.dfr a) (negb (Nat.eqb a b)) then Some a else None
         | _ -> None
       in
       (match pre with
        | Some a ->
          (match step s (AYield a) with
           | Some s1 ->
             (match avail (S (S (S (S O)))) s1 j b with
              | Some l ->
                Some (((AYield a) :: (app l ((Resume (b, j)) :: []))),
                  (x_dfr x (upd x.dfr a false)))
              | None -> None)
           | None -> None)
        | None ->
          (match avail (S (S (S (S O)))) s j b with
           | Some l -> Some ((app l ((Resume (b, j)) :: [])), x)
           | None -> None))
     | FKer (c, k) ->
       (match k with
        | K0 ->
          if Nat.eqb c j
          then Some (((KStore b) :: ((KSelfTake b) :: ((Resume (b,
                 j)) :: []))), x)
          else None
        | KG _ ->
          let pre =
            match (s.co j).loc with
            | LNone -> None
            | LG _ -> None
            | LL _ -> None
            | LH _ -> None
            | LRun a ->
              if (&&) (x.dfr a) (negb (Nat.eqb a b)) then Some a else None
            | _ -> None
          in
          (match pre with
           | Some a ->
             (match step s (AYield a) with
              | Some s1 ->
                (match avail (S (S (S (S O)))) s1 j b with
                 | Some l ->
                   Some (((AYield a) :: (app l ((Resume (b, j)) :: []))),
                     (x_dfr x (upd x.dfr a false)))
                 | None -> None)
              | None -> None)
           | None ->
             (match avail (S (S (S (S O)))) s j b with
              | Some l -> Some ((app l ((Resume (b, j)) :: [])), x)
              | None -> None))
        | KW _ ->
          let pre =
            match (s.co j).loc with
            | LNone -> None
            | LG _ -> None
            | LL _ -> None
            | LH _ -> None
            | LRun a ->
              if (&&) (x.dfr a) (negb (Nat.eqb a b)) then Some a else None
            | _ -> None
          in
          (match pre with
           | Some a ->
             (match step s (AYield a) with
              | Some s1 ->
                (match avail (S (S (S (S O)))) s1 j b with
                 | Some l ->
                   Some (((AYield a) :: (app l ((Resume (b, j)) :: []))),
                     (x_dfr x (upd x.dfr a false)))
                 | None -> None)
              | None -> None)
           | None ->
             (match avail (S (S (S (S O)))) s j b with
              | Some l -> Some ((app l ((Resume (b, j)) :: [])), x)
              | None -> None))
        | KRe ->
          let pre =
            match (s.co j).loc with
            | LNone -> None
            | LG _ -> None
            | LL _ -> None
            | LH _ -> None
            | LRun a ->
              if (&&) (x.dfr a) (negb (Nat.eqb a b)) then Some a else None
            | _ -> None
          in
          (match pre with
           | Some a ->
             (match step s (AYield a) with
              | Some s1 ->
                (match avail (S (S (S (S O)))) s1 j b with
                 | Some l ->
                   Some (((AYield a) :: (app l ((Resume (b, j)) :: []))),
                     (x_dfr x (upd x.dfr a false)))
                 | None -> None)
              | None -> None)
           | None ->
             (match avail (S (S (S (S O)))) s j b with
              | Some l -> Some ((app l ((Resume (b, j)) :: [])), x)
              | None -> None))
        | KRun ->
          let pre =
            match (s.co j).loc with
            | LNone -> None
            | LG _ -> None
            | LL _ -> None
            | LH _ -> None
            | LRun a ->
              if (&&) (x.dfr a) (negb (Nat.eqb a b)) then Some a else None
            | _ -> None
          in
          (match pre with
           | Some a ->
             (match step s (AYield a) with
              | Some s1 ->
                (match avail (S (S (S (S O)))) s1 j b with
                 | Some l ->
                   Some (((AYield a) :: (app l ((Resume (b, j)) :: []))),
                     (x_dfr x (upd x.dfr a false)))
                 | None -> None)
              | None -> None)
           | None ->
             (match avail (S (S (S (S O)))) s j b with
              | Some l -> Some ((app l ((Resume (b, j)) :: [])), x)
              | None -> None))
        | KD ->
          let pre =
            match (s.co j).loc with
            | LNone -> None
            | LG _ -> None
            | LL _ -> None
            | LH _ -> None
            | LRun a ->
              if (&&) (x.dfr a) (negb (Nat.eqb a b)) then Some a else None
            | _ -> None
          in
          (match pre with
           | Some a ->
             (match step s (AYield a) with
              | Some s1 ->
                (match avail (S (S (S (S O)))) s1 j b with
                 | Some l ->
                   Some (((AYield a) :: (app l ((Resume (b, j)) :: []))),
                     (x_dfr x (upd x.dfr a false)))
                 | None -> None)
              | None -> None)
           | None ->
             (match avail (S (S (S (S O)))) s j b with
              | Some l -> Some ((app l ((Resume (b, j)) :: [])), x)
              | None -> None))
        | KEnd ->
          let pre =
            match (s.co j).loc with
            | LNone -> None
            | LG _ -> None
            | LL _ -> None
            | LH _ -> None
            | LRun a ->
              if (&&) (x.dfr a) (negb (Nat.eqb a b)) then Some a else None
            | _ -> None
          in
          (match pre with
           | Some a ->
             (match step s (AYield a) with
              | Some s1 ->
                (match avail (S (S (S (S O)))) s1 j b with
                 | Some l ->
                   Some (((AYield a) :: (app l ((Resume (b, j)) :: []))),
                     (x_dfr x (upd x.dfr a false)))
                 | None -> None)
              | None -> None)
           | None ->
             (match avail (S (S (S (S O)))) s j b with
              | Some l -> Some ((app l ((Resume (b, j)) :: [])), x)
              | None -> None)))
     | FPan _ ->
       let pre =
         match (s.co j).loc with
         | LNone -> None
         | LG _ -> None
         | LL _ -> None
         | LH _ -> None
         | LRun a ->
           if (&&) (x.dfr a) (negb (Nat.eqb a b)) then Some a else None
         | _ -> None
       in
       (match pre with
        | Some a ->
          (match step s (AYield a) with
           | Some s1 ->
             (match avail (S (S (S (S O)))) s1 j b with
              | Some l ->
                Some (((AYield a) :: (app l ((Resume (b, j)) :: []))),
                  (x_dfr x (upd x.dfr a false)))
              | None -> None)
           | None -> None)
        | None ->
          (match avail (S (S (S (S O)))) s j b with
           | Some l -> Some ((app l ((Resume (b, j)) :: [])), x)
           | None -> None)))

(** val token_acts : st -> nat -> nat -> action list option **)

let token_acts s d b =
  if s.tok b
  then Some []
  else if memb b s.punp
       then Some ((DoUnpark (b, (QG O))) :: [])
       else (match (s.co d).loc with
             | LH t ->
               (match (s.co d).upc with
                | PT3 w ->
                  if Nat.eqb w b
                  then Some ((AStep t) :: ((DoUnpark (b, (QG O))) :: []))
                  else None
                | _ -> None)
             | LRun t ->
               (match (s.co d).upc with
                | CT3 w ->
                  if Nat.eqb w b
                  then Some ((AStep t) :: ((DoUnpark (b, (QG O))) :: []))
                  else None
                | _ -> None)
             | _ -> None)

(** val top_run : st -> nat -> nat option **)

let top_run s t =
  match s.stk t with
  | [] -> None
  | f :: _ -> (match f with
               | FRun c -> Some c
               | _ -> None)

(** val top_pan : st -> nat -> nat option **)

let top_pan s t =
  match s.stk t with
  | [] -> None
  | f :: _ -> (match f with
               | FPan c -> Some c
               | _ -> None)

(** val jmode_of : z -> jmode **)

let jmode_of v =
  if Z.eqb v (Zpos XH) then MWait else MJoin

(** val res_code : res -> z **)

let res_code = function
| RVal v -> Z.add (Zpos XH) (Z.mul (Zpos (XO (XO XH))) v)
| RPan v -> Z.add (Zpos (XO XH)) (Z.mul (Zpos (XO (XO XH))) v)
| RCancel -> Zpos (XI XH)

(** val res_eqb : res option -> z -> bool **)

let res_eqb r code =
  match r with
  | Some x -> Z.eqb (res_code x) code
  | None -> false

type plan = { acts : action list; post : (st -> bool); nxt : aux }

(** val p : action list -> (st -> bool) -> aux -> plan option **)

let p l p0 x =
  Some { acts = l; post = p0; nxt = x }

(** val tt_ : st -> bool **)

let tt_ _ =
  true

(** val agent_pc : st -> nat -> (ag * pc) option **)

let agent_pc s t =
  match cur s t with
  | Some a -> Some (a, (apc s a))
  | None -> None

(** val jcall_at : st -> nat -> ((ag * nat) * jpc) option **)

let jcall_at s t =
  match agent_pc s t with
  | Some p0 ->
    let (a, p1) = p0 in
    (match p1 with
     | InJ d ->
       (match call_of s a d with
        | Some p2 -> Some ((a, d), p2)
        | None -> None)
     | _ -> None)
  | None -> None

(** val plan_ev : st -> aux -> z list -> plan option **)

let plan_ev s0 x = function
| [] -> None
| code :: l ->
  (match l with
   | [] -> None
   | za :: l0 ->
     (match l0 with
      | [] -> None
      | o :: l1 ->
        (match l1 with
         | [] -> None
         | v :: l2 ->
           (match l2 with
            | [] ->
              let t = Z.to_nat za in
              if Z.eqb code Z0
              then guard (negb x.started) (p [] tt_ (x_started x))
              else if negb x.started
                   then None
                   else let pre0 =
                          if x.dfr t
                          then if Z.eqb code (Zpos (XI (XI (XI XH))))
                               then (AStep t) :: []
                               else (AYield t) :: []
                          else []
                        in
                        let x0 =
                          if x.dfr t then x_dfr x (upd x.dfr t false) else x
                        in
                        (match steps s0 pre0 with
                         | Some s00 ->
                           let pre = app pre0 (settle (S (S (S (S O)))) s00 t)
                           in
                           (match steps s0 pre with
                            | Some s ->
                              let ret = fun l3 p0 x' -> p (app pre l3) p0 x'
                              in
                              (match code with
                               | Zpos p0 ->
                                 (match p0 with
                                  | XI p1 ->
                                    (match p1 with
                                     | XI p2 ->
                                       (match p2 with
                                        | XI p3 ->
                                          (match p3 with
                                           | XI p4 ->
                                             (match p4 with
                                              | XH ->
                                                (match s.stk t with
                                                 | [] ->
                                                   (match agent_pc s t with
                                                    | Some p5 ->
                                                      let (_, p6) = p5 in
                                                      (match p6 with
                                                       | Idle -> ret [] tt_ x0
                                                       | SG _ ->
                                                         ret ((AStep
                                                           t) :: []) tt_ x0
                                                       | SP (_, _) ->
                                                         ret [] tt_ x0
                                                       | SW _ -> ret [] tt_ x0
                                                       | SL _ -> ret [] tt_ x0
                                                       | InJ _ ->
                                                         ret [] tt_ x0
                                                       | ID0 _ ->
                                                         ret [] tt_ x0
                                                       | CF _ -> ret [] tt_ x0
                                                       | CT1 -> ret [] tt_ x0
                                                       | CT2 -> ret [] tt_ x0
                                                       | CT3 _ ->
                                                         ret [] tt_ x0
                                                       | CRet -> ret [] tt_ x0
                                                       | PP0 _ ->
                                                         ret [] tt_ x0
                                                       | PT1 -> ret [] tt_ x0
                                                       | PT2 -> ret [] tt_ x0
                                                       | PT3 _ ->
                                                         ret [] tt_ x0
                                                       | PD -> ret [] tt_ x0)
                                                    | None -> ret [] tt_ x0)
                                                 | f :: _ ->
                                                   (match f with
                                                    | FRun _ ->
                                                      (match agent_pc s t with
                                                       | Some p5 ->
                                                         let (_, p6) = p5 in
                                                         (match p6 with
                                                          | Idle ->
                                                            ret [] tt_ x0
                                                          | SG _ ->
                                                            ret ((AStep
                                                              t) :: []) tt_ x0
                                                          | SP (_, _) ->
                                                            ret [] tt_ x0
                                                          | SW _ ->
                                                            ret [] tt_ x0
                                                          | SL _ ->
                                                            ret [] tt_ x0
                                                          | InJ _ ->
                                                            ret [] tt_ x0
                                                          | ID0 _ ->
                                                            ret [] tt_ x0
                                                          | CF _ ->
                                                            ret [] tt_ x0
                                                          | CT1 ->
                                                            ret [] tt_ x0
                                                          | CT2 ->
                                                            ret [] tt_ x0
                                                          | CT3 _ ->
                                                            ret [] tt_ x0
                                                          | CRet ->
                                                            ret [] tt_ x0
                                                          | PP0 _ ->
                                                            ret [] tt_ x0
                                                          | PT1 ->
                                                            ret [] tt_ x0
                                                          | PT2 ->
                                                            ret [] tt_ x0
                                                          | PT3 _ ->
                                                            ret [] tt_ x0
                                                          | PD ->
                                                            ret [] tt_ x0)
                                                       | None -> ret [] tt_ x0)
                                                    | FKer (_, k) ->
                                                      (match k with
                                                       | K0 ->
                                                         ret ((KFA t) :: [])
                                                           tt_ x0
                                                       | KG _ -> ret [] tt_ x0
                                                       | KW _ -> ret [] tt_ x0
                                                       | KRe -> ret [] tt_ x0
                                                       | KRun -> ret [] tt_ x0
                                                       | KD -> ret [] tt_ x0
                                                       | KEnd -> ret [] tt_ x0)
                                                    | FPan _ -> ret [] tt_ x0))
                                              | _ -> None)
                                           | XO p4 ->
                                             (match p4 with
                                              | XH ->
                                                (match jcall_at s t with
                                                 | Some p5 ->
                                                   let (p6, j) = p5 in
                                                   let (a, d) = p6 in
                                                   (match a with
                                                    | AT _ ->
                                                      (match j with
                                                       | JW0 _ ->
                                                         (match bind_obj
                                                                  x0.ost d o with
                                                          | Some mo ->
                                                            guard
                                                              (eqb (zb v)
                                                                (s.co d).jstate)
                                                              (ret ((AStep
                                                                t) :: []) tt_
                                                                (x_ost x0 mo))
                                                          | None -> None)
                                                       | JW3 (_, b) ->
                                                         (match bind_obj
                                                                  x0.ost d o with
                                                          | Some mo ->
                                                            guard
                                                              (eqb (zb v)
                                                                (s.co d).jstate)
                                                              (ret
                                                                (if s.tok b
                                                                 then 
                                                                   (AStep
                                                                    t) :: ((AStep
                                                                    t) :: [])
                                                                 else 
                                                                   (AStep
                                                                    t) :: ((AFire
                                                                    t) :: ((AStep
                                                                    t) :: [])))
                                                                tt_
                                                                (x_ost x0 mo))
                                                          | None -> None)
                                                       | _ -> None)
                                                    | AC _ ->
                                                      (match j with
                                                       | JW0 _ ->
                                                         (match bind_obj
                                                                  x0.ost d o with
                                                          | Some mo ->
                                                            guard
                                                              (eqb (zb v)
                                                                (s.co d).jstate)
                                                              (ret ((AStep
                                                                t) :: []) tt_
                                                                (x_ost x0 mo))
                                                          | None -> None)
                                                       | JW3 (_, b) ->
                                                         (match bind_obj
                                                                  x0.ost d o with
                                                          | Some mo ->
                                                            (match token_acts
                                                                    s d b with
                                                             | Some l3 ->
                                                               guard
                                                                 (eqb 
                                                                   (zb v)
                                                                   (s.co d).jstate)
                                                                 (ret
                                                                   (app l3
                                                                    ((AStep
                                                                    t) :: ((AStep
                                                                    t) :: [])))
                                                                   tt_
                                                                   (x_ost x0
                                                                    mo))
                                                             | None -> None)
                                                          | None -> None)
                                                       | _ -> None))
                                                 | None -> None)
                                              | _ -> None)
                                           | XH ->
                                             (match lookup o x0.bindx with
                                              | Some j ->
                                                (match s.stk t with
                                                 | [] -> None
                                                 | f :: _ ->
                                                   (match f with
                                                    | FRun _ -> None
                                                    | FKer (c, k) ->
                                                      (match k with
                                                       | KD ->
                                                         guard (Nat.eqb c j)
                                                           (ret ((KDrop
                                                             t) :: []) tt_ x0)
                                                       | _ -> None)
                                                    | FPan c ->
                                                      guard (Nat.eqb c j)
                                                        (match (s.co j).upc with
                                                         | PD ->
                                                           ret ((AStep
                                                             t) :: []) tt_ x0
                                                         | _ -> None)))
                                              | None -> None))
                                        | XO p3 ->
                                          (match p3 with
                                           | XI p4 ->
                                             (match p4 with
                                              | XH ->
                                                (match agent_pc s t with
                                                 | Some p5 ->
                                                   let (_, p6) = p5 in
                                                   (match p6 with
                                                    | ID0 d ->
                                                      (match bind_obj x0.ost
                                                               d o with
                                                       | Some mo ->
                                                         guard
                                                           (eqb (zb v)
                                                             (s.co d).jstate)
                                                           (ret ((AStep
                                                             t) :: []) tt_
                                                             (x_ost x0 mo))
                                                       | None -> None)
                                                    | _ -> None)
                                                 | None -> None)
                                              | _ -> None)
                                           | XO _ -> None
                                           | XH ->
                                             (match lookup o x0.bindx with
                                              | Some j ->
                                                guard (Z.eqb (x0.pend t) Z0)
                                                  (match resume_acts s x0 j t with
                                                   | Some p4 ->
                                                     let (l3, x1) = p4 in
                                                     ret l3 (fun s' ->
                                                       match top_run s' t with
                                                       | Some c -> Nat.eqb c j
                                                       | None -> false) x1
                                                   | None -> None)
                                              | None ->
                                                guard
                                                  ((&&)
                                                    (Z.eqb (x0.pend t) Z0)
                                                    (negb (Z.eqb o Z0)))
                                                  (ret [] tt_
                                                    (x_pend x0
                                                      (upd x0.pend t o)))))
                                        | XH ->
                                          let d = Z.to_nat o in
                                          (match agent_pc s t with
                                           | Some p3 ->
                                             let (_, p4) = p3 in
                                             (match p4 with
                                              | Idle ->
                                                guard
                                                  ((&&)
                                                    (negb
                                                      (is_some (s.co d).jcall))
                                                    ((||) (Z.eqb v Z0)
                                                      (res_eqb (s.co d).jret
                                                        v))) (ret [] tt_ x0)
                                              | _ -> None)
                                           | None -> None))
                                     | XO p2 ->
                                       (match p2 with
                                        | XI p3 ->
                                          (match p3 with
                                           | XI p4 ->
                                             (match p4 with
                                              | XH ->
                                                (match jcall_at s t with
                                                 | Some p5 ->
                                                   let (p6, j) = p5 in
                                                   let (_, d) = p6 in
                                                   (match j with
                                                    | JT2 ->
                                                      (match bind_obj x0.opn
                                                               d o with
                                                       | Some mo ->
                                                         guard
                                                           (eqb (zb v)
                                                             (is_some
                                                               (s.co d).pan))
                                                           (ret ((AStep
                                                             t) :: []) tt_
                                                             (x_opn x0 mo))
                                                       | None -> None)
                                                    | _ -> None)
                                                 | None -> None)
                                              | _ -> None)
                                           | XO p4 ->
                                             (match p4 with
                                              | XH ->
                                                let go = fun c ok ->
                                                  match bind_obj x0.ost c o with
                                                  | Some m ->
                                                    guard
                                                      ((&&) ok (negb (zb v)))
                                                      (ret ((AStep t) :: [])
                                                        tt_ (x_ost x0 m))
                                                  | None -> None
                                                in
                                                (match s.stk t with
                                                 | [] -> None
                                                 | f :: _ ->
                                                   (match f with
                                                    | FRun c ->
                                                      go c
                                                        (match (s.co c).upc with
                                                         | CT1 -> true
                                                         | _ -> false)
                                                    | FKer (_, _) -> None
                                                    | FPan c ->
                                                      go c
                                                        (match (s.co c).upc with
                                                         | PT1 -> true
                                                         | _ -> false)))
                                              | _ -> None)
                                           | XH ->
                                             (match lookup o x0.bindx with
                                              | Some j ->
                                                (match s.stk t with
                                                 | [] -> None
                                                 | f :: _ ->
                                                   (match f with
                                                    | FKer (c, k) ->
                                                      guard (Nat.eqb c j)
                                                        (match k with
                                                         | K0 ->
                                                           ret ((KStore
                                                             t) :: ((KSkip
                                                             t) :: ((KSubscribed
                                                             t) :: []))) tt_
                                                             x0
                                                         | KG _ ->
                                                           ret ((KStep
                                                             t) :: ((KStep
                                                             t) :: ((KSubscribed
                                                             t) :: []))) tt_
                                                             x0
                                                         | KW _ ->
                                                           ret ((KStep
                                                             t) :: ((KSubscribed
                                                             t) :: [])) tt_ x0
                                                         | KRe ->
                                                           ret ((KSkip
                                                             t) :: ((KSubscribed
                                                             t) :: [])) tt_ x0
                                                         | KEnd ->
                                                           ret ((KSubscribed
                                                             t) :: []) tt_ x0
                                                         | _ -> None)
                                                    | _ -> None))
                                              | None -> None))
                                        | XO p3 ->
                                          (match p3 with
                                           | XI p4 ->
                                             (match p4 with
                                              | XH ->
                                                (match jcall_at s t with
                                                 | Some p5 ->
                                                   let (p6, j) = p5 in
                                                   let (_, d) = p6 in
                                                   (match j with
                                                    | JW2 (_, _) ->
                                                      (match bind_obj x0.ost
                                                               d o with
                                                       | Some mo ->
                                                         guard
                                                           (eqb (zb v)
                                                             (s.co d).jstate)
                                                           (ret ((AStep
                                                             t) :: []) tt_
                                                             (x_ost x0 mo))
                                                       | None -> None)
                                                    | _ -> None)
                                                 | None -> None)
                                              | _ -> None)
                                           | XO p4 ->
                                             (match p4 with
                                              | XH ->
                                                (match top_run s t with
                                                 | Some c ->
                                                   (match (s.co c).upc with
                                                    | CT1 -> ret [] tt_ x0
                                                    | _ -> None)
                                                 | None -> None)
                                              | _ -> None)
                                           | XH ->
                                             (match agent_pc s t with
                                              | Some p4 ->
                                                let (_, p5) = p4 in
                                                (match p5 with
                                                 | Idle -> ret [] tt_ x0
                                                 | _ -> None)
                                              | None -> None))
                                        | XH ->
                                          (match top_run s t with
                                           | Some c ->
                                             guard (Nat.eqb c (Z.to_nat o))
                                               (ret [] tt_
                                                 (x_panv x0
                                                   (upd x0.panv c (Some v))))
                                           | None -> None))
                                     | XH ->
                                       let j = Z.to_nat o in
                                       let x1 = x0.pend t in
                                       guard
                                         ((&&)
                                           ((&&) (negb (Z.eqb x1 Z0))
                                             (negb (bound_co j x0.bindx)))
                                           (negb
                                             (is_some (lookup x1 x0.bindx))))
                                         (match resume_acts s x0 j t with
                                          | Some p2 ->
                                            let (l3, x2) = p2 in
                                            ret l3 (fun s' ->
                                              match top_run s' t with
                                              | Some c ->
                                                (&&) (Nat.eqb c j)
                                                  (Nat.eqb (s'.co j).bodycnt
                                                    (S O))
                                              | None -> false)
                                              (x_pend
                                                (x_bind x2 ((x1,
                                                  j) :: x2.bindx))
                                                (upd x2.pend t Z0))
                                          | None -> None))
                                  | XO p1 ->
                                    (match p1 with
                                     | XI p2 ->
                                       (match p2 with
                                        | XI p3 ->
                                          (match p3 with
                                           | XI p4 ->
                                             (match p4 with
                                              | XH ->
                                                (match top_run s t with
                                                 | Some c ->
                                                   (match (s.co c).upc with
                                                    | CF _ ->
                                                      (match bind_obj x0.opk
                                                               c o with
                                                       | Some m ->
                                                         guard (zb v)
                                                           (ret ((AStep
                                                             t) :: []) tt_
                                                             (x_opk x0 m))
                                                       | None -> None)
                                                    | _ -> None)
                                                 | None -> None)
                                              | _ -> None)
                                           | XO p4 ->
                                             (match p4 with
                                              | XH ->
                                                let go = fun c ok ->
                                                  match bind_obj x0.owk c o with
                                                  | Some m ->
                                                    guard
                                                      ((&&) ok
                                                        (eqb (zb v)
                                                          (is_some
                                                            (s.co c).jwake)))
                                                      (ret ((AStep t) :: [])
                                                        tt_ (x_owk x0 m))
                                                  | None -> None
                                                in
                                                (match s.stk t with
                                                 | [] -> None
                                                 | f :: _ ->
                                                   (match f with
                                                    | FRun c ->
                                                      go c
                                                        (match (s.co c).upc with
                                                         | CT2 -> true
                                                         | _ -> false)
                                                    | FKer (_, _) -> None
                                                    | FPan c ->
                                                      go c
                                                        (match (s.co c).upc with
                                                         | PT2 -> true
                                                         | _ -> false)))
                                              | _ -> None)
                                           | XH ->
                                             (match lookup o x0.bindx with
                                              | Some j ->
                                                (match top_run s t with
                                                 | Some c ->
                                                   guard (Nat.eqb c j)
                                                     (ret ((APanic (t,
                                                       (x0.panv j))) :: [])
                                                       tt_ x0)
                                                 | None -> None)
                                              | None -> None))
                                        | XO p3 ->
                                          (match p3 with
                                           | XI p4 ->
                                             (match p4 with
                                              | XH ->
                                                (match jcall_at s t with
                                                 | Some p5 ->
                                                   let (p6, j) = p5 in
                                                   let (_, d) = p6 in
                                                   (match j with
                                                    | JW4 (_, _) ->
                                                      (match bind_obj x0.owk
                                                               d o with
                                                       | Some mo ->
                                                         guard
                                                           (eqb (zb v)
                                                             (is_some
                                                               (s.co d).jwake))
                                                           (ret ((AStep
                                                             t) :: []) tt_
                                                             (x_owk x0 mo))
                                                       | None -> None)
                                                    | _ -> None)
                                                 | None -> None)
                                              | _ -> None)
                                           | XO _ -> None
                                           | XH ->
                                             ret ((ACancel (t,
                                               (Z.to_nat o))) :: []) tt_ x0)
                                        | XH ->
                                          ret ((AJoin (t, (Z.to_nat o),
                                            (jmode_of v))) :: []) tt_ x0)
                                     | XO p2 ->
                                       (match p2 with
                                        | XI p3 ->
                                          (match p3 with
                                           | XI p4 ->
                                             (match p4 with
                                              | XH ->
                                                (match jcall_at s t with
                                                 | Some p5 ->
                                                   let (p6, j) = p5 in
                                                   let (_, d) = p6 in
                                                   (match j with
                                                    | JT1 ->
                                                      (match bind_obj x0.opk
                                                               d o with
                                                       | Some mo ->
                                                         guard
                                                           (eqb (zb v)
                                                             (is_some
                                                               (s.co d).pkt))
                                                           (ret ((AStep
                                                             t) :: []) tt_
                                                             (x_opk x0 mo))
                                                       | None -> None)
                                                    | _ -> None)
                                                 | None -> None)
                                              | _ -> None)
                                           | XO p4 ->
                                             (match p4 with
                                              | XH ->
                                                (match top_pan s t with
                                                 | Some c ->
                                                   (match (s.co c).upc with
                                                    | PP0 _ ->
                                                      (match bind_obj x0.opn
                                                               c o with
                                                       | Some m ->
                                                         guard (zb v)
                                                           (ret ((AStep
                                                             t) :: []) tt_
                                                             (x_opn x0 m))
                                                       | None -> None)
                                                    | _ -> None)
                                                 | None -> None)
                                              | _ -> None)
                                           | XH ->
                                             (match lookup o x0.bindx with
                                              | Some j ->
                                                (match top_run s t with
                                                 | Some c ->
                                                   guard (Nat.eqb c j)
                                                     (match (s.co j).upc with
                                                      | Idle ->
                                                        ret ((AYield
                                                          t) :: []) tt_ x0
                                                      | SG _ ->
                                                        ret ((AYield
                                                          t) :: []) tt_ x0
                                                      | SP (_, _) ->
                                                        ret ((AYield
                                                          t) :: []) tt_ x0
                                                      | SW _ ->
                                                        ret ((AYield
                                                          t) :: []) tt_ x0
                                                      | SL _ ->
                                                        ret ((AYield
                                                          t) :: []) tt_ x0
                                                      | InJ _ ->
                                                        ret ((AYield
                                                          t) :: []) tt_ x0
                                                      | ID0 _ ->
                                                        ret ((AYield
                                                          t) :: []) tt_ x0
                                                      | CF _ ->
                                                        ret ((AYield
                                                          t) :: []) tt_ x0
                                                      | CT1 ->
                                                        ret ((AYield
                                                          t) :: []) tt_ x0
                                                      | CT2 ->
                                                        ret ((AYield
                                                          t) :: []) tt_ x0
                                                      | CT3 _ ->
                                                        ret ((AYield
                                                          t) :: []) tt_ x0
                                                      | CRet ->
                                                        ret [] tt_
                                                          (x_dfr x0
                                                            (upd x0.dfr t
                                                              true))
                                                      | PP0 _ ->
                                                        ret ((AYield
                                                          t) :: []) tt_ x0
                                                      | PT1 ->
                                                        ret ((AYield
                                                          t) :: []) tt_ x0
                                                      | PT2 ->
                                                        ret ((AYield
                                                          t) :: []) tt_ x0
                                                      | PT3 _ ->
                                                        ret ((AYield
                                                          t) :: []) tt_ x0
                                                      | PD ->
                                                        ret ((AYield
                                                          t) :: []) tt_ x0)
                                                 | None -> None)
                                              | None -> None))
                                        | XO p3 ->
                                          (match p3 with
                                           | XI p4 ->
                                             (match p4 with
                                              | XH ->
                                                (match jcall_at s t with
                                                 | Some p5 ->
                                                   let (p6, j) = p5 in
                                                   let (_, d) = p6 in
                                                   (match j with
                                                    | JW1 _ ->
                                                      (match bind_obj x0.owk
                                                               d o with
                                                       | Some mo ->
                                                         guard (zb v)
                                                           (ret ((AStep
                                                             t) :: []) tt_
                                                             (x_owk x0 mo))
                                                       | None -> None)
                                                    | _ -> None)
                                                 | None -> None)
                                              | _ -> None)
                                           | XO p4 ->
                                             (match p4 with
                                              | XH ->
                                                guard
                                                  (negb
                                                    (Z.eqb (x0.pend t) Z0))
                                                  (ret [] tt_ x0)
                                              | _ -> None)
                                           | XH ->
                                             ret ((AIsDone (t,
                                               (Z.to_nat o))) :: []) tt_ x0)
                                        | XH ->
                                          (match top_run s t with
                                           | Some c ->
                                             guard (Nat.eqb c (Z.to_nat o))
                                               (ret ((AFinish (t, v)) :: [])
                                                 tt_ x0)
                                           | None -> None))
                                     | XH ->
                                       ret [] (fun s' ->
                                         match agent_pc s' t with
                                         | Some p2 ->
                                           let (_, p3) = p2 in
                                           (match p3 with
                                            | Idle -> true
                                            | _ -> false)
                                         | None -> false) x0)
                                  | XH ->
                                    let j = Z.to_nat o in
                                    let local = Z.testbit v Z0 in
                                    let id =
                                      if Z.testbit v (Zpos (XI XH))
                                      then Some
                                             (Z.to_nat
                                               (Z.shiftr v (Zpos (XO (XO (XO
                                                 XH))))))
                                      else None
                                    in
                                    guard (negb (bound_co j x0.bindx))
                                      (ret ((ASpawn (t, j, id, local)) :: [])
                                        tt_ x0))
                               | _ -> None)
                            | None -> None)
                         | None -> None)
            | _ :: _ -> None))))

(** val accept_ev : ast -> z list -> ast option **)

let accept_ev sx e =
  let (s, x) = sx in
  (match e with
   | [] ->
     (match plan_ev s x e with
      | Some p0 ->
        (match steps s p0.acts with
         | Some s' -> if p0.post s' then Some (s', p0.nxt) else None
         | None -> None)
      | None -> None)
   | z0 :: l ->
     (match z0 with
      | Z0 ->
        (match l with
         | [] ->
           (match plan_ev s x e with
            | Some p0 ->
              (match steps s p0.acts with
               | Some s' -> if p0.post s' then Some (s', p0.nxt) else None
               | None -> None)
            | None -> None)
         | _ :: l0 ->
           (match l0 with
            | [] ->
              (match plan_ev s x e with
               | Some p0 ->
                 (match steps s p0.acts with
                  | Some s' -> if p0.post s' then Some (s', p0.nxt) else None
                  | None -> None)
               | None -> None)
            | o :: l1 ->
              (match l1 with
               | [] ->
                 (match plan_ev s x e with
                  | Some p0 ->
                    (match steps s p0.acts with
                     | Some s' ->
                       if p0.post s' then Some (s', p0.nxt) else None
                     | None -> None)
                  | None -> None)
               | _ :: l2 ->
                 (match l2 with
                  | [] ->
                    if x.started
                    then None
                    else Some ((init (Z.to_nat o)), (x_started x))
                  | _ :: _ ->
                    (match plan_ev s x e with
                     | Some p0 ->
                       (match steps s p0.acts with
                        | Some s' ->
                          if p0.post s' then Some (s', p0.nxt) else None
                        | None -> None)
                     | None -> None)))))
      | _ ->
        (match plan_ev s x e with
         | Some p0 ->
           (match steps s p0.acts with
            | Some s' -> if p0.post s' then Some (s', p0.nxt) else None
            | None -> None)
         | None -> None)))

(** val final_ok : ast -> bool **)

let final_ok sx =
  (snd sx).started

(** val m_init0 : ast **)

let m_init0 =
  m_init

(** val m_accept : ast -> z list -> ast option **)

let m_accept =
  accept_ev

(** val m_final : ast -> bool **)

let m_final =
  final_ok
