
(** val negb : bool -> bool **)

let negb = function
| true -> false
| false -> true

type nat =
| O
| S of nat

(** val app : 'a1 list -> 'a1 list -> 'a1 list **)

let rec app l m =
  match l with
  | [] -> m
  | a :: l1 -> a :: (app l1 m)

type comparison =
| Eq
| Lt
| Gt

(** val compOpp : comparison -> comparison **)

let compOpp = function
| Eq -> Eq
| Lt -> Gt
| Gt -> Lt

module Coq__1 = struct
 (** val add : nat -> nat -> nat **)
 let rec add n0 m =
   match n0 with
   | O -> m
   | S p0 -> S (add p0 m)
end
include Coq__1

(** val eqb : bool -> bool -> bool **)

let eqb b1 b2 =
  if b1 then b2 else if b2 then false else true

module Nat =
 struct
  (** val eqb : nat -> nat -> bool **)

  let rec eqb n0 m =
    match n0 with
    | O -> (match m with
            | O -> true
            | S _ -> false)
    | S n' -> (match m with
               | O -> false
               | S m' -> eqb n' m')
 end

(** val rev : 'a1 list -> 'a1 list **)

let rec rev = function
| [] -> []
| x :: l' -> app (rev l') (x :: [])

type positive =
| XI of positive
| XO of positive
| XH

type z =
| Z0
| Zpos of positive
| Zneg of positive

module Pos =
 struct
  (** val succ : positive -> positive **)

  let rec succ = function
  | XI p0 -> XO (succ p0)
  | XO p0 -> XI p0
  | XH -> XO XH

  (** val add : positive -> positive -> positive **)

  let rec add x y =
    match x with
    | XI p0 ->
      (match y with
       | XI q -> XO (add_carry p0 q)
       | XO q -> XI (add p0 q)
       | XH -> XO (succ p0))
    | XO p0 ->
      (match y with
       | XI q -> XI (add p0 q)
       | XO q -> XO (add p0 q)
       | XH -> XI p0)
    | XH -> (match y with
             | XI q -> XO (succ q)
             | XO q -> XI q
             | XH -> XO XH)

  (** val add_carry : positive -> positive -> positive **)

  and add_carry x y =
    match x with
    | XI p0 ->
      (match y with
       | XI q -> XI (add_carry p0 q)
       | XO q -> XO (add_carry p0 q)
       | XH -> XI (succ p0))
    | XO p0 ->
      (match y with
       | XI q -> XO (add_carry p0 q)
       | XO q -> XI (add p0 q)
       | XH -> XO (succ p0))
    | XH ->
      (match y with
       | XI q -> XI (succ q)
       | XO q -> XO (succ q)
       | XH -> XI XH)

  (** val pred_double : positive -> positive **)

  let rec pred_double = function
  | XI p0 -> XI (XO p0)
  | XO p0 -> XI (pred_double p0)
  | XH -> XH

  (** val mul : positive -> positive -> positive **)

  let rec mul x y =
    match x with
    | XI p0 -> add y (XO (mul p0 y))
    | XO p0 -> XO (mul p0 y)
    | XH -> y

  (** val iter : ('a1 -> 'a1) -> 'a1 -> positive -> 'a1 **)

  let rec iter f x = function
  | XI n' -> f (iter f (iter f x n') n')
  | XO n' -> iter f (iter f x n') n'
  | XH -> f x

  (** val compare_cont : comparison -> positive -> positive -> comparison **)

  let rec compare_cont r x y =
    match x with
    | XI p0 ->
      (match y with
       | XI q -> compare_cont r p0 q
       | XO q -> compare_cont Gt p0 q
       | XH -> Gt)
    | XO p0 ->
      (match y with
       | XI q -> compare_cont Lt p0 q
       | XO q -> compare_cont r p0 q
       | XH -> Gt)
    | XH -> (match y with
             | XH -> r
             | _ -> Lt)

  (** val compare : positive -> positive -> comparison **)

  let compare =
    compare_cont Eq

  (** val eqb : positive -> positive -> bool **)

  let rec eqb p0 q =
    match p0 with
    | XI p1 -> (match q with
                | XI q0 -> eqb p1 q0
                | _ -> false)
    | XO p1 -> (match q with
                | XO q0 -> eqb p1 q0
                | _ -> false)
    | XH -> (match q with
             | XH -> true
             | _ -> false)

  (** val iter_op : ('a1 -> 'a1 -> 'a1) -> positive -> 'a1 -> 'a1 **)

  let rec iter_op op p0 a =
    match p0 with
    | XI p1 -> op a (iter_op op p1 (op a a))
    | XO p1 -> iter_op op p1 (op a a)
    | XH -> a

  (** val to_nat : positive -> nat **)

  let to_nat x =
    iter_op Coq__1.add x (S O)
 end

module Z =
 struct
  (** val double : z -> z **)

  let double = function
  | Z0 -> Z0
  | Zpos p0 -> Zpos (XO p0)
  | Zneg p0 -> Zneg (XO p0)

  (** val succ_double : z -> z **)

  let succ_double = function
  | Z0 -> Zpos XH
  | Zpos p0 -> Zpos (XI p0)
  | Zneg p0 -> Zneg (Pos.pred_double p0)

  (** val pred_double : z -> z **)

  let pred_double = function
  | Z0 -> Zneg XH
  | Zpos p0 -> Zpos (Pos.pred_double p0)
  | Zneg p0 -> Zneg (XI p0)

  (** val pos_sub : positive -> positive -> z **)

  let rec pos_sub x y =
    match x with
    | XI p0 ->
      (match y with
       | XI q -> double (pos_sub p0 q)
       | XO q -> succ_double (pos_sub p0 q)
       | XH -> Zpos (XO p0))
    | XO p0 ->
      (match y with
       | XI q -> pred_double (pos_sub p0 q)
       | XO q -> double (pos_sub p0 q)
       | XH -> Zpos (Pos.pred_double p0))
    | XH ->
      (match y with
       | XI q -> Zneg (XO q)
       | XO q -> Zneg (Pos.pred_double q)
       | XH -> Z0)

  (** val add : z -> z -> z **)

  let add x y =
    match x with
    | Z0 -> y
    | Zpos x' ->
      (match y with
       | Z0 -> x
       | Zpos y' -> Zpos (Pos.add x' y')
       | Zneg y' -> pos_sub x' y')
    | Zneg x' ->
      (match y with
       | Z0 -> x
       | Zpos y' -> pos_sub y' x'
       | Zneg y' -> Zneg (Pos.add x' y'))

  (** val opp : z -> z **)

  let opp = function
  | Z0 -> Z0
  | Zpos x0 -> Zneg x0
  | Zneg x0 -> Zpos x0

  (** val sub : z -> z -> z **)

  let sub m n0 =
    add m (opp n0)

  (** val mul : z -> z -> z **)

  let mul x y =
    match x with
    | Z0 -> Z0
    | Zpos x' ->
      (match y with
       | Z0 -> Z0
       | Zpos y' -> Zpos (Pos.mul x' y')
       | Zneg y' -> Zneg (Pos.mul x' y'))
    | Zneg x' ->
      (match y with
       | Z0 -> Z0
       | Zpos y' -> Zneg (Pos.mul x' y')
       | Zneg y' -> Zpos (Pos.mul x' y'))

  (** val pow_pos : z -> positive -> z **)

  let pow_pos z0 =
    Pos.iter (mul z0) (Zpos XH)

  (** val pow : z -> z -> z **)

  let pow x = function
  | Z0 -> Zpos XH
  | Zpos p0 -> pow_pos x p0
  | Zneg _ -> Z0

  (** val compare : z -> z -> comparison **)

  let compare x y =
    match x with
    | Z0 -> (match y with
             | Z0 -> Eq
             | Zpos _ -> Lt
             | Zneg _ -> Gt)
    | Zpos x' -> (match y with
                  | Zpos y' -> Pos.compare x' y'
                  | _ -> Gt)
    | Zneg x' ->
      (match y with
       | Zneg y' -> compOpp (Pos.compare x' y')
       | _ -> Lt)

  (** val leb : z -> z -> bool **)

  let leb x y =
    match compare x y with
    | Gt -> false
    | _ -> true

  (** val ltb : z -> z -> bool **)

  let ltb x y =
    match compare x y with
    | Lt -> true
    | _ -> false

  (** val eqb : z -> z -> bool **)

  let eqb x y =
    match x with
    | Z0 -> (match y with
             | Z0 -> true
             | _ -> false)
    | Zpos p0 -> (match y with
                  | Zpos q -> Pos.eqb p0 q
                  | _ -> false)
    | Zneg p0 -> (match y with
                  | Zneg q -> Pos.eqb p0 q
                  | _ -> false)

  (** val min : z -> z -> z **)

  let min n0 m =
    match compare n0 m with
    | Gt -> m
    | _ -> n0

  (** val to_nat : z -> nat **)

  let to_nat = function
  | Zpos p0 -> Pos.to_nat p0
  | _ -> O

  (** val pos_div_eucl : positive -> z -> z * z **)

  let rec pos_div_eucl a b =
    match a with
    | XI a' ->
      let (q, r) = pos_div_eucl a' b in
      let r' = add (mul (Zpos (XO XH)) r) (Zpos XH) in
      if ltb r' b
      then ((mul (Zpos (XO XH)) q), r')
      else ((add (mul (Zpos (XO XH)) q) (Zpos XH)), (sub r' b))
    | XO a' ->
      let (q, r) = pos_div_eucl a' b in
      let r' = mul (Zpos (XO XH)) r in
      if ltb r' b
      then ((mul (Zpos (XO XH)) q), r')
      else ((add (mul (Zpos (XO XH)) q) (Zpos XH)), (sub r' b))
    | XH -> if leb (Zpos (XO XH)) b then (Z0, (Zpos XH)) else ((Zpos XH), Z0)

  (** val div_eucl : z -> z -> z * z **)

  let div_eucl a b =
    match a with
    | Z0 -> (Z0, Z0)
    | Zpos a' ->
      (match b with
       | Z0 -> (Z0, a)
       | Zpos _ -> pos_div_eucl a' b
       | Zneg b' ->
         let (q, r) = pos_div_eucl a' (Zpos b') in
         (match r with
          | Z0 -> ((opp q), Z0)
          | _ -> ((opp (add q (Zpos XH))), (add b r))))
    | Zneg a' ->
      (match b with
       | Z0 -> (Z0, a)
       | Zpos _ ->
         let (q, r) = pos_div_eucl a' b in
         (match r with
          | Z0 -> ((opp q), Z0)
          | _ -> ((opp (add q (Zpos XH))), (sub b r)))
       | Zneg b' -> let (q, r) = pos_div_eucl a' (Zpos b') in (q, (opp r)))

  (** val div : z -> z -> z **)

  let div a b =
    let (q, _) = div_eucl a b in q
 end

(** val mS : z **)

let mS =
  Zpos (XO (XO (XO (XO (XO (XO (XI (XO (XO (XI (XO (XO (XO (XO (XI (XO (XI
    (XI (XI XH)))))))))))))))))))

(** val w : z **)

let w =
  Z.pow (Zpos (XO XH)) (Zpos (XO (XO (XO (XO (XO (XO XH)))))))

(** val cAP : z **)

let cAP =
  Z.div (Z.sub w (Zpos XH)) (Zpos (XO (XO (XO (XO (XO (XO (XO (XI (XO (XO (XI
    (XO (XO (XO (XO (XI (XO (XI (XI (XI XH)))))))))))))))))))))

(** val ceil_ms : z -> z **)

let ceil_ms d =
  Z.div (Z.sub (Z.add d mS) (Zpos XH)) mS

(** val enc : z option -> z **)

let enc = function
| Some d0 -> Z.add (Z.min (ceil_ms d0) cAP) (Zpos XH)
| None -> Z0

(** val dec : z -> z option **)

let dec v =
  if Z.eqb v Z0 then None else Some (Z.mul (Z.sub v (Zpos XH)) mS)

type verdict =
| VOk
| VTimeout
| VCanceled

type cslot =
| CNone
| CThis
| CStale

type perr =
| PTimeout
| PCanceled

type upc =
| UIdle
| UCp1Load
| UCp1Store
| UCp1Swap
| UWk
| UWkD
| UWkY1
| UWkY2
| UWkQ
| UWkY3
| UWkE
| UTo
| UYc
| UYield
| USusp
| UYb
| UCc
| UCp2Load
| UCp2Store
| UCp2Swap
| URm
| UPara
| UAway
| UDead

type kpc =
| KIdle
| KDur
| KNow
| KArm
| KHandle
| KGon
| KReg
| KStore
| KChk
| KStake
| KSgoff of bool
| KSrun
| KSload
| KFtake
| KFgoff of bool
| KFrun
| KNest
| KSetco
| KCchk
| KC1
| KC2
| KC3s
| KC3
| KC4
| KGoff

type npc =
| NIdle
| NTake of bool
| NHold

type cpc =
| CIdle
| CTakeCo
| CTake
| CTakeS
| CHold

type tmst =
| TmNone
| TmArmed
| TmCanc
| TmFired
| TmHold
| TmDone

type hold =
| HNone
| HUn of nat
| HCn of nat
| HTm of nat

type wake =
| WNone
| WUn of bool
| WTm of bool
| WCn
| WSelfTok
| WSelfTmo

type st = { pstate : bool; slot : bool; wk : bool; tmo : z; hnd : nat option;
            ccheck : bool; cbit : bool; cdis : bool; cco : cslot;
            para : perr option; running : bool; rq : nat; up : upc;
            ud : z option; kp : kpc; kdur : z option; kdl : z option;
            un : (nat -> npc); cn : (nat -> cpc); tm : (nat -> tmst);
            tdl : (nat -> z); ntm : nat; now : z; nested : bool;
            dropping : bool; oldk : nat; holder : hold; tcall : z;
            tok0 : bool; ctok : bool; wsrc : wake; nclr : nat;
            lastv : verdict option; tainted : bool; susp : bool; ncall : 
            nat }

(** val set_pstate : bool -> st -> st **)

let set_pstate v s =
  { pstate = v; slot = s.slot; wk = s.wk; tmo = s.tmo; hnd = s.hnd; ccheck =
    s.ccheck; cbit = s.cbit; cdis = s.cdis; cco = s.cco; para = s.para;
    running = s.running; rq = s.rq; up = s.up; ud = s.ud; kp = s.kp; kdur =
    s.kdur; kdl = s.kdl; un = s.un; cn = s.cn; tm = s.tm; tdl = s.tdl; ntm =
    s.ntm; now = s.now; nested = s.nested; dropping = s.dropping; oldk =
    s.oldk; holder = s.holder; tcall = s.tcall; tok0 = s.tok0; ctok = s.ctok;
    wsrc = s.wsrc; nclr = s.nclr; lastv = s.lastv; tainted = s.tainted;
    susp = s.susp; ncall = s.ncall }

(** val set_slot : bool -> st -> st **)

let set_slot v s =
  { pstate = s.pstate; slot = v; wk = s.wk; tmo = s.tmo; hnd = s.hnd;
    ccheck = s.ccheck; cbit = s.cbit; cdis = s.cdis; cco = s.cco; para =
    s.para; running = s.running; rq = s.rq; up = s.up; ud = s.ud; kp = s.kp;
    kdur = s.kdur; kdl = s.kdl; un = s.un; cn = s.cn; tm = s.tm; tdl = s.tdl;
    ntm = s.ntm; now = s.now; nested = s.nested; dropping = s.dropping;
    oldk = s.oldk; holder = s.holder; tcall = s.tcall; tok0 = s.tok0; ctok =
    s.ctok; wsrc = s.wsrc; nclr = s.nclr; lastv = s.lastv; tainted =
    s.tainted; susp = s.susp; ncall = s.ncall }

(** val set_wk : bool -> st -> st **)

let set_wk v s =
  { pstate = s.pstate; slot = s.slot; wk = v; tmo = s.tmo; hnd = s.hnd;
    ccheck = s.ccheck; cbit = s.cbit; cdis = s.cdis; cco = s.cco; para =
    s.para; running = s.running; rq = s.rq; up = s.up; ud = s.ud; kp = s.kp;
    kdur = s.kdur; kdl = s.kdl; un = s.un; cn = s.cn; tm = s.tm; tdl = s.tdl;
    ntm = s.ntm; now = s.now; nested = s.nested; dropping = s.dropping;
    oldk = s.oldk; holder = s.holder; tcall = s.tcall; tok0 = s.tok0; ctok =
    s.ctok; wsrc = s.wsrc; nclr = s.nclr; lastv = s.lastv; tainted =
    s.tainted; susp = s.susp; ncall = s.ncall }

(** val set_tmo : z -> st -> st **)

let set_tmo v s =
  { pstate = s.pstate; slot = s.slot; wk = s.wk; tmo = v; hnd = s.hnd;
    ccheck = s.ccheck; cbit = s.cbit; cdis = s.cdis; cco = s.cco; para =
    s.para; running = s.running; rq = s.rq; up = s.up; ud = s.ud; kp = s.kp;
    kdur = s.kdur; kdl = s.kdl; un = s.un; cn = s.cn; tm = s.tm; tdl = s.tdl;
    ntm = s.ntm; now = s.now; nested = s.nested; dropping = s.dropping;
    oldk = s.oldk; holder = s.holder; tcall = s.tcall; tok0 = s.tok0; ctok =
    s.ctok; wsrc = s.wsrc; nclr = s.nclr; lastv = s.lastv; tainted =
    s.tainted; susp = s.susp; ncall = s.ncall }

(** val set_hnd : nat option -> st -> st **)

let set_hnd v s =
  { pstate = s.pstate; slot = s.slot; wk = s.wk; tmo = s.tmo; hnd = v;
    ccheck = s.ccheck; cbit = s.cbit; cdis = s.cdis; cco = s.cco; para =
    s.para; running = s.running; rq = s.rq; up = s.up; ud = s.ud; kp = s.kp;
    kdur = s.kdur; kdl = s.kdl; un = s.un; cn = s.cn; tm = s.tm; tdl = s.tdl;
    ntm = s.ntm; now = s.now; nested = s.nested; dropping = s.dropping;
    oldk = s.oldk; holder = s.holder; tcall = s.tcall; tok0 = s.tok0; ctok =
    s.ctok; wsrc = s.wsrc; nclr = s.nclr; lastv = s.lastv; tainted =
    s.tainted; susp = s.susp; ncall = s.ncall }

(** val set_ccheck : bool -> st -> st **)

let set_ccheck v s =
  { pstate = s.pstate; slot = s.slot; wk = s.wk; tmo = s.tmo; hnd = s.hnd;
    ccheck = v; cbit = s.cbit; cdis = s.cdis; cco = s.cco; para = s.para;
    running = s.running; rq = s.rq; up = s.up; ud = s.ud; kp = s.kp; kdur =
    s.kdur; kdl = s.kdl; un = s.un; cn = s.cn; tm = s.tm; tdl = s.tdl; ntm =
    s.ntm; now = s.now; nested = s.nested; dropping = s.dropping; oldk =
    s.oldk; holder = s.holder; tcall = s.tcall; tok0 = s.tok0; ctok = s.ctok;
    wsrc = s.wsrc; nclr = s.nclr; lastv = s.lastv; tainted = s.tainted;
    susp = s.susp; ncall = s.ncall }

(** val set_cbit : bool -> st -> st **)

let set_cbit v s =
  { pstate = s.pstate; slot = s.slot; wk = s.wk; tmo = s.tmo; hnd = s.hnd;
    ccheck = s.ccheck; cbit = v; cdis = s.cdis; cco = s.cco; para = s.para;
    running = s.running; rq = s.rq; up = s.up; ud = s.ud; kp = s.kp; kdur =
    s.kdur; kdl = s.kdl; un = s.un; cn = s.cn; tm = s.tm; tdl = s.tdl; ntm =
    s.ntm; now = s.now; nested = s.nested; dropping = s.dropping; oldk =
    s.oldk; holder = s.holder; tcall = s.tcall; tok0 = s.tok0; ctok = s.ctok;
    wsrc = s.wsrc; nclr = s.nclr; lastv = s.lastv; tainted = s.tainted;
    susp = s.susp; ncall = s.ncall }

(** val set_cdis : bool -> st -> st **)

let set_cdis v s =
  { pstate = s.pstate; slot = s.slot; wk = s.wk; tmo = s.tmo; hnd = s.hnd;
    ccheck = s.ccheck; cbit = s.cbit; cdis = v; cco = s.cco; para = s.para;
    running = s.running; rq = s.rq; up = s.up; ud = s.ud; kp = s.kp; kdur =
    s.kdur; kdl = s.kdl; un = s.un; cn = s.cn; tm = s.tm; tdl = s.tdl; ntm =
    s.ntm; now = s.now; nested = s.nested; dropping = s.dropping; oldk =
    s.oldk; holder = s.holder; tcall = s.tcall; tok0 = s.tok0; ctok = s.ctok;
    wsrc = s.wsrc; nclr = s.nclr; lastv = s.lastv; tainted = s.tainted;
    susp = s.susp; ncall = s.ncall }

(** val set_cco : cslot -> st -> st **)

let set_cco v s =
  { pstate = s.pstate; slot = s.slot; wk = s.wk; tmo = s.tmo; hnd = s.hnd;
    ccheck = s.ccheck; cbit = s.cbit; cdis = s.cdis; cco = v; para = s.para;
    running = s.running; rq = s.rq; up = s.up; ud = s.ud; kp = s.kp; kdur =
    s.kdur; kdl = s.kdl; un = s.un; cn = s.cn; tm = s.tm; tdl = s.tdl; ntm =
    s.ntm; now = s.now; nested = s.nested; dropping = s.dropping; oldk =
    s.oldk; holder = s.holder; tcall = s.tcall; tok0 = s.tok0; ctok = s.ctok;
    wsrc = s.wsrc; nclr = s.nclr; lastv = s.lastv; tainted = s.tainted;
    susp = s.susp; ncall = s.ncall }

(** val set_para : perr option -> st -> st **)

let set_para v s =
  { pstate = s.pstate; slot = s.slot; wk = s.wk; tmo = s.tmo; hnd = s.hnd;
    ccheck = s.ccheck; cbit = s.cbit; cdis = s.cdis; cco = s.cco; para = v;
    running = s.running; rq = s.rq; up = s.up; ud = s.ud; kp = s.kp; kdur =
    s.kdur; kdl = s.kdl; un = s.un; cn = s.cn; tm = s.tm; tdl = s.tdl; ntm =
    s.ntm; now = s.now; nested = s.nested; dropping = s.dropping; oldk =
    s.oldk; holder = s.holder; tcall = s.tcall; tok0 = s.tok0; ctok = s.ctok;
    wsrc = s.wsrc; nclr = s.nclr; lastv = s.lastv; tainted = s.tainted;
    susp = s.susp; ncall = s.ncall }

(** val set_running : bool -> st -> st **)

let set_running v s =
  { pstate = s.pstate; slot = s.slot; wk = s.wk; tmo = s.tmo; hnd = s.hnd;
    ccheck = s.ccheck; cbit = s.cbit; cdis = s.cdis; cco = s.cco; para =
    s.para; running = v; rq = s.rq; up = s.up; ud = s.ud; kp = s.kp; kdur =
    s.kdur; kdl = s.kdl; un = s.un; cn = s.cn; tm = s.tm; tdl = s.tdl; ntm =
    s.ntm; now = s.now; nested = s.nested; dropping = s.dropping; oldk =
    s.oldk; holder = s.holder; tcall = s.tcall; tok0 = s.tok0; ctok = s.ctok;
    wsrc = s.wsrc; nclr = s.nclr; lastv = s.lastv; tainted = s.tainted;
    susp = s.susp; ncall = s.ncall }

(** val set_rq : nat -> st -> st **)

let set_rq v s =
  { pstate = s.pstate; slot = s.slot; wk = s.wk; tmo = s.tmo; hnd = s.hnd;
    ccheck = s.ccheck; cbit = s.cbit; cdis = s.cdis; cco = s.cco; para =
    s.para; running = s.running; rq = v; up = s.up; ud = s.ud; kp = s.kp;
    kdur = s.kdur; kdl = s.kdl; un = s.un; cn = s.cn; tm = s.tm; tdl = s.tdl;
    ntm = s.ntm; now = s.now; nested = s.nested; dropping = s.dropping;
    oldk = s.oldk; holder = s.holder; tcall = s.tcall; tok0 = s.tok0; ctok =
    s.ctok; wsrc = s.wsrc; nclr = s.nclr; lastv = s.lastv; tainted =
    s.tainted; susp = s.susp; ncall = s.ncall }

(** val set_up : upc -> st -> st **)

let set_up v s =
  { pstate = s.pstate; slot = s.slot; wk = s.wk; tmo = s.tmo; hnd = s.hnd;
    ccheck = s.ccheck; cbit = s.cbit; cdis = s.cdis; cco = s.cco; para =
    s.para; running = s.running; rq = s.rq; up = v; ud = s.ud; kp = s.kp;
    kdur = s.kdur; kdl = s.kdl; un = s.un; cn = s.cn; tm = s.tm; tdl = s.tdl;
    ntm = s.ntm; now = s.now; nested = s.nested; dropping = s.dropping;
    oldk = s.oldk; holder = s.holder; tcall = s.tcall; tok0 = s.tok0; ctok =
    s.ctok; wsrc = s.wsrc; nclr = s.nclr; lastv = s.lastv; tainted =
    s.tainted; susp = s.susp; ncall = s.ncall }

(** val set_ud : z option -> st -> st **)

let set_ud v s =
  { pstate = s.pstate; slot = s.slot; wk = s.wk; tmo = s.tmo; hnd = s.hnd;
    ccheck = s.ccheck; cbit = s.cbit; cdis = s.cdis; cco = s.cco; para =
    s.para; running = s.running; rq = s.rq; up = s.up; ud = v; kp = s.kp;
    kdur = s.kdur; kdl = s.kdl; un = s.un; cn = s.cn; tm = s.tm; tdl = s.tdl;
    ntm = s.ntm; now = s.now; nested = s.nested; dropping = s.dropping;
    oldk = s.oldk; holder = s.holder; tcall = s.tcall; tok0 = s.tok0; ctok =
    s.ctok; wsrc = s.wsrc; nclr = s.nclr; lastv = s.lastv; tainted =
    s.tainted; susp = s.susp; ncall = s.ncall }

(** val set_kp : kpc -> st -> st **)

let set_kp v s =
  { pstate = s.pstate; slot = s.slot; wk = s.wk; tmo = s.tmo; hnd = s.hnd;
    ccheck = s.ccheck; cbit = s.cbit; cdis = s.cdis; cco = s.cco; para =
    s.para; running = s.running; rq = s.rq; up = s.up; ud = s.ud; kp = v;
    kdur = s.kdur; kdl = s.kdl; un = s.un; cn = s.cn; tm = s.tm; tdl = s.tdl;
    ntm = s.ntm; now = s.now; nested = s.nested; dropping = s.dropping;
    oldk = s.oldk; holder = s.holder; tcall = s.tcall; tok0 = s.tok0; ctok =
    s.ctok; wsrc = s.wsrc; nclr = s.nclr; lastv = s.lastv; tainted =
    s.tainted; susp = s.susp; ncall = s.ncall }

(** val set_kdur : z option -> st -> st **)

let set_kdur v s =
  { pstate = s.pstate; slot = s.slot; wk = s.wk; tmo = s.tmo; hnd = s.hnd;
    ccheck = s.ccheck; cbit = s.cbit; cdis = s.cdis; cco = s.cco; para =
    s.para; running = s.running; rq = s.rq; up = s.up; ud = s.ud; kp = s.kp;
    kdur = v; kdl = s.kdl; un = s.un; cn = s.cn; tm = s.tm; tdl = s.tdl;
    ntm = s.ntm; now = s.now; nested = s.nested; dropping = s.dropping;
    oldk = s.oldk; holder = s.holder; tcall = s.tcall; tok0 = s.tok0; ctok =
    s.ctok; wsrc = s.wsrc; nclr = s.nclr; lastv = s.lastv; tainted =
    s.tainted; susp = s.susp; ncall = s.ncall }

(** val set_kdl : z option -> st -> st **)

let set_kdl v s =
  { pstate = s.pstate; slot = s.slot; wk = s.wk; tmo = s.tmo; hnd = s.hnd;
    ccheck = s.ccheck; cbit = s.cbit; cdis = s.cdis; cco = s.cco; para =
    s.para; running = s.running; rq = s.rq; up = s.up; ud = s.ud; kp = s.kp;
    kdur = s.kdur; kdl = v; un = s.un; cn = s.cn; tm = s.tm; tdl = s.tdl;
    ntm = s.ntm; now = s.now; nested = s.nested; dropping = s.dropping;
    oldk = s.oldk; holder = s.holder; tcall = s.tcall; tok0 = s.tok0; ctok =
    s.ctok; wsrc = s.wsrc; nclr = s.nclr; lastv = s.lastv; tainted =
    s.tainted; susp = s.susp; ncall = s.ncall }

(** val set_un : (nat -> npc) -> st -> st **)

let set_un v s =
  { pstate = s.pstate; slot = s.slot; wk = s.wk; tmo = s.tmo; hnd = s.hnd;
    ccheck = s.ccheck; cbit = s.cbit; cdis = s.cdis; cco = s.cco; para =
    s.para; running = s.running; rq = s.rq; up = s.up; ud = s.ud; kp = s.kp;
    kdur = s.kdur; kdl = s.kdl; un = v; cn = s.cn; tm = s.tm; tdl = s.tdl;
    ntm = s.ntm; now = s.now; nested = s.nested; dropping = s.dropping;
    oldk = s.oldk; holder = s.holder; tcall = s.tcall; tok0 = s.tok0; ctok =
    s.ctok; wsrc = s.wsrc; nclr = s.nclr; lastv = s.lastv; tainted =
    s.tainted; susp = s.susp; ncall = s.ncall }

(** val set_cn : (nat -> cpc) -> st -> st **)

let set_cn v s =
  { pstate = s.pstate; slot = s.slot; wk = s.wk; tmo = s.tmo; hnd = s.hnd;
    ccheck = s.ccheck; cbit = s.cbit; cdis = s.cdis; cco = s.cco; para =
    s.para; running = s.running; rq = s.rq; up = s.up; ud = s.ud; kp = s.kp;
    kdur = s.kdur; kdl = s.kdl; un = s.un; cn = v; tm = s.tm; tdl = s.tdl;
    ntm = s.ntm; now = s.now; nested = s.nested; dropping = s.dropping;
    oldk = s.oldk; holder = s.holder; tcall = s.tcall; tok0 = s.tok0; ctok =
    s.ctok; wsrc = s.wsrc; nclr = s.nclr; lastv = s.lastv; tainted =
    s.tainted; susp = s.susp; ncall = s.ncall }

(** val set_tm : (nat -> tmst) -> st -> st **)

let set_tm v s =
  { pstate = s.pstate; slot = s.slot; wk = s.wk; tmo = s.tmo; hnd = s.hnd;
    ccheck = s.ccheck; cbit = s.cbit; cdis = s.cdis; cco = s.cco; para =
    s.para; running = s.running; rq = s.rq; up = s.up; ud = s.ud; kp = s.kp;
    kdur = s.kdur; kdl = s.kdl; un = s.un; cn = s.cn; tm = v; tdl = s.tdl;
    ntm = s.ntm; now = s.now; nested = s.nested; dropping = s.dropping;
    oldk = s.oldk; holder = s.holder; tcall = s.tcall; tok0 = s.tok0; ctok =
    s.ctok; wsrc = s.wsrc; nclr = s.nclr; lastv = s.lastv; tainted =
    s.tainted; susp = s.susp; ncall = s.ncall }

(** val set_tdl : (nat -> z) -> st -> st **)

let set_tdl v s =
  { pstate = s.pstate; slot = s.slot; wk = s.wk; tmo = s.tmo; hnd = s.hnd;
    ccheck = s.ccheck; cbit = s.cbit; cdis = s.cdis; cco = s.cco; para =
    s.para; running = s.running; rq = s.rq; up = s.up; ud = s.ud; kp = s.kp;
    kdur = s.kdur; kdl = s.kdl; un = s.un; cn = s.cn; tm = s.tm; tdl = v;
    ntm = s.ntm; now = s.now; nested = s.nested; dropping = s.dropping;
    oldk = s.oldk; holder = s.holder; tcall = s.tcall; tok0 = s.tok0; ctok =
    s.ctok; wsrc = s.wsrc; nclr = s.nclr; lastv = s.lastv; tainted =
    s.tainted; susp = s.susp; ncall = s.ncall }

(** val set_ntm : nat -> st -> st **)

let set_ntm v s =
  { pstate = s.pstate; slot = s.slot; wk = s.wk; tmo = s.tmo; hnd = s.hnd;
    ccheck = s.ccheck; cbit = s.cbit; cdis = s.cdis; cco = s.cco; para =
    s.para; running = s.running; rq = s.rq; up = s.up; ud = s.ud; kp = s.kp;
    kdur = s.kdur; kdl = s.kdl; un = s.un; cn = s.cn; tm = s.tm; tdl = s.tdl;
    ntm = v; now = s.now; nested = s.nested; dropping = s.dropping; oldk =
    s.oldk; holder = s.holder; tcall = s.tcall; tok0 = s.tok0; ctok = s.ctok;
    wsrc = s.wsrc; nclr = s.nclr; lastv = s.lastv; tainted = s.tainted;
    susp = s.susp; ncall = s.ncall }

(** val set_now : z -> st -> st **)

let set_now v s =
  { pstate = s.pstate; slot = s.slot; wk = s.wk; tmo = s.tmo; hnd = s.hnd;
    ccheck = s.ccheck; cbit = s.cbit; cdis = s.cdis; cco = s.cco; para =
    s.para; running = s.running; rq = s.rq; up = s.up; ud = s.ud; kp = s.kp;
    kdur = s.kdur; kdl = s.kdl; un = s.un; cn = s.cn; tm = s.tm; tdl = s.tdl;
    ntm = s.ntm; now = v; nested = s.nested; dropping = s.dropping; oldk =
    s.oldk; holder = s.holder; tcall = s.tcall; tok0 = s.tok0; ctok = s.ctok;
    wsrc = s.wsrc; nclr = s.nclr; lastv = s.lastv; tainted = s.tainted;
    susp = s.susp; ncall = s.ncall }

(** val set_nested : bool -> st -> st **)

let set_nested v s =
  { pstate = s.pstate; slot = s.slot; wk = s.wk; tmo = s.tmo; hnd = s.hnd;
    ccheck = s.ccheck; cbit = s.cbit; cdis = s.cdis; cco = s.cco; para =
    s.para; running = s.running; rq = s.rq; up = s.up; ud = s.ud; kp = s.kp;
    kdur = s.kdur; kdl = s.kdl; un = s.un; cn = s.cn; tm = s.tm; tdl = s.tdl;
    ntm = s.ntm; now = s.now; nested = v; dropping = s.dropping; oldk =
    s.oldk; holder = s.holder; tcall = s.tcall; tok0 = s.tok0; ctok = s.ctok;
    wsrc = s.wsrc; nclr = s.nclr; lastv = s.lastv; tainted = s.tainted;
    susp = s.susp; ncall = s.ncall }

(** val set_dropping : bool -> st -> st **)

let set_dropping v s =
  { pstate = s.pstate; slot = s.slot; wk = s.wk; tmo = s.tmo; hnd = s.hnd;
    ccheck = s.ccheck; cbit = s.cbit; cdis = s.cdis; cco = s.cco; para =
    s.para; running = s.running; rq = s.rq; up = s.up; ud = s.ud; kp = s.kp;
    kdur = s.kdur; kdl = s.kdl; un = s.un; cn = s.cn; tm = s.tm; tdl = s.tdl;
    ntm = s.ntm; now = s.now; nested = s.nested; dropping = v; oldk = s.oldk;
    holder = s.holder; tcall = s.tcall; tok0 = s.tok0; ctok = s.ctok; wsrc =
    s.wsrc; nclr = s.nclr; lastv = s.lastv; tainted = s.tainted; susp =
    s.susp; ncall = s.ncall }

(** val set_oldk : nat -> st -> st **)

let set_oldk v s =
  { pstate = s.pstate; slot = s.slot; wk = s.wk; tmo = s.tmo; hnd = s.hnd;
    ccheck = s.ccheck; cbit = s.cbit; cdis = s.cdis; cco = s.cco; para =
    s.para; running = s.running; rq = s.rq; up = s.up; ud = s.ud; kp = s.kp;
    kdur = s.kdur; kdl = s.kdl; un = s.un; cn = s.cn; tm = s.tm; tdl = s.tdl;
    ntm = s.ntm; now = s.now; nested = s.nested; dropping = s.dropping;
    oldk = v; holder = s.holder; tcall = s.tcall; tok0 = s.tok0; ctok =
    s.ctok; wsrc = s.wsrc; nclr = s.nclr; lastv = s.lastv; tainted =
    s.tainted; susp = s.susp; ncall = s.ncall }

(** val set_holder : hold -> st -> st **)

let set_holder v s =
  { pstate = s.pstate; slot = s.slot; wk = s.wk; tmo = s.tmo; hnd = s.hnd;
    ccheck = s.ccheck; cbit = s.cbit; cdis = s.cdis; cco = s.cco; para =
    s.para; running = s.running; rq = s.rq; up = s.up; ud = s.ud; kp = s.kp;
    kdur = s.kdur; kdl = s.kdl; un = s.un; cn = s.cn; tm = s.tm; tdl = s.tdl;
    ntm = s.ntm; now = s.now; nested = s.nested; dropping = s.dropping;
    oldk = s.oldk; holder = v; tcall = s.tcall; tok0 = s.tok0; ctok = s.ctok;
    wsrc = s.wsrc; nclr = s.nclr; lastv = s.lastv; tainted = s.tainted;
    susp = s.susp; ncall = s.ncall }

(** val set_tcall : z -> st -> st **)

let set_tcall v s =
  { pstate = s.pstate; slot = s.slot; wk = s.wk; tmo = s.tmo; hnd = s.hnd;
    ccheck = s.ccheck; cbit = s.cbit; cdis = s.cdis; cco = s.cco; para =
    s.para; running = s.running; rq = s.rq; up = s.up; ud = s.ud; kp = s.kp;
    kdur = s.kdur; kdl = s.kdl; un = s.un; cn = s.cn; tm = s.tm; tdl = s.tdl;
    ntm = s.ntm; now = s.now; nested = s.nested; dropping = s.dropping;
    oldk = s.oldk; holder = s.holder; tcall = v; tok0 = s.tok0; ctok =
    s.ctok; wsrc = s.wsrc; nclr = s.nclr; lastv = s.lastv; tainted =
    s.tainted; susp = s.susp; ncall = s.ncall }

(** val set_tok0 : bool -> st -> st **)

let set_tok0 v s =
  { pstate = s.pstate; slot = s.slot; wk = s.wk; tmo = s.tmo; hnd = s.hnd;
    ccheck = s.ccheck; cbit = s.cbit; cdis = s.cdis; cco = s.cco; para =
    s.para; running = s.running; rq = s.rq; up = s.up; ud = s.ud; kp = s.kp;
    kdur = s.kdur; kdl = s.kdl; un = s.un; cn = s.cn; tm = s.tm; tdl = s.tdl;
    ntm = s.ntm; now = s.now; nested = s.nested; dropping = s.dropping;
    oldk = s.oldk; holder = s.holder; tcall = s.tcall; tok0 = v; ctok =
    s.ctok; wsrc = s.wsrc; nclr = s.nclr; lastv = s.lastv; tainted =
    s.tainted; susp = s.susp; ncall = s.ncall }

(** val set_ctok : bool -> st -> st **)

let set_ctok v s =
  { pstate = s.pstate; slot = s.slot; wk = s.wk; tmo = s.tmo; hnd = s.hnd;
    ccheck = s.ccheck; cbit = s.cbit; cdis = s.cdis; cco = s.cco; para =
    s.para; running = s.running; rq = s.rq; up = s.up; ud = s.ud; kp = s.kp;
    kdur = s.kdur; kdl = s.kdl; un = s.un; cn = s.cn; tm = s.tm; tdl = s.tdl;
    ntm = s.ntm; now = s.now; nested = s.nested; dropping = s.dropping;
    oldk = s.oldk; holder = s.holder; tcall = s.tcall; tok0 = s.tok0; ctok =
    v; wsrc = s.wsrc; nclr = s.nclr; lastv = s.lastv; tainted = s.tainted;
    susp = s.susp; ncall = s.ncall }

(** val set_wsrc : wake -> st -> st **)

let set_wsrc v s =
  { pstate = s.pstate; slot = s.slot; wk = s.wk; tmo = s.tmo; hnd = s.hnd;
    ccheck = s.ccheck; cbit = s.cbit; cdis = s.cdis; cco = s.cco; para =
    s.para; running = s.running; rq = s.rq; up = s.up; ud = s.ud; kp = s.kp;
    kdur = s.kdur; kdl = s.kdl; un = s.un; cn = s.cn; tm = s.tm; tdl = s.tdl;
    ntm = s.ntm; now = s.now; nested = s.nested; dropping = s.dropping;
    oldk = s.oldk; holder = s.holder; tcall = s.tcall; tok0 = s.tok0; ctok =
    s.ctok; wsrc = v; nclr = s.nclr; lastv = s.lastv; tainted = s.tainted;
    susp = s.susp; ncall = s.ncall }

(** val set_nclr : nat -> st -> st **)

let set_nclr v s =
  { pstate = s.pstate; slot = s.slot; wk = s.wk; tmo = s.tmo; hnd = s.hnd;
    ccheck = s.ccheck; cbit = s.cbit; cdis = s.cdis; cco = s.cco; para =
    s.para; running = s.running; rq = s.rq; up = s.up; ud = s.ud; kp = s.kp;
    kdur = s.kdur; kdl = s.kdl; un = s.un; cn = s.cn; tm = s.tm; tdl = s.tdl;
    ntm = s.ntm; now = s.now; nested = s.nested; dropping = s.dropping;
    oldk = s.oldk; holder = s.holder; tcall = s.tcall; tok0 = s.tok0; ctok =
    s.ctok; wsrc = s.wsrc; nclr = v; lastv = s.lastv; tainted = s.tainted;
    susp = s.susp; ncall = s.ncall }

(** val set_lastv : verdict option -> st -> st **)

let set_lastv v s =
  { pstate = s.pstate; slot = s.slot; wk = s.wk; tmo = s.tmo; hnd = s.hnd;
    ccheck = s.ccheck; cbit = s.cbit; cdis = s.cdis; cco = s.cco; para =
    s.para; running = s.running; rq = s.rq; up = s.up; ud = s.ud; kp = s.kp;
    kdur = s.kdur; kdl = s.kdl; un = s.un; cn = s.cn; tm = s.tm; tdl = s.tdl;
    ntm = s.ntm; now = s.now; nested = s.nested; dropping = s.dropping;
    oldk = s.oldk; holder = s.holder; tcall = s.tcall; tok0 = s.tok0; ctok =
    s.ctok; wsrc = s.wsrc; nclr = s.nclr; lastv = v; tainted = s.tainted;
    susp = s.susp; ncall = s.ncall }

(** val set_tainted : bool -> st -> st **)

let set_tainted v s =
  { pstate = s.pstate; slot = s.slot; wk = s.wk; tmo = s.tmo; hnd = s.hnd;
    ccheck = s.ccheck; cbit = s.cbit; cdis = s.cdis; cco = s.cco; para =
    s.para; running = s.running; rq = s.rq; up = s.up; ud = s.ud; kp = s.kp;
    kdur = s.kdur; kdl = s.kdl; un = s.un; cn = s.cn; tm = s.tm; tdl = s.tdl;
    ntm = s.ntm; now = s.now; nested = s.nested; dropping = s.dropping;
    oldk = s.oldk; holder = s.holder; tcall = s.tcall; tok0 = s.tok0; ctok =
    s.ctok; wsrc = s.wsrc; nclr = s.nclr; lastv = s.lastv; tainted = v;
    susp = s.susp; ncall = s.ncall }

(** val set_susp : bool -> st -> st **)

let set_susp v s =
  { pstate = s.pstate; slot = s.slot; wk = s.wk; tmo = s.tmo; hnd = s.hnd;
    ccheck = s.ccheck; cbit = s.cbit; cdis = s.cdis; cco = s.cco; para =
    s.para; running = s.running; rq = s.rq; up = s.up; ud = s.ud; kp = s.kp;
    kdur = s.kdur; kdl = s.kdl; un = s.un; cn = s.cn; tm = s.tm; tdl = s.tdl;
    ntm = s.ntm; now = s.now; nested = s.nested; dropping = s.dropping;
    oldk = s.oldk; holder = s.holder; tcall = s.tcall; tok0 = s.tok0; ctok =
    s.ctok; wsrc = s.wsrc; nclr = s.nclr; lastv = s.lastv; tainted =
    s.tainted; susp = v; ncall = s.ncall }

(** val set_ncall : nat -> st -> st **)

let set_ncall v s =
  { pstate = s.pstate; slot = s.slot; wk = s.wk; tmo = s.tmo; hnd = s.hnd;
    ccheck = s.ccheck; cbit = s.cbit; cdis = s.cdis; cco = s.cco; para =
    s.para; running = s.running; rq = s.rq; up = s.up; ud = s.ud; kp = s.kp;
    kdur = s.kdur; kdl = s.kdl; un = s.un; cn = s.cn; tm = s.tm; tdl = s.tdl;
    ntm = s.ntm; now = s.now; nested = s.nested; dropping = s.dropping;
    oldk = s.oldk; holder = s.holder; tcall = s.tcall; tok0 = s.tok0; ctok =
    s.ctok; wsrc = s.wsrc; nclr = s.nclr; lastv = s.lastv; tainted =
    s.tainted; susp = s.susp; ncall = v }

(** val upd : (nat -> 'a1) -> nat -> 'a1 -> nat -> 'a1 **)

let upd f i v j =
  if Nat.eqb j i then v else f j

(** val init : st **)

let init =
  { pstate = false; slot = false; wk = false; tmo = Z0; hnd = None; ccheck =
    true; cbit = false; cdis = false; cco = CNone; para = None; running =
    true; rq = O; up = UIdle; ud = None; kp = KIdle; kdur = None; kdl = None;
    un = (fun _ -> NIdle); cn = (fun _ -> CIdle); tm = (fun _ -> TmNone);
    tdl = (fun _ -> Z0); ntm = O; now = Z0; nested = false; dropping = false;
    oldk = O; holder = HNone; tcall = Z0; tok0 = false; ctok = false; wsrc =
    WNone; nclr = O; lastv = None; tainted = false; susp = false; ncall = O }

type action =
| APark of z option
| AU
| AAway
| AExit of bool
| ANewPark of bool
| AK
| AUnSwap of nat
| AUnTake of nat
| AUnSched of nat
| AUnRun of nat
| ACnOr of nat
| ACnTakeCo of nat
| ACnTake of nat
| ACnSched of nat
| ATFire of nat
| ATDrop of nat
| ATTake of nat
| ATRun of nat
| ATick of z
| AResume
| AStaleSetco
| AOldKDone
| ADrop

(** val verdict_of : perr option -> verdict **)

let verdict_of = function
| Some p1 -> (match p1 with
              | PTimeout -> VTimeout
              | PCanceled -> VCanceled)
| None -> VOk

(** val mark_stale : (nat -> npc) -> nat -> npc **)

let mark_stale f i =
  match f i with
  | NTake _ -> NTake true
  | x -> x

(** val clear_tok : st -> st **)

let clear_tok s =
  if s.pstate
  then set_nclr (S s.nclr) (set_un (mark_stale s.un) (set_pstate false s))
  else s

(** val die : st -> st **)

let die s =
  set_nested false (set_para None (set_running false (set_up UDead s)))

(** val canceled : st -> bool **)

let canceled s =
  (&&) s.cbit (negb s.cdis)

(** val optnat_eqb : nat option -> nat option -> bool **)

let optnat_eqb a b =
  match a with
  | Some x -> (match b with
               | Some y -> Nat.eqb x y
               | None -> false)
  | None -> (match b with
             | Some _ -> false
             | None -> true)

(** val after_stake : bool -> bool -> kpc **)

let after_stake fixF12 b =
  if fixF12 then KSgoff b else if b then KSrun else KGoff

(** val after_ftake : bool -> bool -> kpc **)

let after_ftake fixF12 b =
  if fixF12 then KFgoff b else if b then KFrun else KGoff

(** val after_run : bool -> kpc **)

let after_run = function
| true -> KIdle
| false -> KNest

(** val setco_ahead : bool -> kpc -> bool **)

let setco_ahead fixF31 k =
  if fixF31
  then false
  else (match k with
        | KChk -> true
        | KSload -> true
        | KSetco -> true
        | _ -> false)

(** val ustep : st -> st option **)

let ustep s =
  if negb s.running
  then None
  else (match s.up with
        | UCp1Load ->
          Some (set_up (if s.pstate then UCp1Store else UCp1Swap) s)
        | UCp1Store ->
          Some (set_up UIdle (set_lastv (Some VOk) (clear_tok s)))
        | UCp1Swap ->
          if s.pstate
          then Some (set_up UIdle (set_lastv (Some VOk) (clear_tok s)))
          else Some (set_up UWk s)
        | UWk -> Some (set_up (if s.wk then UWkD else UTo) s)
        | UWkD -> Some (set_up UWkY1 (set_cdis true s))
        | UWkY1 ->
          if canceled s
          then Some (set_up UWkY3 (set_para (Some PCanceled) s))
          else Some (set_up UWkY2 s)
        | UWkY2 ->
          Some
            (set_up UWkQ
              (set_nested false (set_rq (S s.rq) (set_running false s))))
        | UWkY3 -> if canceled s then Some (die s) else Some (set_up UWkE s)
        | UWkE -> Some (set_up UWk (set_cdis false s))
        | UTo -> Some (set_up UYc (set_tmo (enc s.ud) s))
        | UYc ->
          if canceled s
          then Some (set_up UYb (set_para (Some PCanceled) s))
          else Some (set_up UYield s)
        | UYield ->
          (match s.kp with
           | KIdle ->
             Some
               (set_up USusp
                 (set_susp true
                   (set_kp KDur (set_nested false (set_running false s)))))
           | _ -> None)
        | UYb -> Some (set_up (if s.ccheck then UCc else UCp2Load) s)
        | UCc -> if canceled s then Some (die s) else Some (set_up UCp2Load s)
        | UCp2Load ->
          Some (set_up (if s.pstate then UCp2Store else UCp2Swap) s)
        | UCp2Store -> Some (set_up URm (set_ctok true (clear_tok s)))
        | UCp2Swap -> Some (set_up URm (set_ctok s.pstate (clear_tok s)))
        | URm ->
          (match s.hnd with
           | Some i ->
             Some
               (set_up UPara
                 (set_tm
                   (match s.tm i with
                    | TmArmed -> upd s.tm i TmCanc
                    | _ -> s.tm) (set_hnd None s)))
           | None -> Some (set_up UPara s))
        | UPara ->
          Some
            (set_up UIdle
              (set_para None (set_lastv (Some (verdict_of s.para)) s)))
        | _ -> None)

(** val kstep : bool -> bool -> bool -> st -> st option **)

let kstep fixF8 fixF12 fixF31 s =
  match s.kp with
  | KIdle -> None
  | KDur ->
    let d = dec s.tmo in
    Some
    (set_kp (match d with
             | Some _ -> KNow
             | None -> KHandle) (set_tmo Z0 (set_kdl None (set_kdur d s))))
  | KNow ->
    (match s.kdur with
     | Some d -> Some (set_kp KArm (set_kdl (Some (Z.add s.now d)) s))
     | None -> None)
  | KArm ->
    (match s.kdur with
     | Some d ->
       Some
         (set_kp KHandle
           (set_ntm (S s.ntm)
             (set_hnd (Some s.ntm)
               (set_tdl (upd s.tdl s.ntm (Z.add s.now d))
                 (set_tm (upd s.tm s.ntm TmArmed) s)))))
     | None -> None)
  | KHandle -> Some (set_kp KGon s)
  | KGon -> Some (set_kp (if fixF31 then KReg else KStore) (set_wk true s))
  | KReg -> Some (set_kp KStore (set_cco CThis s))
  | KStore -> Some (set_kp (if fixF8 then KChk else KSload) (set_slot true s))
  | KChk ->
    Some
      (set_kp
        (match s.kdl with
         | Some t -> if Z.leb t s.now then KStake else KSload
         | None -> KSload) s)
  | KStake ->
    if s.slot
    then Some
           (set_kp (after_stake fixF12 true)
             (set_wsrc WSelfTmo (set_slot false s)))
    else Some (set_kp (after_stake fixF12 false) s)
  | KSgoff b -> Some (set_kp (if b then KSrun else KIdle) (set_wk false s))
  | KSrun ->
    Some
      (set_kp (after_run fixF12)
        (set_nested (negb fixF12)
          (set_up UYb (set_running true (set_para (Some PTimeout) s)))))
  | KSload ->
    Some
      (set_kp (if s.pstate then KFtake else if fixF31 then KCchk else KSetco)
        s)
  | KFtake ->
    if s.slot
    then Some
           (set_kp (after_ftake fixF12 true)
             (set_wsrc WSelfTok (set_slot false s)))
    else Some (set_kp (after_ftake fixF12 false) s)
  | KFgoff b -> Some (set_kp (if b then KFrun else KIdle) (set_wk false s))
  | KFrun ->
    Some
      (set_kp (after_run fixF12)
        (set_nested (negb fixF12) (set_up UYb (set_running true s))))
  | KNest -> if s.nested then None else Some (set_kp KGoff s)
  | KSetco -> Some (set_kp KCchk (set_cco CThis s))
  | KCchk ->
    Some
      (set_kp (if canceled s then if fixF31 then KC3 else KC1 else KGoff) s)
  | KC1 -> Some (set_kp KC2 (set_cbit true s))
  | KC2 ->
    (match s.cco with
     | CNone -> Some (set_kp KGoff s)
     | CThis -> Some (set_kp KC3 (set_cco CNone s))
     | CStale -> Some (set_kp KC3s (set_cco CNone s)))
  | KC3s -> Some (set_kp KGoff s)
  | KC3 ->
    if s.slot
    then Some (set_kp KC4 (set_wsrc WCn (set_slot false s)))
    else Some (set_kp KGoff s)
  | KC4 -> Some (set_kp KGoff (set_rq (S s.rq) (set_para (Some PCanceled) s)))
  | KGoff -> Some (set_kp KIdle (set_wk false s))

(** val step : bool -> bool -> bool -> st -> action -> st option **)

let step fixF8 fixF12 fixF31 s = function
| APark d ->
  (match s.up with
   | UIdle ->
     if (&&) s.running (match d with
                        | Some x -> Z.leb Z0 x
                        | None -> true)
     then Some
            (set_up UCp1Load
              (set_ncall (S s.ncall)
                (set_susp false
                  (set_wsrc WNone
                    (set_ctok false
                      (set_tok0 s.pstate (set_tcall s.now (set_ud d s))))))))
     else None
   | _ -> None)
| AU -> ustep s
| AAway ->
  (match s.up with
   | UIdle ->
     if s.running
     then Some
            (set_up UAway
              (set_nested false (set_rq (S s.rq) (set_running false s))))
     else None
   | _ -> None)
| AExit b ->
  (match s.up with
   | UIdle ->
     if s.running
     then Some
            (set_nested ((&&) b s.nested)
              (set_dropping b (set_running false (set_up UDead s))))
     else None
   | _ -> None)
| ANewPark ign ->
  (match s.up with
   | UIdle ->
     if s.running
     then Some
            (set_ncall O
              (set_wsrc WNone
                (set_ctok false
                  (set_tainted false
                    (set_nclr O
                      (set_nested false
                        (set_ntm O
                          (set_tm (fun _ -> TmNone)
                            (set_cn (fun i ->
                              match s.cn i with
                              | CTake -> CTakeS
                              | x -> x)
                              (set_un (fun _ -> NIdle)
                                (set_kdl None
                                  (set_kdur None
                                    (set_kp KIdle
                                      (set_oldk
                                        (if setco_ahead fixF31 s.kp
                                         then S s.oldk
                                         else s.oldk)
                                        (set_cco
                                          (match s.cco with
                                           | CNone -> CNone
                                           | _ -> CStale)
                                          (set_ccheck (negb ign)
                                            (set_hnd None
                                              (set_tmo Z0
                                                (set_wk false
                                                  (set_slot false
                                                    (set_pstate false s)))))))))))))))))))))
     else None
   | _ -> None)
| AK -> kstep fixF8 fixF12 fixF31 s
| AUnSwap i ->
  (match s.un i with
   | NIdle ->
     Some
       (set_un (upd s.un i (if s.pstate then NIdle else NTake false))
         (set_pstate true s))
   | _ -> None)
| AUnTake i ->
  (match s.un i with
   | NTake b ->
     if s.slot
     then Some
            (set_wsrc (WUn b)
              (set_holder (HUn i)
                (set_un (upd s.un i NHold) (set_slot false s))))
     else Some (set_un (upd s.un i NIdle) s)
   | _ -> None)
| AUnSched i ->
  (match s.un i with
   | NHold ->
     Some (set_holder HNone (set_un (upd s.un i NIdle) (set_rq (S s.rq) s)))
   | _ -> None)
| AUnRun i ->
  (match s.un i with
   | NHold ->
     Some
       (set_holder HNone
         (set_un (upd s.un i NIdle) (set_up UYb (set_running true s))))
   | _ -> None)
| ACnOr i ->
  (match s.cn i with
   | CIdle -> Some (set_cn (upd s.cn i CTakeCo) (set_cbit true s))
   | _ -> None)
| ACnTakeCo i ->
  (match s.cn i with
   | CTakeCo ->
     (match s.cco with
      | CNone -> Some (set_cn (upd s.cn i CIdle) s)
      | CThis -> Some (set_cn (upd s.cn i CTake) (set_cco CNone s))
      | CStale -> Some (set_cn (upd s.cn i CTakeS) (set_cco CNone s)))
   | _ -> None)
| ACnTake i ->
  (match s.cn i with
   | CTake ->
     if s.slot
     then Some
            (set_wsrc WCn
              (set_holder (HCn i)
                (set_cn (upd s.cn i CHold) (set_slot false s))))
     else Some (set_cn (upd s.cn i CIdle) s)
   | CTakeS -> Some (set_cn (upd s.cn i CIdle) s)
   | _ -> None)
| ACnSched i ->
  (match s.cn i with
   | CHold ->
     Some
       (set_holder HNone
         (set_cn (upd s.cn i CIdle)
           (set_rq (S s.rq) (set_para (Some PCanceled) s))))
   | _ -> None)
| ATFire i ->
  (match s.tm i with
   | TmArmed ->
     if Z.leb (s.tdl i) s.now
     then Some (set_tm (upd s.tm i TmFired) s)
     else None
   | TmCanc ->
     if Z.leb (s.tdl i) s.now
     then Some (set_tm (upd s.tm i TmFired) s)
     else None
   | _ -> None)
| ATDrop i ->
  (match s.tm i with
   | TmCanc -> Some (set_tm (upd s.tm i TmDone) s)
   | _ -> None)
| ATTake i ->
  (match s.tm i with
   | TmFired ->
     if s.slot
     then Some
            (set_wsrc (WTm (negb (optnat_eqb s.hnd (Some i))))
              (set_holder (HTm i)
                (set_tm (upd s.tm i TmHold) (set_slot false s))))
     else Some (set_tm (upd s.tm i TmDone) s)
   | _ -> None)
| ATRun i ->
  (match s.tm i with
   | TmHold ->
     Some
       (set_holder HNone
         (set_tm (upd s.tm i TmDone)
           (set_up UYb (set_running true (set_para (Some PTimeout) s)))))
   | _ -> None)
| ATick d -> if Z.ltb Z0 d then Some (set_now (Z.add s.now d) s) else None
| AResume ->
  (match s.rq with
   | O -> None
   | S n0 ->
     if s.running
     then None
     else (match s.up with
           | UWkQ -> Some (set_up UWkY3 (set_running true (set_rq n0 s)))
           | USusp -> Some (set_up UYb (set_running true (set_rq n0 s)))
           | UAway -> Some (set_up UIdle (set_running true (set_rq n0 s)))
           | _ -> None))
| AStaleSetco ->
  (match s.oldk with
   | O -> None
   | S n0 -> Some (set_tainted true (set_oldk n0 (set_cco CStale s))))
| AOldKDone -> (match s.oldk with
                | O -> None
                | S n0 -> Some (set_oldk n0 s))
| ADrop ->
  if s.dropping
  then if s.wk then Some s else Some (set_nested false (set_dropping false s))
  else None

(** val run : bool -> bool -> bool -> st -> action list -> st option **)

let rec run fixF8 fixF12 fixF31 s = function
| [] -> Some s
| a :: r ->
  (match step fixF8 fixF12 fixF31 s a with
   | Some s' -> run fixF8 fixF12 fixF31 s' r
   | None -> None)

(** val kholds : kpc -> bool **)

let kholds = function
| KDur -> true
| KNow -> true
| KArm -> true
| KHandle -> true
| KGon -> true
| KReg -> true
| KStore -> true
| KSgoff got -> got
| KSrun -> true
| KFgoff got -> got
| KFrun -> true
| KC4 -> true
| _ -> false

(** val b2n : bool -> nat **)

let b2n = function
| true -> S O
| false -> O

(** val held : hold -> bool **)

let held = function
| HNone -> false
| _ -> true

(** val places : st -> nat **)

let places s =
  add (add (add (add (b2n s.running) (b2n s.slot)) s.rq) (b2n (kholds s.kp)))
    (b2n (held s.holder))

type tpst = { ttok : bool; twait : z option option; tnow : z }

(** val tpinit : tpst **)

let tpinit =
  { ttok = false; twait = None; tnow = Z0 }

type tpact =
| TpUnpark
| TpEnter of z option
| TpLeave of bool
| TpTick of z

(** val tpstep : tpst -> tpact -> tpst option **)

let tpstep t = function
| TpUnpark -> Some { ttok = true; twait = t.twait; tnow = t.tnow }
| TpEnter d ->
  (match t.twait with
   | Some _ -> None
   | None ->
     if match d with
        | Some x -> Z.leb Z0 x
        | None -> true
     then Some { ttok = t.ttok; twait = (Some
            (match d with
             | Some x -> Some (Z.add t.tnow x)
             | None -> None)); tnow = t.tnow }
     else None)
| TpLeave woken ->
  if woken
  then (match t.twait with
        | Some _ ->
          if t.ttok
          then Some { ttok = false; twait = None; tnow = t.tnow }
          else None
        | None -> None)
  else (match t.twait with
        | Some o ->
          (match o with
           | Some dl ->
             if Z.leb dl t.tnow
             then Some { ttok = false; twait = None; tnow = t.tnow }
             else None
           | None -> None)
        | None -> None)
| TpTick d ->
  if Z.ltb Z0 d
  then Some { ttok = t.ttok; twait = t.twait; tnow = (Z.add t.tnow d) }
  else None

(** val mstep : st -> action -> st option **)

let mstep =
  step true true true

type aux = { meco : z; uth : z; kth : z; oldkth : z; gen : z;
             tgts : (z * z) list; oslot : z; tlog : z; away : bool;
             tps : (z * tpst) list; tpd : (z * z option) list; desync : 
             bool }

(** val aux0 : aux **)

let aux0 =
  { meco = Z0; uth = Z0; kth = Z0; oldkth = Z0; gen = Z0; tgts = []; oslot =
    Z0; tlog = Z0; away = false; tps = []; tpd = []; desync = false }

(** val set_meco : z -> aux -> aux **)

let set_meco v x =
  { meco = v; uth = x.uth; kth = x.kth; oldkth = x.oldkth; gen = x.gen;
    tgts = x.tgts; oslot = x.oslot; tlog = x.tlog; away = x.away; tps =
    x.tps; tpd = x.tpd; desync = x.desync }

(** val set_uth : z -> aux -> aux **)

let set_uth v x =
  { meco = x.meco; uth = v; kth = x.kth; oldkth = x.oldkth; gen = x.gen;
    tgts = x.tgts; oslot = x.oslot; tlog = x.tlog; away = x.away; tps =
    x.tps; tpd = x.tpd; desync = x.desync }

(** val set_kth : z -> aux -> aux **)

let set_kth v x =
  { meco = x.meco; uth = x.uth; kth = v; oldkth = x.oldkth; gen = x.gen;
    tgts = x.tgts; oslot = x.oslot; tlog = x.tlog; away = x.away; tps =
    x.tps; tpd = x.tpd; desync = x.desync }

(** val set_oldkth : z -> aux -> aux **)

let set_oldkth v x =
  { meco = x.meco; uth = x.uth; kth = x.kth; oldkth = v; gen = x.gen; tgts =
    x.tgts; oslot = x.oslot; tlog = x.tlog; away = x.away; tps = x.tps; tpd =
    x.tpd; desync = x.desync }

(** val set_gen : z -> aux -> aux **)

let set_gen v x =
  { meco = x.meco; uth = x.uth; kth = x.kth; oldkth = x.oldkth; gen = v;
    tgts = x.tgts; oslot = x.oslot; tlog = x.tlog; away = x.away; tps =
    x.tps; tpd = x.tpd; desync = x.desync }

(** val set_tgts : (z * z) list -> aux -> aux **)

let set_tgts v x =
  { meco = x.meco; uth = x.uth; kth = x.kth; oldkth = x.oldkth; gen = x.gen;
    tgts = v; oslot = x.oslot; tlog = x.tlog; away = x.away; tps = x.tps;
    tpd = x.tpd; desync = x.desync }

(** val set_oslot : z -> aux -> aux **)

let set_oslot v x =
  { meco = x.meco; uth = x.uth; kth = x.kth; oldkth = x.oldkth; gen = x.gen;
    tgts = x.tgts; oslot = v; tlog = x.tlog; away = x.away; tps = x.tps;
    tpd = x.tpd; desync = x.desync }

(** val set_tlog : z -> aux -> aux **)

let set_tlog v x =
  { meco = x.meco; uth = x.uth; kth = x.kth; oldkth = x.oldkth; gen = x.gen;
    tgts = x.tgts; oslot = x.oslot; tlog = v; away = x.away; tps = x.tps;
    tpd = x.tpd; desync = x.desync }

(** val set_away : bool -> aux -> aux **)

let set_away v x =
  { meco = x.meco; uth = x.uth; kth = x.kth; oldkth = x.oldkth; gen = x.gen;
    tgts = x.tgts; oslot = x.oslot; tlog = x.tlog; away = v; tps = x.tps;
    tpd = x.tpd; desync = x.desync }

(** val set_tps : (z * tpst) list -> aux -> aux **)

let set_tps v x =
  { meco = x.meco; uth = x.uth; kth = x.kth; oldkth = x.oldkth; gen = x.gen;
    tgts = x.tgts; oslot = x.oslot; tlog = x.tlog; away = x.away; tps = v;
    tpd = x.tpd; desync = x.desync }

(** val set_tpd : (z * z option) list -> aux -> aux **)

let set_tpd v x =
  { meco = x.meco; uth = x.uth; kth = x.kth; oldkth = x.oldkth; gen = x.gen;
    tgts = x.tgts; oslot = x.oslot; tlog = x.tlog; away = x.away; tps =
    x.tps; tpd = v; desync = x.desync }

(** val set_desync : bool -> aux -> aux **)

let set_desync v x =
  { meco = x.meco; uth = x.uth; kth = x.kth; oldkth = x.oldkth; gen = x.gen;
    tgts = x.tgts; oslot = x.oslot; tlog = x.tlog; away = x.away; tps =
    x.tps; tpd = x.tpd; desync = v }

(** val lookup : (z * 'a1) list -> z -> 'a1 option **)

let rec lookup l k =
  match l with
  | [] -> None
  | p0 :: r -> let (k', v) = p0 in if Z.eqb k k' then Some v else lookup r k

(** val put : (z * 'a1) list -> z -> 'a1 -> (z * 'a1) list **)

let rec put l k v =
  match l with
  | [] -> (k, v) :: []
  | p0 :: r ->
    let (k', v') = p0 in
    if Z.eqb k k' then (k, v) :: r else (k', v') :: (put r k v)

type pst = { cs : st; acts : action list; ax : aux }

type p = pst -> pst option

(** val ret : p **)

let ret p0 =
  Some p0

(** val fail : p **)

let fail _ =
  None

(** val seq : p -> p -> p **)

let seq f g p0 =
  match f p0 with
  | Some q -> g q
  | None -> None

(** val act : action -> p **)

let act a p0 =
  match mstep p0.cs a with
  | Some s' -> Some { cs = s'; acts = (a :: p0.acts); ax = p0.ax }
  | None -> None

(** val guard : bool -> p **)

let guard b p0 =
  if b then Some p0 else None

(** val withs : (st -> aux -> p) -> p **)

let withs f p0 =
  f p0.cs p0.ax p0

(** val setax : (aux -> aux) -> p **)

let setax h p0 =
  Some { cs = p0.cs; acts = p0.acts; ax = (h p0.ax) }

(** val n : z -> nat **)

let n =
  Z.to_nat

(** val zb : z -> bool **)

let zb v =
  negb (Z.eqb v Z0)

(** val is1 : z -> bool **)

let is1 v =
  Z.eqb v (Zpos XH)

(** val tick_to : z -> p **)

let tick_to t =
  withs (fun s _ ->
    if Z.ltb s.now t then act (ATick (Z.sub t s.now)) else ret)

(** val sync_time : z -> p **)

let sync_time t =
  seq (withs (fun s _ -> guard (Z.leb s.now t)))
    (seq (tick_to t) (setax (set_tlog t)))

(** val flush : z -> p **)

let flush a =
  seq
    (withs (fun s _ ->
      match s.un (n a) with
      | NHold -> act (AUnSched (n a))
      | _ -> ret))
    (withs (fun s _ ->
      match s.cn (n a) with
      | CHold -> act (ACnSched (n a))
      | _ -> ret))

(** val flush_holder : p **)

let flush_holder =
  withs (fun s _ ->
    match s.holder with
    | HUn i -> act (AUnSched i)
    | HCn i -> act (ACnSched i)
    | _ -> ret)

(** val lazyk : p **)

let lazyk =
  withs (fun s _ -> match s.kp with
                    | KC4 -> act AK
                    | _ -> ret)

(** val isu : z -> aux -> bool **)

let isu a x =
  (&&) (Z.eqb a x.uth) (negb (Z.eqb x.uth Z0))

(** val isk : z -> aux -> bool **)

let isk a x =
  (&&) (Z.eqb a x.kth) (negb (Z.eqb x.kth Z0))

(** val isoldk : z -> aux -> bool **)

let isoldk a x =
  (&&) (Z.eqb a x.oldkth) (negb (Z.eqb x.oldkth Z0))

(** val tracked : z -> aux -> bool **)

let tracked a x =
  (&&) (negb (Z.eqb x.meco Z0))
    (match lookup x.tgts a with
     | Some g -> Z.eqb g x.gen
     | None -> false)

(** val cco_some : cslot -> bool **)

let cco_some = function
| CNone -> false
| _ -> true

(** val hnd_some : nat option -> bool **)

let hnd_some = function
| Some _ -> true
| None -> false

(** val min_entry : (nat -> tmst) -> (nat -> z) -> nat -> (nat * z) option **)

let rec min_entry t d = function
| O -> None
| S k' ->
  let r = min_entry t d k' in
  (match t k' with
   | TmArmed ->
     (match r with
      | Some p0 ->
        let (_, d0) = p0 in if Z.leb d0 (d k') then r else Some (k', (d k'))
      | None -> Some (k', (d k')))
   | TmCanc ->
     (match r with
      | Some p0 ->
        let (_, d0) = p0 in if Z.leb d0 (d k') then r else Some (k', (d k'))
      | None -> Some (k', (d k')))
   | _ -> r)

(** val verdict_code : verdict option -> z **)

let verdict_code = function
| Some v0 ->
  (match v0 with
   | VOk -> Z0
   | VTimeout -> Zpos XH
   | VCanceled -> Zpos (XO XH))
| None -> Zpos (XI (XO (XO XH)))

(** val dur_of : z -> z option **)

let dur_of o =
  if Z.eqb o Z0 then None else Some (Z.sub o (Zpos XH))

(** val tp_get : aux -> z -> tpst **)

let tp_get x o =
  match lookup x.tps o with
  | Some t -> t
  | None -> tpinit

(** val tp_do : z -> (tpst -> tpst option) -> p **)

let tp_do o f p0 =
  match f (tp_get p0.ax o) with
  | Some t' ->
    Some { cs = p0.cs; acts = p0.acts; ax =
      (set_tps (put p0.ax.tps o t') p0.ax) }
  | None -> None

(** val tp_tick_to : tpst -> z -> tpst option **)

let tp_tick_to t z0 =
  if Z.ltb t.tnow z0 then tpstep t (TpTick (Z.sub z0 t.tnow)) else Some t

(** val tp_seq :
    (tpst -> tpst option) -> (tpst -> tpst option) -> tpst -> tpst option **)

let tp_seq f g t =
  match f t with
  | Some t' -> g t'
  | None -> None

(** val plan : z list -> p **)

let plan = function
| [] -> fail
| code :: l ->
  (match l with
   | [] -> fail
   | a :: l0 ->
     (match l0 with
      | [] -> fail
      | obj :: l1 ->
        (match l1 with
         | [] -> fail
         | val0 :: l2 ->
           (match l2 with
            | [] ->
              withs (fun s0 x0 ->
                seq
                  (match code with
                   | Zpos p0 ->
                     (match p0 with
                      | XI p1 ->
                        (match p1 with
                         | XI p2 ->
                           (match p2 with
                            | XI p3 ->
                              (match p3 with
                               | XI p4 ->
                                 (match p4 with
                                  | XI _ -> fail
                                  | XO p5 ->
                                    (match p5 with
                                     | XH ->
                                       if isu a x0
                                       then (match s0.up with
                                             | UWkE -> act AU
                                             | _ -> ret)
                                       else ret
                                     | _ -> fail)
                                  | XH ->
                                    if isk a x0
                                    then (match s0.kp with
                                          | KChk ->
                                            seq
                                              (match s0.kdl with
                                               | Some t -> tick_to t
                                               | None -> fail)
                                              (seq (act AK)
                                                (withs (fun s _ ->
                                                  match s.kp with
                                                  | KStake ->
                                                    seq
                                                      (guard
                                                        (eqb (zb val0) s.slot))
                                                      (act AK)
                                                  | _ -> fail)))
                                          | _ -> fail)
                                    else ret)
                               | XO p4 ->
                                 (match p4 with
                                  | XH ->
                                    seq (flush a)
                                      (if tracked a x0
                                       then seq
                                              (guard
                                                (eqb (zb val0) s0.pstate))
                                              (act (AUnSwap (n a)))
                                       else ret)
                                  | _ -> fail)
                               | XH ->
                                 if zb val0
                                 then tp_do obj (fun t ->
                                        tpstep t (TpLeave true))
                                 else tp_do obj
                                        (tp_seq (fun t ->
                                          match t.twait with
                                          | Some o ->
                                            (match o with
                                             | Some dl -> tp_tick_to t dl
                                             | None -> None)
                                          | None -> None) (fun t ->
                                          tpstep t (TpLeave false))))
                            | XO p3 ->
                              (match p3 with
                               | XI p4 ->
                                 (match p4 with
                                  | XI _ -> fail
                                  | XO p5 ->
                                    (match p5 with
                                     | XH ->
                                       if isk a x0
                                       then fail
                                       else if negb (Z.eqb x0.meco Z0)
                                            then (match s0.cn (n a) with
                                                  | CTakeCo ->
                                                    seq
                                                      (guard
                                                        (eqb (zb val0)
                                                          (cco_some s0.cco)))
                                                      (act (ACnTakeCo (n a)))
                                                  | _ -> fail)
                                            else ret
                                     | _ -> fail)
                                  | XH ->
                                    if isk a x0
                                    then (match s0.kp with
                                          | KDur ->
                                            seq (guard (Z.eqb val0 s0.tmo))
                                              (act AK)
                                          | _ -> fail)
                                    else ret)
                               | XO p4 ->
                                 (match p4 with
                                  | XO p5 ->
                                    (match p5 with
                                     | XH ->
                                       if isu a x0
                                       then (match s0.up with
                                             | UYb ->
                                               seq
                                                 (guard
                                                   (eqb (zb val0) s0.ccheck))
                                                 (act AU)
                                             | _ -> fail)
                                       else ret
                                     | _ -> fail)
                                  | _ -> fail)
                               | XH ->
                                 if (&&) (Z.eqb obj x0.meco)
                                      (negb (Z.eqb x0.meco Z0))
                                 then seq (guard (isu a x0))
                                        (seq
                                          (match s0.up with
                                           | UIdle -> setax (set_away true)
                                           | UWkY2 -> act AU
                                           | UYield ->
                                             seq (act AU) (setax (set_kth a))
                                           | _ -> fail) (setax (set_uth Z0)))
                                 else ret)
                            | XH ->
                              seq (flush a)
                                (seq
                                  (setax (fun x ->
                                    set_tgts (put x.tgts a (Zneg XH)) x))
                                  (sync_time val0)))
                         | XO p2 ->
                           (match p2 with
                            | XI p3 ->
                              (match p3 with
                               | XI p4 ->
                                 (match p4 with
                                  | XI _ -> fail
                                  | XO p5 ->
                                    (match p5 with
                                     | XH ->
                                       if isk a x0
                                       then (match s0.kp with
                                             | KReg -> act AK
                                             | _ -> fail)
                                       else if isoldk a x0 then fail else ret
                                     | _ -> fail)
                                  | XH ->
                                    if isk a x0
                                    then (match s0.kp with
                                          | KGon -> act AK
                                          | _ -> fail)
                                    else ret)
                               | XO p4 ->
                                 (match p4 with
                                  | XH ->
                                    if isu a x0
                                    then (match s0.up with
                                          | UCp1Store -> act AU
                                          | UCp2Store -> act AU
                                          | _ -> fail)
                                    else ret
                                  | _ -> fail)
                               | XH ->
                                 if (&&) (Z.eqb obj x0.meco)
                                      (negb (Z.eqb x0.meco Z0))
                                 then seq
                                        (match s0.up with
                                         | UIdle ->
                                           seq (guard s0.cbit)
                                             (act (AExit false))
                                         | UDead -> ret
                                         | _ -> fail)
                                        (setax (fun x ->
                                          set_away false (set_uth Z0 x)))
                                 else ret)
                            | XO p3 ->
                              (match p3 with
                               | XI p4 ->
                                 (match p4 with
                                  | XI _ -> fail
                                  | XO p5 ->
                                    (match p5 with
                                     | XH ->
                                       if isu a x0
                                       then (match s0.up with
                                             | UIdle ->
                                               guard
                                                 (eqb (is1 val0)
                                                   (canceled s0))
                                             | UWkY3 ->
                                               seq
                                                 (guard
                                                   (eqb (is1 val0)
                                                     (canceled s0))) 
                                                 (act AU)
                                             | UCc ->
                                               seq
                                                 (guard
                                                   (eqb (is1 val0)
                                                     (canceled s0))) 
                                                 (act AU)
                                             | _ -> fail)
                                       else ret
                                     | _ -> fail)
                                  | XH ->
                                    if isu a x0
                                    then (match s0.up with
                                          | UWk ->
                                            seq (guard (eqb (zb val0) s0.wk))
                                              (act AU)
                                          | _ -> fail)
                                    else ret)
                               | XO p4 ->
                                 (match p4 with
                                  | XO p5 ->
                                    (match p5 with
                                     | XH ->
                                       if isk a x0
                                       then (match s0.kp with
                                             | KFtake ->
                                               seq
                                                 (guard
                                                   (eqb (zb val0) s0.slot))
                                                 (act AK)
                                             | _ -> fail)
                                       else ret
                                     | _ -> fail)
                                  | _ -> fail)
                               | XH -> seq (flush a) (sync_time val0))
                            | XH ->
                              if Z.eqb x0.meco Z0
                              then setax (fun x ->
                                     set_tlog val0
                                       (set_tpd (put x.tpd a None) x))
                              else seq (guard (isu a x0))
                                     (seq (sync_time val0)
                                       (seq
                                         (withs (fun s _ ->
                                           match s.up with
                                           | UPara -> act AU
                                           | _ -> ret))
                                         (withs (fun s _ ->
                                           guard
                                             ((&&)
                                               (match s.up with
                                                | UIdle -> true
                                                | _ -> false)
                                               ((||)
                                                 (Z.eqb obj (Zpos (XI XH)))
                                                 (Z.eqb obj
                                                   (verdict_code s.lastv)))))))))
                         | XH ->
                           if Z.eqb x0.meco Z0
                           then setax (set_tlog val0)
                           else seq (guard (isu a x0))
                                  (seq (sync_time val0)
                                    (seq
                                      (match s0.kp with
                                       | KIdle -> ret
                                       | _ ->
                                         if Z.eqb x0.oldkth Z0
                                         then setax (fun x ->
                                                set_oldkth x.kth x)
                                         else setax (set_desync true))
                                      (seq
                                        (act (ANewPark
                                          (Z.eqb code (Zpos (XI XH)))))
                                        (setax (fun x ->
                                          set_gen obj
                                            (set_kth Z0 (set_oslot Z0 x))))))))
                      | XO p1 ->
                        (match p1 with
                         | XI p2 ->
                           (match p2 with
                            | XI p3 ->
                              (match p3 with
                               | XI p4 ->
                                 (match p4 with
                                  | XI _ -> fail
                                  | XO p5 ->
                                    (match p5 with
                                     | XH ->
                                       if isu a x0
                                       then (match s0.up with
                                             | UWkD -> act AU
                                             | _ -> ret)
                                       else ret
                                     | _ -> fail)
                                  | XH ->
                                    if isk a x0
                                    then (match s0.kp with
                                          | KStore ->
                                            seq (setax (set_oslot obj))
                                              (act AK)
                                          | _ -> fail)
                                    else ret)
                               | XO p4 ->
                                 (match p4 with
                                  | XH ->
                                    if isu a x0
                                    then (match s0.up with
                                          | UCp1Swap ->
                                            seq
                                              (guard
                                                (eqb (zb val0) s0.pstate))
                                              (act AU)
                                          | UCp2Swap ->
                                            seq
                                              (guard
                                                (eqb (zb val0) s0.pstate))
                                              (act AU)
                                          | _ -> fail)
                                    else ret
                                  | _ -> fail)
                               | XH ->
                                 tp_do obj
                                   (tp_seq (fun t -> tp_tick_to t x0.tlog)
                                     (fun t ->
                                     tpstep t (TpEnter
                                       (match lookup x0.tpd a with
                                        | Some d -> d
                                        | None -> None)))))
                            | XO p3 ->
                              (match p3 with
                               | XI p4 ->
                                 (match p4 with
                                  | XI _ -> fail
                                  | XO p5 ->
                                    (match p5 with
                                     | XH ->
                                       seq (flush a)
                                         (if isk a x0
                                          then fail
                                          else if negb (Z.eqb x0.meco Z0)
                                               then withs (fun s _ ->
                                                      match s.cn (n a) with
                                                      | CIdle ->
                                                        act (ACnOr (n a))
                                                      | _ -> fail)
                                               else ret)
                                     | _ -> fail)
                                  | XH ->
                                    if isu a x0
                                    then (match s0.up with
                                          | UTo ->
                                            seq
                                              (guard (Z.eqb val0 (enc s0.ud)))
                                              (act AU)
                                          | _ -> fail)
                                    else ret)
                               | XO p4 ->
                                 (match p4 with
                                  | XI p5 ->
                                    (match p5 with
                                     | XH ->
                                       if (&&) (Z.eqb obj x0.oslot)
                                            (negb (Z.eqb x0.oslot Z0))
                                       then if zb val0
                                            then (match min_entry s0.tm
                                                          s0.tdl s0.ntm with
                                                  | Some p6 ->
                                                    let (i, dl) = p6 in
                                                    seq (tick_to dl)
                                                      (seq (act (ATFire i))
                                                        (seq (guard s0.slot)
                                                          (act (ATTake i))))
                                                  | None -> fail)
                                            else guard (negb s0.slot)
                                       else ret
                                     | _ -> fail)
                                  | XO p5 ->
                                    (match p5 with
                                     | XH ->
                                       if isk a x0
                                       then seq lazyk
                                              (withs (fun s _ ->
                                                match s.kp with
                                                | KSgoff _ -> act AK
                                                | KFgoff _ -> act AK
                                                | KGoff -> act AK
                                                | _ -> fail))
                                       else if isoldk a x0
                                            then seq (flush a)
                                                   (seq
                                                     (withs (fun s _ ->
                                                       match s.oldk with
                                                       | O -> ret
                                                       | S _ -> act AOldKDone))
                                                     (setax (set_oldkth Z0)))
                                            else ret
                                     | _ -> fail)
                                  | XH -> fail)
                               | XH ->
                                 if (&&) (Z.eqb obj x0.meco)
                                      (negb (Z.eqb x0.meco Z0))
                                 then seq (flush a)
                                        (seq
                                          (if x0.away
                                           then seq (act AAway)
                                                  (setax (set_away false))
                                           else ret)
                                          (seq
                                            (withs (fun s x ->
                                              match s.holder with
                                              | HTm i -> act (ATRun i)
                                              | _ ->
                                                (match s.kp with
                                                 | KSrun ->
                                                   seq (guard (isk a x))
                                                     (act AK)
                                                 | KFrun ->
                                                   seq (guard (isk a x))
                                                     (act AK)
                                                 | _ ->
                                                   seq flush_holder
                                                     (seq lazyk (act AResume)))))
                                            (setax (set_uth a))))
                                 else ret)
                            | XH ->
                              seq (flush a)
                                (seq
                                  (setax (fun x ->
                                    set_tgts (put x.tgts a obj) x))
                                  (sync_time val0)))
                         | XO p2 ->
                           (match p2 with
                            | XI p3 ->
                              (match p3 with
                               | XI p4 ->
                                 (match p4 with
                                  | XI _ -> fail
                                  | XO p5 ->
                                    (match p5 with
                                     | XH ->
                                       if isk a x0
                                       then fail
                                       else if negb (Z.eqb x0.meco Z0)
                                            then (match s0.cn (n a) with
                                                  | CTake ->
                                                    seq
                                                      (guard
                                                        (eqb (zb val0)
                                                          s0.slot))
                                                      (act (ACnTake (n a)))
                                                  | CTakeS ->
                                                    seq
                                                      (guard (negb (zb val0)))
                                                      (act (ACnTake (n a)))
                                                  | _ -> fail)
                                            else ret
                                     | _ -> fail)
                                  | XH ->
                                    if isk a x0
                                    then seq
                                           (withs (fun s _ ->
                                             match s.kp with
                                             | KNow -> act AK
                                             | _ -> ret))
                                           (seq
                                             (withs (fun s _ ->
                                               match s.kp with
                                               | KArm -> act AK
                                               | _ -> ret))
                                             (withs (fun s _ ->
                                               match s.kp with
                                               | KHandle ->
                                                 seq (guard (negb (zb val0)))
                                                   (act AK)
                                               | _ -> fail)))
                                    else if isu a x0
                                         then (match s0.up with
                                               | URm ->
                                                 seq
                                                   (guard
                                                     (eqb (zb val0)
                                                       (hnd_some s0.hnd)))
                                                   (act AU)
                                               | _ -> ret)
                                         else ret)
                               | XO p4 ->
                                 (match p4 with
                                  | XI _ -> fail
                                  | XO p5 ->
                                    (match p5 with
                                     | XH ->
                                       if isk a x0
                                       then (match s0.kp with
                                             | KC3 ->
                                               seq
                                                 (guard
                                                   (eqb (zb val0) s0.slot))
                                                 (act AK)
                                             | _ -> fail)
                                       else if isoldk a x0
                                            then guard (negb (zb val0))
                                            else ret
                                     | _ -> fail)
                                  | XH ->
                                    if isu a x0
                                    then (match s0.up with
                                          | UCp1Load ->
                                            seq
                                              (guard
                                                (eqb (zb val0) s0.pstate))
                                              (act AU)
                                          | UCp2Load ->
                                            seq
                                              (guard
                                                (eqb (zb val0) s0.pstate))
                                              (act AU)
                                          | _ -> fail)
                                    else ret)
                               | XH ->
                                 if (&&) (Z.eqb obj x0.meco)
                                      (negb (Z.eqb x0.meco Z0))
                                 then seq
                                        (match s0.up with
                                         | UIdle -> act (AExit false)
                                         | UDead -> ret
                                         | _ -> fail)
                                        (setax (fun x ->
                                          set_away false (set_uth Z0 x)))
                                 else ret)
                            | XO p3 ->
                              (match p3 with
                               | XI p4 ->
                                 (match p4 with
                                  | XI _ -> fail
                                  | XO p5 ->
                                    (match p5 with
                                     | XH ->
                                       if isu a x0
                                       then (match s0.up with
                                             | UIdle ->
                                               guard
                                                 (eqb (is1 val0)
                                                   (canceled s0))
                                             | UWkY1 ->
                                               seq
                                                 (guard
                                                   (eqb (is1 val0)
                                                     (canceled s0))) 
                                                 (act AU)
                                             | UYc ->
                                               seq
                                                 (guard
                                                   (eqb (is1 val0)
                                                     (canceled s0))) 
                                                 (act AU)
                                             | _ -> fail)
                                       else if isk a x0
                                            then (match s0.kp with
                                                  | KCchk ->
                                                    seq
                                                      (guard
                                                        (eqb (is1 val0)
                                                          (canceled s0)))
                                                      (act AK)
                                                  | _ -> fail)
                                            else ret
                                     | _ -> fail)
                                  | XH ->
                                    if tracked a x0
                                    then (match s0.un (n a) with
                                          | NTake _ ->
                                            seq
                                              (guard
                                                ((&&) (eqb (zb val0) s0.slot)
                                                  ((||) (negb (zb val0))
                                                    (Z.eqb obj x0.oslot))))
                                              (act (AUnTake (n a)))
                                          | _ -> fail)
                                    else ret)
                               | XO p4 ->
                                 (match p4 with
                                  | XI _ -> fail
                                  | XO p5 ->
                                    (match p5 with
                                     | XH ->
                                       if isk a x0
                                       then (match s0.kp with
                                             | KChk ->
                                               seq (act AK)
                                                 (withs (fun s _ ->
                                                   match s.kp with
                                                   | KSload ->
                                                     seq
                                                       (guard
                                                         (eqb (zb val0)
                                                           s.pstate)) 
                                                       (act AK)
                                                   | _ ->
                                                     setax (set_desync true)))
                                             | _ -> fail)
                                       else ret
                                     | _ -> fail)
                                  | XH ->
                                    tp_do obj (fun t -> tpstep t TpUnpark))
                               | XH -> seq (flush a) (sync_time val0))
                            | XH ->
                              if Z.eqb x0.meco Z0
                              then setax (fun x ->
                                     set_tlog val0
                                       (set_tpd (put x.tpd a (dur_of obj)) x))
                              else seq (guard (isu a x0))
                                     (seq (sync_time val0)
                                       (act (APark (dur_of obj)))))
                         | XH ->
                           if Z.eqb x0.meco Z0
                           then setax (set_tlog val0)
                           else seq (guard (isu a x0))
                                  (seq (sync_time val0)
                                    (seq
                                      (match s0.kp with
                                       | KIdle -> ret
                                       | _ ->
                                         if Z.eqb x0.oldkth Z0
                                         then setax (fun x ->
                                                set_oldkth x.kth x)
                                         else setax (set_desync true))
                                      (seq
                                        (act (ANewPark
                                          (Z.eqb code (Zpos (XI XH)))))
                                        (setax (fun x ->
                                          set_gen obj
                                            (set_kth Z0 (set_oslot Z0 x))))))))
                      | XH ->
                        seq
                          (setax (fun x ->
                            set_uth (if Z.eqb obj Z0 then Z0 else a)
                              (set_meco obj x))) (sync_time val0))
                   | _ -> fail)
                  (withs (fun s _ ->
                    match s.kp with
                    | KIdle -> setax (set_kth Z0)
                    | _ -> ret)))
            | _ :: _ -> fail))))

type ast = { ms : st; xs : aux }

(** val ainit : ast **)

let ainit =
  { ms = init; xs = aux0 }

(** val accept_ev : ast -> z list -> ast option **)

let accept_ev x e =
  if x.xs.desync
  then Some x
  else (match plan e { cs = x.ms; acts = []; ax = x.xs } with
        | Some p0 ->
          (match run true true true x.ms (rev p0.acts) with
           | Some s' -> Some { ms = s'; xs = p0.ax }
           | None -> None)
        | None -> None)

(** val monitors_ok : ast -> bool **)

let monitors_ok x =
  Nat.eqb (places x.ms) (match x.ms.up with
                         | UDead -> O
                         | _ -> S O)

(** val m_init : ast **)

let m_init =
  ainit

(** val m_accept : ast -> z list -> ast option **)

let m_accept =
  accept_ev

(** val m_final : ast -> bool **)

let m_final =
  monitors_ok
