
val negb : bool -> bool

type nat =
| O
| S of nat

val snd : ('a1 * 'a2) -> 'a2

val length : 'a1 list -> nat

val app : 'a1 list -> 'a1 list -> 'a1 list

type comparison =
| Eq
| Lt
| Gt

val compOpp : comparison -> comparison

val pred : nat -> nat

val add : nat -> nat -> nat

val mul : nat -> nat -> nat

val sub : nat -> nat -> nat

val eqb : bool -> bool -> bool

module Nat :
 sig
  val eqb : nat -> nat -> bool

  val leb : nat -> nat -> bool

  val ltb : nat -> nat -> bool

  val even : nat -> bool
 end

val flat_map : ('a1 -> 'a2 list) -> 'a1 list -> 'a2 list

val existsb : ('a1 -> bool) -> 'a1 list -> bool

val forallb : ('a1 -> bool) -> 'a1 list -> bool

val filter : ('a1 -> bool) -> 'a1 list -> 'a1 list

val find : ('a1 -> bool) -> 'a1 list -> 'a1 option

val firstn : nat -> 'a1 list -> 'a1 list

val skipn : nat -> 'a1 list -> 'a1 list

val seq : nat -> nat -> nat list

type positive =
| XI of positive
| XO of positive
| XH

type z =
| Z0
| Zpos of positive
| Zneg of positive

module Pos :
 sig
  val succ : positive -> positive

  val add : positive -> positive -> positive

  val add_carry : positive -> positive -> positive

  val pred_double : positive -> positive

  val mul : positive -> positive -> positive

  val compare_cont : comparison -> positive -> positive -> comparison

  val compare : positive -> positive -> comparison

  val eqb : positive -> positive -> bool

  val iter_op : ('a1 -> 'a1 -> 'a1) -> positive -> 'a1 -> 'a1

  val to_nat : positive -> nat

  val of_succ_nat : nat -> positive
 end

module Z :
 sig
  val double : z -> z

  val succ_double : z -> z

  val pred_double : z -> z

  val pos_sub : positive -> positive -> z

  val add : z -> z -> z

  val opp : z -> z

  val sub : z -> z -> z

  val mul : z -> z -> z

  val compare : z -> z -> comparison

  val leb : z -> z -> bool

  val ltb : z -> z -> bool

  val eqb : z -> z -> bool

  val to_nat : z -> nat

  val of_nat : nat -> z

  val pos_div_eucl : positive -> z -> z * z

  val div_eucl : z -> z -> z * z

  val div : z -> z -> z

  val modulo : z -> z -> z
 end

type kind =
| Rd
| Wr
| Ac
| Co

type pc =
| Idle
| PReset
| PTry
| PYield
| Susp
| RBack
| RClr
| LRes
| LClr
| LSys
| LChk
| Dead

type spc =
| SArm
| SStore
| SChk
| SFast
| SFastT of nat
| SSetIo
| SCan
| SCan2
| SCan3 of nat
| SCan4 of nat * nat
| SDone

type selst =
| SIdle
| SEv of nat
| SEvT of nat * nat
| THnd of nat * nat
| THnd2 of nat * nat

type cnst =
| CnIdle
| Cn1
| Cn2 of nat
| Cn3 of nat * nat

type tst =
| TFree
| TArmed
| TGone

type home =
| HNone
| HSub of nat
| HSlot of nat
| HSel of nat
| HFast of nat
| HCan of nat
| HKCan of nat
| HAwake

type res =
| ROk of nat list
| RWrote of nat
| REof
| RPipe
| RTimedOut
| RCanceled
| RAcc of nat
| RConn
| RErr of nat

type cstate =
| CNone
| CProg
| CEst
| CRef of nat
| CConn

type actor = { apc : pc; afd : nat; akind : kind; acn : bool;
               ato : nat option; adat : nat list; an : nat; apara : bool;
               acanc : bool; acio : nat option; aawake : bool; atcall : 
               nat; ahome : home; alast : res option }

type sub0 = { spc_ : spc; sa : nat; sfd : nat; sto : nat option; scn : bool }

type tent = { tstate : tst; tdl : nat; tev : nat option; tmin : nat }

type pipe = { buf : nat list; wshut : bool; sent : nat list; rcvd : nat list;
              eof : bool }

type ksock = { kq : nat list; kst : cstate; ktgt : nat; kdeliv : bool;
               kest : nat list; kacc : nat list }

type st = { now : nat; p : (nat -> pipe); pend : (nat -> bool);
            flag : (nat -> bool); co : (nat -> nat option);
            tmr : (nat -> nat option); busy : (nat -> nat option);
            closed : (nat -> bool); a : (nat -> actor); sb : (nat -> sub0);
            nexts : nat; t : (nat -> tent); nextt : nat;
            sel : (nat -> selst); cn : (nat -> cnst); kn : (nat -> ksock) }

val upd : (nat -> 'a1) -> nat -> 'a1 -> nat -> 'a1

type action =
| Start of nat * nat * kind * bool * nat option * nat list * nat
| Step of nat * nat
| Resume of nat
| Sub of nat * bool
| SelEvent of nat * nat
| SelTake of nat
| SelDisarm of nat * bool
| SelFire of nat * nat
| SelMark of nat
| SelHnd of nat
| CancelSet of nat
| CancelIo of nat
| CancelTake of nat
| CancelNull of nat
| Tick of nat
| Shutdown of nat
| Spurious of nat
| Close of nat
| Establish of nat
| Refuse of nat * nat
| Deliver of nat

val mkA :
  pc -> nat -> kind -> bool -> nat option -> nat list -> nat -> bool -> bool
  -> nat option -> bool -> nat -> home -> res option -> actor

val a_pc : actor -> pc -> actor

val a_ret : actor -> res -> actor

val a_dead : actor -> actor

val a_susp : actor -> nat -> actor

val a_home : actor -> home -> actor

val a_wake : actor -> actor

val a_wake_to : actor -> actor

val a_resume : actor -> actor

val a_canc : actor -> actor

val a_cio : actor -> nat option -> actor

val a_cio_pc : actor -> nat option -> pc -> actor

val s_pc : sub0 -> spc -> sub0

val t_null : tent -> bool -> tent

val k_st : ksock -> cstate -> ksock

val k_start : ksock -> cstate -> nat -> bool -> ksock

val k_deliv : ksock -> ksock

val k_push : ksock -> nat -> ksock

val k_pop : ksock -> nat -> nat list -> ksock

val t_pop : tent -> tent

val mk :
  nat -> (nat -> pipe) -> (nat -> bool) -> (nat -> bool) -> (nat -> nat
  option) -> (nat -> nat option) -> (nat -> nat option) -> (nat -> bool) ->
  (nat -> actor) -> (nat -> sub0) -> nat -> (nat -> tent) -> nat -> (nat ->
  selst) -> (nat -> cnst) -> (nat -> ksock) -> st

val wnow : st -> nat -> st

val wP : st -> (nat -> pipe) -> st

val wpend : st -> (nat -> bool) -> st

val wflag : st -> (nat -> bool) -> st

val wco : st -> (nat -> nat option) -> st

val wtmr : st -> (nat -> nat option) -> st

val wbusy : st -> (nat -> nat option) -> st

val wclosed : st -> (nat -> bool) -> st

val wA : st -> (nat -> actor) -> st

val wS : st -> (nat -> sub0) -> st

val wnexts : st -> nat -> st

val wT : st -> (nat -> tent) -> st

val wnextt : st -> nat -> st

val wSel : st -> (nat -> selst) -> st

val wCn : st -> (nat -> cnst) -> st

val wKn : st -> (nat -> ksock) -> st

val idle_actor : actor

val init : st

val pipe_of : (nat -> nat) -> kind -> nat -> nat

val enqueue : (nat -> ksock) -> nat -> nat -> nat -> ksock

val q_edge : (nat -> ksock) -> nat -> nat option

type sysres =
| SysDone of res * pipe * nat option
| SysAgain
| SysBad
| SysK of res * (nat -> ksock) * nat option
| SysAgainK of (nat -> ksock)

val syscall : nat -> (nat -> nat) -> st -> actor -> nat -> sysres

val set_pend : st -> nat option -> st

val finish : st -> nat -> res -> st

val die : st -> nat -> st

val disarm : st -> nat -> bool -> st

val wake : st -> nat -> st

val is_done : spc -> bool

val not_thnd : selst -> nat -> bool

val calm_ok : (nat -> nat) -> bool -> st -> nat -> nat -> bool

val wake_to : st -> nat -> st

val step :
  nat -> (nat -> nat) -> (nat -> nat) -> bool -> bool -> bool -> st -> action
  -> st option

val peerv : nat -> nat

val selv : nat -> nat

type tmode =
| MNone
| MRun of nat
| MKer of nat
| MKerX
| MProxy of nat
| MProxyP
| MRunP of nat

type aux = { tm : (nat -> tmode); cmap : (z * nat) list; nco : nat;
             oflag : (z * nat) list; oco : (z * nat) list; preflag : 
             z list; selthr : (nat -> nat option);
             selcur : (nat -> nat option); selpre : (nat -> z option);
             fds : nat list; dgr : (nat -> bool); amap : (nat -> nat option);
             cpend : (nat -> nat option); ctgt : (nat -> nat option);
             precan : nat list; cnull : (nat -> nat option); seen : nat list;
             dang : nat list; tsent : nat list; prox : nat list }

type ast = { ms : st; ax : aux; acap : nat; fresh : bool }

val aux0 : aux

val capv : nat

val ainit : ast

val set_tm : aux -> (nat -> tmode) -> aux

val set_cmap : aux -> (z * nat) list -> nat -> aux

val set_oflag : aux -> (z * nat) list -> z list -> aux

val set_oco : aux -> (z * nat) list -> aux

val set_sel :
  aux -> (nat -> nat option) -> (nat -> nat option) -> (nat -> z option) ->
  aux

val set_fds : aux -> nat list -> (nat -> bool) -> nat list -> aux

val set_cnull : aux -> (nat -> nat option) -> aux

val set_dang : aux -> nat list -> aux

val set_thr : aux -> nat list -> nat list -> aux

val set_can :
  aux -> (nat -> nat option) -> (nat -> nat option) -> (nat -> nat option) ->
  nat list -> aux

val pcn : pc -> nat

val pc_eqb : pc -> pc -> bool

val outside : pc -> bool

val znz : z -> bool

val is_some : 'a1 option -> bool

val kind_eqb : kind -> kind -> bool

val zassoc : (z * nat) list -> z -> nat option

val zmem : z list -> z -> bool

val nmem : nat list -> nat -> bool

val list_eqb : nat list -> nat list -> bool

val res_ok : res option -> nat list -> bool

val bindo :
  (nat -> bool) -> (z * nat) list -> z -> nat -> (z * nat) list option

val unbound : (nat -> bool) -> (z * nat) list -> z -> bool

val bindthr : (nat -> nat option) -> nat -> nat -> (nat -> nat option) option

type plan = ((action list * (st -> bool)) * aux) option

val ok : aux -> plan

val acts : aux -> action list -> plan

val actsp : aux -> action list -> (st -> bool) -> plan

val obs : aux -> bool -> plan

val chk : bool -> plan -> plan

val cur : aux -> nat -> nat

val flush : st -> aux -> nat -> action list

val flush_for : st -> nat -> action list

val pick_timer : st -> nat -> nat -> nat option -> nat option

val undang : st -> aux -> nat -> action list

val undang_x : st -> aux -> nat -> aux

val deliver : st -> nat -> action list

val eINPROGRESS_ : z

val eALREADY_ : z

val eISCONN_ : z

val eAGAIN_ : z

val is_err : z -> bool

val mstep : bool -> nat -> st -> action -> st option

val mkplan : bool -> ast -> z list -> plan

val exec : bool -> nat -> st -> action list -> st option

val is_cap : z list -> nat option

val accept_ev : bool -> ast -> z list -> ast option

val final_ok : ast -> bool

val accept_ev_calm : ast -> z list -> ast option

val m_init : ast

val m_accept : ast -> z list -> ast option

val m_final : ast -> bool
