
val negb : bool -> bool

type nat =
| O
| S of nat

val app : 'a1 list -> 'a1 list -> 'a1 list

type comparison =
| Eq
| Lt
| Gt

val compOpp : comparison -> comparison

val add : nat -> nat -> nat

val eqb : bool -> bool -> bool

module Nat :
 sig
  val eqb : nat -> nat -> bool
 end

val rev : 'a1 list -> 'a1 list

type positive =
| XI of positive
| XO of positive
| XH

type z =
| Z0
| Zpos of positive
| Zneg of positive

module Pos :
 sig
  val succ : positive -> positive

  val add : positive -> positive -> positive

  val add_carry : positive -> positive -> positive

  val pred_double : positive -> positive

  val mul : positive -> positive -> positive

  val iter : ('a1 -> 'a1) -> 'a1 -> positive -> 'a1

  val compare_cont : comparison -> positive -> positive -> comparison

  val compare : positive -> positive -> comparison

  val eqb : positive -> positive -> bool

  val iter_op : ('a1 -> 'a1 -> 'a1) -> positive -> 'a1 -> 'a1

  val to_nat : positive -> nat
 end

module Z :
 sig
  val double : z -> z

  val succ_double : z -> z

  val pred_double : z -> z

  val pos_sub : positive -> positive -> z

  val add : z -> z -> z

  val opp : z -> z

  val sub : z -> z -> z

  val mul : z -> z -> z

  val pow_pos : z -> positive -> z

  val pow : z -> z -> z

  val compare : z -> z -> comparison

  val leb : z -> z -> bool

  val ltb : z -> z -> bool

  val eqb : z -> z -> bool

  val min : z -> z -> z

  val to_nat : z -> nat

  val pos_div_eucl : positive -> z -> z * z

  val div_eucl : z -> z -> z * z

  val div : z -> z -> z
 end

val mS : z

val w : z

val cAP : z

val ceil_ms : z -> z

val enc : z option -> z

val dec : z -> z option

type verdict =
| VOk
| VTimeout
| VCanceled

type cslot =
| CNone
| CThis
| CStale

type perr =
| PTimeout
| PCanceled

type upc =
| UIdle
| UCp1Load
| UCp1Store
| UCp1Swap
| UWk
| UWkD
| UWkY1
| UWkY2
| UWkQ
| UWkY3
| UWkE
| UTo
| UYc
| UYield
| USusp
| UYb
| UCc
| UCp2Load
| UCp2Store
| UCp2Swap
| URm
| UPara
| UAway
| UDead

type kpc =
| KIdle
| KDur
| KNow
| KArm
| KHandle
| KGon
| KReg
| KStore
| KChk
| KStake
| KSgoff of bool
| KSrun
| KSload
| KFtake
| KFgoff of bool
| KFrun
| KNest
| KSetco
| KCchk
| KC1
| KC2
| KC3s
| KC3
| KC4
| KGoff

type npc =
| NIdle
| NTake of bool
| NHold

type cpc =
| CIdle
| CTakeCo
| CTake
| CTakeS
| CHold

type tmst =
| TmNone
| TmArmed
| TmCanc
| TmFired
| TmHold
| TmDone

type hold =
| HNone
| HUn of nat
| HCn of nat
| HTm of nat

type wake =
| WNone
| WUn of bool
| WTm of bool
| WCn
| WSelfTok
| WSelfTmo

type st = { pstate : bool; slot : bool; wk : bool; tmo : z; hnd : nat option;
            ccheck : bool; cbit : bool; cdis : bool; cco : cslot;
            para : perr option; running : bool; rq : nat; up : upc;
            ud : z option; kp : kpc; kdur : z option; kdl : z option;
            un : (nat -> npc); cn : (nat -> cpc); tm : (nat -> tmst);
            tdl : (nat -> z); ntm : nat; now : z; nested : bool;
            dropping : bool; oldk : nat; holder : hold; tcall : z;
            tok0 : bool; ctok : bool; wsrc : wake; nclr : nat;
            lastv : verdict option; tainted : bool; susp : bool; ncall : 
            nat }

val set_pstate : bool -> st -> st

val set_slot : bool -> st -> st

val set_wk : bool -> st -> st

val set_tmo : z -> st -> st

val set_hnd : nat option -> st -> st

val set_ccheck : bool -> st -> st

val set_cbit : bool -> st -> st

val set_cdis : bool -> st -> st

val set_cco : cslot -> st -> st

val set_para : perr option -> st -> st

val set_running : bool -> st -> st

val set_rq : nat -> st -> st

val set_up : upc -> st -> st

val set_ud : z option -> st -> st

val set_kp : kpc -> st -> st

val set_kdur : z option -> st -> st

val set_kdl : z option -> st -> st

val set_un : (nat -> npc) -> st -> st

val set_cn : (nat -> cpc) -> st -> st

val set_tm : (nat -> tmst) -> st -> st

val set_tdl : (nat -> z) -> st -> st

val set_ntm : nat -> st -> st

val set_now : z -> st -> st

val set_nested : bool -> st -> st

val set_dropping : bool -> st -> st

val set_oldk : nat -> st -> st

val set_holder : hold -> st -> st

val set_tcall : z -> st -> st

val set_tok0 : bool -> st -> st

val set_ctok : bool -> st -> st

val set_wsrc : wake -> st -> st

val set_nclr : nat -> st -> st

val set_lastv : verdict option -> st -> st

val set_tainted : bool -> st -> st

val set_susp : bool -> st -> st

val set_ncall : nat -> st -> st

val upd : (nat -> 'a1) -> nat -> 'a1 -> nat -> 'a1

val init : st

type action =
| APark of z option
| AU
| AAway
| AExit of bool
| ANewPark of bool
| AK
| AUnSwap of nat
| AUnTake of nat
| AUnSched of nat
| AUnRun of nat
| ACnOr of nat
| ACnTakeCo of nat
| ACnTake of nat
| ACnSched of nat
| ATFire of nat
| ATDrop of nat
| ATTake of nat
| ATRun of nat
| ATick of z
| AResume
| AStaleSetco
| AOldKDone
| ADrop

val verdict_of : perr option -> verdict

val mark_stale : (nat -> npc) -> nat -> npc

val clear_tok : st -> st

val die : st -> st

val canceled : st -> bool

val optnat_eqb : nat option -> nat option -> bool

val after_stake : bool -> bool -> kpc

val after_ftake : bool -> bool -> kpc

val after_run : bool -> kpc

val setco_ahead : bool -> kpc -> bool

val ustep : st -> st option

val kstep : bool -> bool -> bool -> st -> st option

val step : bool -> bool -> bool -> st -> action -> st option

val run : bool -> bool -> bool -> st -> action list -> st option

val kholds : kpc -> bool

val b2n : bool -> nat

val held : hold -> bool

val places : st -> nat

type tpst = { ttok : bool; twait : z option option; tnow : z }

val tpinit : tpst

type tpact =
| TpUnpark
| TpEnter of z option
| TpLeave of bool
| TpTick of z

val tpstep : tpst -> tpact -> tpst option

val mstep : st -> action -> st option

type aux = { meco : z; uth : z; kth : z; oldkth : z; gen : z;
             tgts : (z * z) list; oslot : z; tlog : z; away : bool;
             tps : (z * tpst) list; tpd : (z * z option) list; desync : 
             bool }

val aux0 : aux

val set_meco : z -> aux -> aux

val set_uth : z -> aux -> aux

val set_kth : z -> aux -> aux

val set_oldkth : z -> aux -> aux

val set_gen : z -> aux -> aux

val set_tgts : (z * z) list -> aux -> aux

val set_oslot : z -> aux -> aux

val set_tlog : z -> aux -> aux

val set_away : bool -> aux -> aux

val set_tps : (z * tpst) list -> aux -> aux

val set_tpd : (z * z option) list -> aux -> aux

val set_desync : bool -> aux -> aux

val lookup : (z * 'a1) list -> z -> 'a1 option

val put : (z * 'a1) list -> z -> 'a1 -> (z * 'a1) list

type pst = { cs : st; acts : action list; ax : aux }

type p = pst -> pst option

val ret : p

val fail : p

val seq : p -> p -> p

val act : action -> p

val guard : bool -> p

val withs : (st -> aux -> p) -> p

val setax : (aux -> aux) -> p

val n : z -> nat

val zb : z -> bool

val is1 : z -> bool

val tick_to : z -> p

val sync_time : z -> p

val flush : z -> p

val flush_holder : p

val lazyk : p

val isu : z -> aux -> bool

val isk : z -> aux -> bool

val isoldk : z -> aux -> bool

val tracked : z -> aux -> bool

val cco_some : cslot -> bool

val hnd_some : nat option -> bool

val min_entry : (nat -> tmst) -> (nat -> z) -> nat -> (nat * z) option

val verdict_code : verdict option -> z

val dur_of : z -> z option

val tp_get : aux -> z -> tpst

val tp_do : z -> (tpst -> tpst option) -> p

val tp_tick_to : tpst -> z -> tpst option

val tp_seq :
  (tpst -> tpst option) -> (tpst -> tpst option) -> tpst -> tpst option

val plan : z list -> p

type ast = { ms : st; xs : aux }

val ainit : ast

val accept_ev : ast -> z list -> ast option

val monitors_ok : ast -> bool

val m_init : ast

val m_accept : ast -> z list -> ast option

val m_final : ast -> bool
