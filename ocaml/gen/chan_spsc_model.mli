
val negb : bool -> bool

type nat =
| O
| S of nat

val fst : ('a1 * 'a2) -> 'a1

val app : 'a1 list -> 'a1 list -> 'a1 list

val add : nat -> nat -> nat

val eqb : bool -> bool -> bool

module Nat :
 sig
  val eqb : nat -> nat -> bool
 end

type positive =
| XI of positive
| XO of positive
| XH

type z =
| Z0
| Zpos of positive
| Zneg of positive

module Pos :
 sig
  val succ : positive -> positive

  val eqb : positive -> positive -> bool

  val iter_op : ('a1 -> 'a1 -> 'a1) -> positive -> 'a1 -> 'a1

  val to_nat : positive -> nat

  val of_succ_nat : nat -> positive
 end

module Z :
 sig
  val eqb : z -> z -> bool

  val to_nat : z -> nat

  val of_nat : nat -> z
 end

type wk =
| WT
| WC

type rpc =
| RIdle
| RPop1
| RChk
| RPop2
| RStore
| RClear
| RPark
| KStore
| KEmpty
| KChans
| KTake
| KRun
| RSusp
| RPd0
| RPd1

type tctx =
| CTry
| CFirst
| CReg
| CFin

type api =
| ATry
| ARecv
| ADrop

type res =
| RNone
| ROk of nat
| REmpty
| RDisc
| RCancel

type spc =
| SIdle
| SChk
| SPush
| STake
| SUnpark
| SDrop

type rcvr = { rp : rpc; rc : tctx; rapi : api; rco : bool; rres : res;
              rdata : res; ralive : bool; rdead : bool }

type sndr = { sp : spc; sw : wk; salive : bool; sres : bool; sdead : 
              bool; sn : nat }

type st = { q : nat list; slot : wk option; chans : nat; pdrop : bool;
            ttok : bool; runq : bool; r : rcvr; sn0 : sndr; sent : nat list;
            rcvd : nat list; drpd : nat list; freed : bool }

val mk :
  nat list -> wk option -> nat -> bool -> bool -> bool -> rcvr -> sndr -> nat
  list -> nat list -> nat list -> bool -> st

val r_set : rcvr -> rpc -> tctx -> rcvr

val r_ret : rcvr -> res -> rcvr

val r_data : rcvr -> res -> rcvr

val r_empty : rcvr -> rcvr

val r_start : rcvr -> api -> bool -> rpc -> tctx -> bool -> rcvr

val r_gone : rcvr -> rcvr

val s_pc : sndr -> spc -> sndr

val s_call : sndr -> spc -> bool -> sndr

val s_res : sndr -> spc -> bool -> sndr

val s_pushed : sndr -> sndr

val s_took : sndr -> wk -> sndr

val s_dead : sndr -> sndr

type action =
| TryRecv
| Recv of bool
| DropPort
| RStep
| Worker
| Spur
| RCan
| Send
| DropChan
| SStep
| Free

val is_idle : rcvr -> bool

val s_ready : sndr -> bool

val is0 : nat -> bool

val step : bool -> st -> action -> st option

val rcv0 : rcvr

val snd0 : sndr

val init : st

type aux = { started : bool; ract : nat; sact : nat; qt : z; qh : z }

val aux0 : aux

type ast = st * aux

val a_init : ast

val set_ract : aux -> nat -> aux

val set_sact : aux -> nat -> aux

val set_qt : aux -> z -> aux

val set_qh : aux -> z -> aux

val rpc_eqb : rpc -> rpc -> bool

val spc_eqb : spc -> spc -> bool

val zb : z -> bool

val isnone : 'a1 option -> bool

val isnil : 'a1 list -> bool

val res_is : res -> z -> z -> bool

type plan = { acts : action list; post : (st -> bool); nxt : (st -> aux) }

val steps : st -> action list -> st option

val guard : bool -> plan option -> plan option

val ok : action list -> aux -> plan option

val skip : aux -> plan option

val at_r : st -> rpc -> bool

val at_s : st -> spc -> bool

val is_r : aux -> nat -> bool

val is_s : aux -> nat -> bool

val wake : st -> action list

val cancel_acts : st -> action list option

val in_pop : st -> bool

val qnil_after_wake : st -> bool

val take_acts : st -> action list

val plan_ev : st -> aux -> z list -> plan option

val accept_ev : ast -> z list -> ast option

val nats_eqb : nat list -> nat list -> bool

val monitors_ok : ast -> bool

val m_init : ast

val m_accept : ast -> z list -> ast option

val m_final : ast -> bool
