
val negb : bool -> bool

type nat =
| O
| S of nat

val fst : ('a1 * 'a2) -> 'a1

val snd : ('a1 * 'a2) -> 'a2

val app : 'a1 list -> 'a1 list -> 'a1 list

type comparison =
| Eq
| Lt
| Gt

val compOpp : comparison -> comparison

val add : nat -> nat -> nat

val sub : nat -> nat -> nat

val eqb : bool -> bool -> bool

module Nat :
 sig
  val sub : nat -> nat -> nat

  val eqb : nat -> nat -> bool

  val leb : nat -> nat -> bool

  val ltb : nat -> nat -> bool

  val divmod : nat -> nat -> nat -> nat -> nat * nat

  val div : nat -> nat -> nat

  val modulo : nat -> nat -> nat
 end

val forallb : ('a1 -> bool) -> 'a1 list -> bool

val seq : nat -> nat -> nat list

type positive =
| XI of positive
| XO of positive
| XH

type z =
| Z0
| Zpos of positive
| Zneg of positive

module Pos :
 sig
  val succ : positive -> positive

  val add : positive -> positive -> positive

  val add_carry : positive -> positive -> positive

  val pred_double : positive -> positive

  val mul : positive -> positive -> positive

  val compare_cont : comparison -> positive -> positive -> comparison

  val compare : positive -> positive -> comparison

  val eqb : positive -> positive -> bool

  val iter_op : ('a1 -> 'a1 -> 'a1) -> positive -> 'a1 -> 'a1

  val to_nat : positive -> nat

  val of_succ_nat : nat -> positive
 end

module Z :
 sig
  val double : z -> z

  val succ_double : z -> z

  val pred_double : z -> z

  val pos_sub : positive -> positive -> z

  val add : z -> z -> z

  val opp : z -> z

  val sub : z -> z -> z

  val mul : z -> z -> z

  val compare : z -> z -> comparison

  val leb : z -> z -> bool

  val ltb : z -> z -> bool

  val eqb : z -> z -> bool

  val to_nat : z -> nat

  val of_nat : nat -> z

  val pos_div_eucl : positive -> z -> z * z

  val div_eucl : z -> z -> z * z

  val div : z -> z -> z

  val modulo : z -> z -> z
 end

type qent =
| ENormal of nat
| EDone of nat

type apc =
| ANone
| ATop
| AS0
| AS1
| ASusp
| ABot
| AD0
| AD1
| AD2
| AD3
| AD4
| AF1
| ADone

type kpcT =
| KNone
| K0
| K1
| K2
| K3
| K4
| KDone

type aresult =
| RRun
| ROk
| RPanic of nat
| RCancel

type unw =
| UNone
| UPanic of nat
| UCancel

type opcT =
| ONone
| OBody
| OA2
| OA3
| P1
| P2
| P2b
| P3
| P4
| P4t
| P5
| P5w
| P6
| PRun
| Cpre
| C0
| CJ
| C1
| C2
| C3
| OUnw
| FC0
| FC1
| FD0
| FE0
| FE1
| OExit
| OBug

type lastret =
| LNone
| LOk of nat
| LTimeout
| LFinished
| LRaised

type cfg = { c_cntfirst : bool; c_joinalways : bool; c_kwait : bool;
             c_sendraise : bool }

val current : cfg

type st = { evq : qent list; cnt : z; towake : nat option;
            sel : (nat -> bool); total : nat; ispan : bool;
            pc : (nat -> apc); cbit : (nat -> bool); inl : (nat -> bool);
            kern : (nat -> nat); ares : (nat -> aresult);
            jst : (nat -> bool); aw : (nat -> nat); acur : (nat -> nat);
            kpc : (nat -> kpcT); earm : (nat -> nat); kw : (nat -> nat);
            tok : (nat -> bool); nextb : nat; opc : opcT; oco : bool;
            ocbit : bool; odis : nat; ounw : unw; ofin : nat; opay : 
            unw; oto : z option; odl : z option; opdl : z option; ocall : 
            z; oalld : bool; ob : nat; ocur : nat; oev : nat;
            ojres : aresult; fi : nat; ostash : qent; owk : bool; now : 
            z; nexta : nat; nexte : nat; tops : (nat -> nat);
            bots : (nat -> nat); botd : (nat -> nat); sent : (nat -> nat);
            byield : (nat -> bool); epush : (nat -> nat);
            epop : (nat -> nat); ernd : (nat -> nat); dpush : (nat -> nat);
            dpop : (nat -> nat); olast : lastret; rer : nat;
            rerp : nat option; oleft : bool }

val set_evq : st -> qent list -> st

val set_cnt : st -> z -> st

val set_towake : st -> nat option -> st

val set_sel : st -> (nat -> bool) -> st

val set_total : st -> nat -> st

val set_ispan : st -> bool -> st

val set_pc : st -> (nat -> apc) -> st

val set_cbit : st -> (nat -> bool) -> st

val set_inl : st -> (nat -> bool) -> st

val set_kern : st -> (nat -> nat) -> st

val set_ares : st -> (nat -> aresult) -> st

val set_jst : st -> (nat -> bool) -> st

val set_aw : st -> (nat -> nat) -> st

val set_acur : st -> (nat -> nat) -> st

val set_kpc : st -> (nat -> kpcT) -> st

val set_earm : st -> (nat -> nat) -> st

val set_kw : st -> (nat -> nat) -> st

val set_tok : st -> (nat -> bool) -> st

val set_nextb : st -> nat -> st

val set_opc : st -> opcT -> st

val set_oco : st -> bool -> st

val set_ocbit : st -> bool -> st

val set_odis : st -> nat -> st

val set_ounw : st -> unw -> st

val set_ofin : st -> nat -> st

val set_opay : st -> unw -> st

val set_oto : st -> z option -> st

val set_odl : st -> z option -> st

val set_opdl : st -> z option -> st

val set_ocall : st -> z -> st

val set_oalld : st -> bool -> st

val set_ob : st -> nat -> st

val set_ocur : st -> nat -> st

val set_oev : st -> nat -> st

val set_ojres : st -> aresult -> st

val set_fi : st -> nat -> st

val set_ostash : st -> qent -> st

val set_owk : st -> bool -> st

val set_now : st -> z -> st

val set_nexta : st -> nat -> st

val set_nexte : st -> nat -> st

val set_tops : st -> (nat -> nat) -> st

val set_bots : st -> (nat -> nat) -> st

val set_botd : st -> (nat -> nat) -> st

val set_sent : st -> (nat -> nat) -> st

val set_byield : st -> (nat -> bool) -> st

val set_epush : st -> (nat -> nat) -> st

val set_epop : st -> (nat -> nat) -> st

val set_ernd : st -> (nat -> nat) -> st

val set_dpush : st -> (nat -> nat) -> st

val set_dpop : st -> (nat -> nat) -> st

val set_olast : st -> lastret -> st

val set_rer : st -> nat -> st

val set_rerp : st -> nat option -> st

val set_oleft : st -> bool -> st

val upd : (nat -> 'a1) -> nat -> 'a1 -> nat -> 'a1

type action =
| Start of bool
| OAdd
| OPoll of z option
| ORemove of nat
| OClose
| OPanicA of nat
| OCancelled
| OCatch
| OStep
| CancelOwner
| Tick of z
| ASend of nat
| ANext of nat
| AFinish of nat
| APanic of nat * nat
| ACancelled of nat
| AYield of nat
| AStep of nat
| KStep of nat

val is_onone : opcT -> bool

val is_p5w : opcT -> bool

val cancel_due : st -> bool

val zle_opt : z option -> z -> bool

val zadd_opt : z -> z option -> z option

val to_ok : z option -> bool

val first_unw : unw -> unw -> unw

val user_pc : apc -> bool

val is_abot : apc -> bool

val is_asusp : apc -> bool

val wpc : st -> nat -> apc -> st

val wkpc : st -> nat -> kpcT -> st

val raise_poll : st -> unw -> st

val ret_ok : st -> st

val ret_finished : st -> st

val ret_timeout : st -> st

val take_handle : st -> nat -> st

val handle_ev : cfg -> st -> qent -> st

val start_drain : st -> st

val arm_end : st -> nat -> aresult -> st

val ostep : cfg -> st -> st option

val astep : cfg -> st -> nat -> st option

val kstep : st -> nat -> st option

val step : cfg -> st -> action -> st option

val init : st

type aux = { owner : nat; amap : (nat -> nat); cmap : (z * nat) list;
             kmap : (nat -> nat); ctgt : (nat -> nat); ph : nat; nest : 
             nat; selmode : bool; pcan : bool; qt : z; qh : z;
             opk : (nat -> z) }

type ast = st * aux

val aux0 : aux

val m_init : ast

val set_owner : aux -> nat -> aux

val set_amap : aux -> (nat -> nat) -> aux

val set_cmap : aux -> (z * nat) list -> aux

val set_kmap : aux -> (nat -> nat) -> aux

val set_ctgt : aux -> (nat -> nat) -> aux

val set_ph : aux -> nat -> aux

val set_nest : aux -> nat -> aux

val set_selmode : aux -> bool -> aux

val set_pcan : aux -> bool -> aux

val set_qt : aux -> z -> aux

val set_qh : aux -> z -> aux

val set_opk : aux -> (nat -> z) -> aux

val zb : z -> bool

val bz : bool -> z

val opc_n : opcT -> nat

val apc_n : apc -> nat

val kpc_n : kpcT -> nat

val at_o : st -> opcT -> bool

val at_a : st -> nat -> apc -> bool

val at_k : st -> nat -> kpcT -> bool

val bind_z : z -> z -> z option

val bind_obj : (nat -> z) -> nat -> z -> (nat -> z) option

val lookup : (z * nat) list -> z -> nat option

val w64 : z

val wz : z -> z

val oword : st -> nat -> z

val steps : st -> action list -> st option

val osilent : st -> bool

val norm : st -> nat -> action list

type plan = { acts : action list; nxt : aux }

val skip : aux -> plan option

val go : action list -> aux -> plan option

val own :
  st -> (st -> bool) -> (st -> action list) -> (st -> st -> aux option) ->
  plan option

val keep : aux -> st -> st -> aux option

val ost : st -> action list

val none_acts : st -> action list

val arm_of : aux -> nat -> nat option

val is_owner : aux -> nat -> bool

val find_k : st -> nat -> kpcT -> nat -> nat option

val user_a : st -> nat -> bool

val res_ok : aresult -> bool

val res_panic : aresult -> bool

val tick_to : st -> z -> action list

val last_ok : st -> nat -> nat -> bool

val last_is : st -> lastret -> bool

val sel_close : st -> aux -> action list

val pre_close : st -> aux -> action list

val ownc :
  (st -> aux -> action list) -> st -> aux -> (st -> bool) -> (st -> action
  list) -> (st -> st -> aux option) -> plan option

val plan_ev : st -> aux -> z list -> plan option

val accept_ev : ast -> z list -> ast option

val monitors_ok : ast -> bool

val m_init0 : ast

val m_accept : ast -> z list -> ast option

val m_final : ast -> bool
