
(** val negb : bool -> bool **)

let negb = function
| true -> false
| false -> true

type nat =
| O
| S of nat

(** val fst : ('a1 * 'a2) -> 'a1 **)

let fst = function
| (x, _) -> x

(** val app : 'a1 list -> 'a1 list -> 'a1 list **)

let rec app l m =
  match l with
  | [] -> m
  | a :: l1 -> a :: (app l1 m)

(** val add : nat -> nat -> nat **)

let rec add n m =
  match n with
  | O -> m
  | S p -> S (add p m)

(** val eqb : bool -> bool -> bool **)

let eqb b1 b2 =
  if b1 then b2 else if b2 then false else true

module Nat =
 struct
  (** val eqb : nat -> nat -> bool **)

  let rec eqb n m =
    match n with
    | O -> (match m with
            | O -> true
            | S _ -> false)
    | S n' -> (match m with
               | O -> false
               | S m' -> eqb n' m')
 end

type positive =
| XI of positive
| XO of positive
| XH

type z =
| Z0
| Zpos of positive
| Zneg of positive

module Pos =
 struct
  (** val succ : positive -> positive **)

  let rec succ = function
  | XI p -> XO (succ p)
  | XO p -> XI p
  | XH -> XO XH

  (** val eqb : positive -> positive -> bool **)

  let rec eqb p q0 =
    match p with
    | XI p0 -> (match q0 with
                | XI q1 -> eqb p0 q1
                | _ -> false)
    | XO p0 -> (match q0 with
                | XO q1 -> eqb p0 q1
                | _ -> false)
    | XH -> (match q0 with
             | XH -> true
             | _ -> false)

  (** val iter_op : ('a1 -> 'a1 -> 'a1) -> positive -> 'a1 -> 'a1 **)

  let rec iter_op op p a =
    match p with
    | XI p0 -> op a (iter_op op p0 (op a a))
    | XO p0 -> iter_op op p0 (op a a)
    | XH -> a

  (** val to_nat : positive -> nat **)

  let to_nat x =
    iter_op add x (S O)

  (** val of_succ_nat : nat -> positive **)

  let rec of_succ_nat = function
  | O -> XH
  | S x -> succ (of_succ_nat x)
 end

module Z =
 struct
  (** val eqb : z -> z -> bool **)

  let eqb x y =
    match x with
    | Z0 -> (match y with
             | Z0 -> true
             | _ -> false)
    | Zpos p -> (match y with
                 | Zpos q0 -> Pos.eqb p q0
                 | _ -> false)
    | Zneg p -> (match y with
                 | Zneg q0 -> Pos.eqb p q0
                 | _ -> false)

  (** val to_nat : z -> nat **)

  let to_nat = function
  | Zpos p -> Pos.to_nat p
  | _ -> O

  (** val of_nat : nat -> z **)

  let of_nat = function
  | O -> Z0
  | S n0 -> Zpos (Pos.of_succ_nat n0)
 end

type wk =
| WT
| WC

type rpc =
| RIdle
| RPop1
| RChk
| RPop2
| RStore
| RClear
| RPark
| KStore
| KEmpty
| KChans
| KTake
| KRun
| RSusp
| RPd0
| RPd1

type tctx =
| CTry
| CFirst
| CReg
| CFin

type api =
| ATry
| ARecv
| ADrop

type res =
| RNone
| ROk of nat
| REmpty
| RDisc
| RCancel

type spc =
| SIdle
| SChk
| SPush
| STake
| SUnpark
| SDrop

type rcvr = { rp : rpc; rc : tctx; rapi : api; rco : bool; rres : res;
              rdata : res; ralive : bool; rdead : bool }

type sndr = { sp : spc; sw : wk; salive : bool; sres : bool; sdead : 
              bool; sn : nat }

type st = { q : nat list; slot : wk option; chans : nat; pdrop : bool;
            ttok : bool; runq : bool; r : rcvr; sn0 : sndr; sent : nat list;
            rcvd : nat list; drpd : nat list; freed : bool }

(** val mk :
    nat list -> wk option -> nat -> bool -> bool -> bool -> rcvr -> sndr ->
    nat list -> nat list -> nat list -> bool -> st **)

let mk q' sl c p t rq r0 s' se rv dr fr =
  { q = q'; slot = sl; chans = c; pdrop = p; ttok = t; runq = rq; r = r0;
    sn0 = s'; sent = se; rcvd = rv; drpd = dr; freed = fr }

(** val r_set : rcvr -> rpc -> tctx -> rcvr **)

let r_set x p c =
  { rp = p; rc = c; rapi = x.rapi; rco = x.rco; rres = x.rres; rdata =
    x.rdata; ralive = x.ralive; rdead = x.rdead }

(** val r_ret : rcvr -> res -> rcvr **)

let r_ret x r0 =
  { rp = RIdle; rc = x.rc; rapi = x.rapi; rco = x.rco; rres = r0; rdata =
    x.rdata; ralive = x.ralive; rdead = x.rdead }

(** val r_data : rcvr -> res -> rcvr **)

let r_data x d =
  match x.rc with
  | CReg ->
    { rp = RClear; rc = x.rc; rapi = x.rapi; rco = x.rco; rres = x.rres;
      rdata = d; ralive = x.ralive; rdead = x.rdead }
  | _ -> r_ret x d

(** val r_empty : rcvr -> rcvr **)

let r_empty x =
  match x.rc with
  | CTry -> r_ret x REmpty
  | CFirst -> if x.rco then r_set x KStore CFirst else r_set x RStore CFirst
  | CReg -> r_set x RPark CReg
  | CFin -> r_set x RPop1 CFirst

(** val r_start : rcvr -> api -> bool -> rpc -> tctx -> bool -> rcvr **)

let r_start x ap co p c d =
  { rp = p; rc = c; rapi = ap; rco = co; rres = RNone; rdata = RNone;
    ralive = x.ralive; rdead = d }

(** val r_gone : rcvr -> rcvr **)

let r_gone x =
  { rp = RIdle; rc = x.rc; rapi = x.rapi; rco = x.rco; rres = RNone; rdata =
    x.rdata; ralive = false; rdead = false }

(** val s_pc : sndr -> spc -> sndr **)

let s_pc y p =
  { sp = p; sw = y.sw; salive = y.salive; sres = y.sres; sdead = y.sdead;
    sn = y.sn }

(** val s_call : sndr -> spc -> bool -> sndr **)

let s_call y p d =
  { sp = p; sw = y.sw; salive = y.salive; sres = y.sres; sdead = d; sn =
    y.sn }

(** val s_res : sndr -> spc -> bool -> sndr **)

let s_res y p r0 =
  { sp = p; sw = y.sw; salive = y.salive; sres = r0; sdead = y.sdead; sn =
    y.sn }

(** val s_pushed : sndr -> sndr **)

let s_pushed y =
  { sp = STake; sw = y.sw; salive = y.salive; sres = true; sdead = y.sdead;
    sn = (S y.sn) }

(** val s_took : sndr -> wk -> sndr **)

let s_took y w =
  { sp = SUnpark; sw = w; salive = y.salive; sres = y.sres; sdead = y.sdead;
    sn = y.sn }

(** val s_dead : sndr -> sndr **)

let s_dead y =
  { sp = STake; sw = y.sw; salive = false; sres = y.sres; sdead = y.sdead;
    sn = y.sn }

type action =
| TryRecv
| Recv of bool
| DropPort
| RStep
| Worker
| Spur
| RCan
| Send
| DropChan
| SStep
| Free

(** val is_idle : rcvr -> bool **)

let is_idle x =
  match x.rp with
  | RIdle -> x.ralive
  | _ -> false

(** val s_ready : sndr -> bool **)

let s_ready y =
  match y.sp with
  | SIdle -> y.salive
  | _ -> false

(** val is0 : nat -> bool **)

let is0 n =
  Nat.eqb n O

(** val step : bool -> st -> action -> st option **)

let step fixed s ac =
  let x = s.r in
  let y = s.sn0 in
  (match ac with
   | TryRecv ->
     if is_idle x
     then Some
            (mk s.q s.slot s.chans s.pdrop s.ttok s.runq
              (r_start x ATry false RPop1 CTry (is0 s.chans)) y s.sent s.rcvd
              s.drpd s.freed)
     else None
   | Recv co ->
     if is_idle x
     then Some
            (mk s.q s.slot s.chans s.pdrop s.ttok s.runq
              (r_start x ARecv co RPop1 CFirst (is0 s.chans)) y s.sent s.rcvd
              s.drpd s.freed)
     else None
   | DropPort ->
     if is_idle x
     then Some
            (mk s.q s.slot s.chans s.pdrop s.ttok s.runq
              (r_start x ADrop false RPd0 CTry false) y s.sent s.rcvd s.drpd
              s.freed)
     else None
   | RStep ->
     (match x.rp with
      | RPop1 ->
        (match s.q with
         | [] ->
           Some
             (mk s.q s.slot s.chans s.pdrop s.ttok s.runq (r_set x RChk x.rc)
               y s.sent s.rcvd s.drpd s.freed)
         | v :: q' ->
           Some
             (mk q' s.slot s.chans s.pdrop s.ttok s.runq (r_data x (ROk v)) y
               s.sent (app s.rcvd (v :: [])) s.drpd s.freed))
      | RChk ->
        if is0 s.chans
        then Some
               (mk s.q s.slot s.chans s.pdrop s.ttok s.runq
                 (r_set x RPop2 x.rc) y s.sent s.rcvd s.drpd s.freed)
        else Some
               (mk s.q s.slot s.chans s.pdrop s.ttok s.runq (r_empty x) y
                 s.sent s.rcvd s.drpd s.freed)
      | RPop2 ->
        (match s.q with
         | [] ->
           Some
             (mk s.q s.slot s.chans s.pdrop s.ttok s.runq (r_data x RDisc) y
               s.sent s.rcvd s.drpd s.freed)
         | v :: q' ->
           Some
             (mk q' s.slot s.chans s.pdrop s.ttok s.runq (r_data x (ROk v)) y
               s.sent (app s.rcvd (v :: [])) s.drpd s.freed))
      | RStore ->
        Some
          (mk s.q (Some WT) s.chans s.pdrop s.ttok s.runq
            (r_set x RPop1 CReg) y s.sent s.rcvd s.drpd s.freed)
      | RClear ->
        Some
          (mk s.q None s.chans s.pdrop s.ttok s.runq (r_ret x x.rdata) y
            s.sent s.rcvd s.drpd s.freed)
      | RPark ->
        if s.ttok
        then Some
               (mk s.q s.slot s.chans s.pdrop false s.runq
                 (r_set x RPop1 CFin) y s.sent s.rcvd s.drpd s.freed)
        else None
      | KStore ->
        Some
          (mk s.q (Some WC) s.chans s.pdrop s.ttok s.runq
            (r_set x KEmpty x.rc) y s.sent s.rcvd s.drpd s.freed)
      | KEmpty ->
        (match s.q with
         | [] ->
           Some
             (mk s.q s.slot s.chans s.pdrop s.ttok s.runq
               (r_set x (if fixed then KChans else RSusp) x.rc) y s.sent
               s.rcvd s.drpd s.freed)
         | _ :: _ ->
           Some
             (mk s.q s.slot s.chans s.pdrop s.ttok s.runq
               (r_set x KTake x.rc) y s.sent s.rcvd s.drpd s.freed))
      | KChans ->
        if is0 s.chans
        then Some
               (mk s.q s.slot s.chans s.pdrop s.ttok s.runq
                 (r_set x KTake x.rc) y s.sent s.rcvd s.drpd s.freed)
        else Some
               (mk s.q s.slot s.chans s.pdrop s.ttok s.runq
                 (r_set x RSusp x.rc) y s.sent s.rcvd s.drpd s.freed)
      | KTake ->
        (match s.slot with
         | Some w ->
           (match w with
            | WT -> None
            | WC ->
              Some
                (mk s.q None s.chans s.pdrop s.ttok s.runq
                  (r_set x KRun x.rc) y s.sent s.rcvd s.drpd s.freed))
         | None ->
           Some
             (mk s.q s.slot s.chans s.pdrop s.ttok s.runq
               (r_set x RSusp x.rc) y s.sent s.rcvd s.drpd s.freed))
      | KRun ->
        Some
          (mk s.q s.slot s.chans s.pdrop s.ttok s.runq (r_set x RPop1 CFin) y
            s.sent s.rcvd s.drpd s.freed)
      | RPd0 ->
        Some
          (mk s.q s.slot s.chans true s.ttok s.runq (r_set x RPd1 x.rc) y
            s.sent s.rcvd s.drpd s.freed)
      | RPd1 ->
        (match s.q with
         | [] ->
           Some
             (mk s.q s.slot s.chans s.pdrop s.ttok s.runq (r_gone x) y s.sent
               s.rcvd s.drpd s.freed)
         | v :: q' ->
           Some
             (mk q' s.slot s.chans s.pdrop s.ttok s.runq x y s.sent s.rcvd
               (app s.drpd (v :: [])) s.freed))
      | _ -> None)
   | Worker ->
     (match x.rp with
      | RSusp ->
        if s.runq
        then Some
               (mk s.q s.slot s.chans s.pdrop s.ttok false
                 (r_set x RPop1 CFin) y s.sent s.rcvd s.drpd s.freed)
        else None
      | _ -> None)
   | Spur ->
     (match x.rp with
      | RPark ->
        Some
          (mk s.q s.slot s.chans s.pdrop s.ttok s.runq (r_set x RPop1 CFin) y
            s.sent s.rcvd s.drpd s.freed)
      | _ -> None)
   | RCan ->
     (match x.rp with
      | KStore ->
        Some
          (mk s.q s.slot s.chans s.pdrop s.ttok s.runq (r_ret x RCancel) y
            s.sent s.rcvd s.drpd s.freed)
      | KRun ->
        Some
          (mk s.q s.slot s.chans s.pdrop s.ttok s.runq (r_ret x RCancel) y
            s.sent s.rcvd s.drpd s.freed)
      | RSusp ->
        if s.runq
        then Some
               (mk s.q s.slot s.chans s.pdrop s.ttok false (r_ret x RCancel)
                 y s.sent s.rcvd s.drpd s.freed)
        else None
      | _ -> None)
   | Send ->
     if s_ready y
     then Some
            (mk s.q s.slot s.chans s.pdrop s.ttok s.runq x
              (s_call y SChk s.pdrop) s.sent s.rcvd s.drpd s.freed)
     else None
   | DropChan ->
     if s_ready y
     then Some
            (mk s.q s.slot s.chans s.pdrop s.ttok s.runq x
              (s_call y SDrop false) s.sent s.rcvd s.drpd s.freed)
     else None
   | SStep ->
     (match y.sp with
      | SIdle -> None
      | SChk ->
        if s.pdrop
        then Some
               (mk s.q s.slot s.chans s.pdrop s.ttok s.runq x
                 (s_res y SIdle false) s.sent s.rcvd s.drpd s.freed)
        else Some
               (mk s.q s.slot s.chans s.pdrop s.ttok s.runq x (s_pc y SPush)
                 s.sent s.rcvd s.drpd s.freed)
      | SPush ->
        Some
          (mk (app s.q (y.sn :: [])) s.slot s.chans s.pdrop s.ttok s.runq x
            (s_pushed y) (app s.sent (y.sn :: [])) s.rcvd s.drpd s.freed)
      | STake ->
        (match s.slot with
         | Some w ->
           Some
             (mk s.q None s.chans s.pdrop s.ttok s.runq x (s_took y w) s.sent
               s.rcvd s.drpd s.freed)
         | None ->
           Some
             (mk s.q s.slot s.chans s.pdrop s.ttok s.runq x (s_pc y SIdle)
               s.sent s.rcvd s.drpd s.freed))
      | SUnpark ->
        (match y.sw with
         | WT ->
           Some
             (mk s.q s.slot s.chans s.pdrop true s.runq x (s_pc y SIdle)
               s.sent s.rcvd s.drpd s.freed)
         | WC ->
           Some
             (mk s.q s.slot s.chans s.pdrop s.ttok true x (s_pc y SIdle)
               s.sent s.rcvd s.drpd s.freed))
      | SDrop ->
        Some
          (mk s.q s.slot O s.pdrop s.ttok s.runq x (s_dead y) s.sent s.rcvd
            s.drpd s.freed))
   | Free ->
     if (&&) ((&&) ((&&) (is0 s.chans) (negb x.ralive)) (negb s.freed))
          (match x.rp with
           | RIdle -> true
           | _ -> false)
     then Some
            (mk [] s.slot s.chans s.pdrop s.ttok s.runq x y s.sent s.rcvd
              (app s.drpd s.q) true)
     else None)

(** val rcv0 : rcvr **)

let rcv0 =
  { rp = RIdle; rc = CTry; rapi = ATry; rco = false; rres = RNone; rdata =
    RNone; ralive = true; rdead = false }

(** val snd0 : sndr **)

let snd0 =
  { sp = SIdle; sw = WT; salive = true; sres = false; sdead = false; sn = O }

(** val init : st **)

let init =
  mk [] None (S O) false false false rcv0 snd0 [] [] [] false

type aux = { started : bool; ract : nat; sact : nat; qt : z; qh : z }

(** val aux0 : aux **)

let aux0 =
  { started = false; ract = O; sact = O; qt = Z0; qh = Z0 }

type ast = st * aux

(** val a_init : ast **)

let a_init =
  (init, aux0)

(** val set_ract : aux -> nat -> aux **)

let set_ract x a =
  { started = x.started; ract = a; sact = x.sact; qt = x.qt; qh = x.qh }

(** val set_sact : aux -> nat -> aux **)

let set_sact x a =
  { started = x.started; ract = x.ract; sact = a; qt = x.qt; qh = x.qh }

(** val set_qt : aux -> z -> aux **)

let set_qt x o =
  { started = x.started; ract = x.ract; sact = x.sact; qt = o; qh = x.qh }

(** val set_qh : aux -> z -> aux **)

let set_qh x o =
  { started = x.started; ract = x.ract; sact = x.sact; qt = x.qt; qh = o }

(** val rpc_eqb : rpc -> rpc -> bool **)

let rpc_eqb x y =
  match x with
  | RIdle -> (match y with
              | RIdle -> true
              | _ -> false)
  | RPop1 -> (match y with
              | RPop1 -> true
              | _ -> false)
  | RChk -> (match y with
             | RChk -> true
             | _ -> false)
  | RPop2 -> (match y with
              | RPop2 -> true
              | _ -> false)
  | RStore -> (match y with
               | RStore -> true
               | _ -> false)
  | RClear -> (match y with
               | RClear -> true
               | _ -> false)
  | RPark -> (match y with
              | RPark -> true
              | _ -> false)
  | KStore -> (match y with
               | KStore -> true
               | _ -> false)
  | KEmpty -> (match y with
               | KEmpty -> true
               | _ -> false)
  | KChans -> (match y with
               | KChans -> true
               | _ -> false)
  | KTake -> (match y with
              | KTake -> true
              | _ -> false)
  | KRun -> (match y with
             | KRun -> true
             | _ -> false)
  | RSusp -> (match y with
              | RSusp -> true
              | _ -> false)
  | RPd0 -> (match y with
             | RPd0 -> true
             | _ -> false)
  | RPd1 -> (match y with
             | RPd1 -> true
             | _ -> false)

(** val spc_eqb : spc -> spc -> bool **)

let spc_eqb x y =
  match x with
  | SIdle -> (match y with
              | SIdle -> true
              | _ -> false)
  | SChk -> (match y with
             | SChk -> true
             | _ -> false)
  | SPush -> (match y with
              | SPush -> true
              | _ -> false)
  | STake -> (match y with
              | STake -> true
              | _ -> false)
  | SUnpark -> (match y with
                | SUnpark -> true
                | _ -> false)
  | SDrop -> (match y with
              | SDrop -> true
              | _ -> false)

(** val zb : z -> bool **)

let zb v =
  negb (Z.eqb v Z0)

(** val isnone : 'a1 option -> bool **)

let isnone = function
| Some _ -> false
| None -> true

(** val isnil : 'a1 list -> bool **)

let isnil = function
| [] -> true
| _ :: _ -> false

(** val res_is : res -> z -> z -> bool **)

let res_is r0 k v =
  match r0 with
  | ROk i -> (&&) (Z.eqb k Z0) (Z.eqb v (Z.of_nat i))
  | REmpty -> Z.eqb k (Zpos XH)
  | RDisc -> Z.eqb k (Zpos (XO XH))
  | _ -> false

type plan = { acts : action list; post : (st -> bool); nxt : (st -> aux) }

(** val steps : st -> action list -> st option **)

let rec steps s = function
| [] -> Some s
| a :: l' -> (match step true s a with
              | Some s' -> steps s' l'
              | None -> None)

(** val guard : bool -> plan option -> plan option **)

let guard b p =
  if b then p else None

(** val ok : action list -> aux -> plan option **)

let ok l x =
  Some { acts = l; post = (fun _ -> true); nxt = (fun _ -> x) }

(** val skip : aux -> plan option **)

let skip x =
  ok [] x

(** val at_r : st -> rpc -> bool **)

let at_r s p =
  rpc_eqb s.r.rp p

(** val at_s : st -> spc -> bool **)

let at_s s p =
  spc_eqb s.sn0.sp p

(** val is_r : aux -> nat -> bool **)

let is_r x a =
  (&&) (negb (Nat.eqb a O)) (Nat.eqb x.ract a)

(** val is_s : aux -> nat -> bool **)

let is_s x a =
  (&&) (negb (Nat.eqb a O)) (Nat.eqb x.sact a)

(** val wake : st -> action list **)

let wake s =
  match s.r.rp with
  | RPark -> if s.ttok then RStep :: [] else Spur :: []
  | KRun -> RStep :: []
  | RSusp -> Worker :: []
  | _ -> []

(** val cancel_acts : st -> action list option **)

let cancel_acts s =
  match s.r.rp with
  | KStore -> Some (RCan :: [])
  | KRun -> Some (RCan :: [])
  | RSusp -> if s.runq then Some (RCan :: []) else None
  | _ -> None

(** val in_pop : st -> bool **)

let in_pop s =
  match steps s (wake s) with
  | Some s' -> (||) ((||) (at_r s' RPop1) (at_r s' RPop2)) (at_r s' RPd1)
  | None -> false

(** val qnil_after_wake : st -> bool **)

let qnil_after_wake s =
  match steps s (wake s) with
  | Some s' -> isnil s'.q
  | None -> false

(** val take_acts : st -> action list **)

let take_acts s =
  if isnone s.slot then SStep :: [] else SStep :: (SStep :: [])

(** val plan_ev : st -> aux -> z list -> plan option **)

let plan_ev s x = function
| [] -> None
| code :: l ->
  (match l with
   | [] -> None
   | za :: l0 ->
     (match l0 with
      | [] -> None
      | o :: l1 ->
        (match l1 with
         | [] -> None
         | v :: l2 ->
           (match l2 with
            | [] ->
              let a = Z.to_nat za in
              (match code with
               | Zpos p ->
                 (match p with
                  | XI p0 ->
                    (match p0 with
                     | XI p1 ->
                       (match p1 with
                        | XI p2 ->
                          (match p2 with
                           | XI p3 ->
                             (match p3 with
                              | XH ->
                                if (&&) ((&&) (is_s x a) (at_s s SPush))
                                     ((||) (Z.eqb x.qt Z0) (Z.eqb x.qt o))
                                then ok (SStep :: []) (set_qt x o)
                                else guard (negb (Z.eqb x.qt o)) (skip x)
                              | _ -> None)
                           | XO p3 ->
                             (match p3 with
                              | XH ->
                                guard ((&&) (is_r x a) (at_r s RClear))
                                  (ok (RStep :: []) x)
                              | _ -> None)
                           | XH ->
                             guard
                               ((&&) ((&&) (is_r x a) (at_r s RIdle))
                                 (negb s.r.ralive)) (skip (set_ract x O)))
                        | XO p2 ->
                          (match p2 with
                           | XI p3 ->
                             (match p3 with
                              | XH ->
                                guard
                                  ((&&) ((&&) (is_s x a) (at_s s STake))
                                    (eqb (negb (isnone s.slot)) (zb v)))
                                  (ok (take_acts s) x)
                              | _ -> None)
                           | XO p3 ->
                             (match p3 with
                              | XO p4 ->
                                (match p4 with
                                 | XH ->
                                   guard
                                     ((&&) ((&&) (is_r x a) (at_r s KChans))
                                       (Z.eqb (Z.of_nat s.chans) v))
                                     (ok (RStep :: []) x)
                                 | _ -> None)
                              | _ -> None)
                           | XH ->
                             if Z.eqb o (Zpos (XI (XO XH)))
                             then guard (is_r x a)
                                    (match cancel_acts s with
                                     | Some l3 ->
                                       Some { acts = l3; post = (fun s' ->
                                         at_r s' RIdle); nxt = (fun _ ->
                                         set_ract x O) }
                                     | None -> None)
                             else guard
                                    ((&&) ((&&) (is_r x a) (at_r s RIdle))
                                      (res_is s.r.rres o v))
                                    (skip (set_ract x O)))
                        | XH ->
                          guard
                            ((&&) ((&&) (is_s x a) (at_s s SIdle))
                              (negb s.sn0.salive)) (skip (set_sact x O)))
                     | XO p1 ->
                       (match p1 with
                        | XI p2 ->
                          (match p2 with
                           | XO p3 ->
                             (match p3 with
                              | XI _ -> None
                              | XO p4 ->
                                (match p4 with
                                 | XH ->
                                   guard
                                     ((&&) ((&&) (is_r x a) (at_r s KTake))
                                       (eqb (negb (isnone s.slot)) (zb v)))
                                     (ok (RStep :: []) x)
                                 | _ -> None)
                              | XH ->
                                guard
                                  ((&&) ((&&) (is_s x a) (at_s s STake))
                                    (eqb (negb (isnone s.slot)) (zb v)))
                                  (ok (take_acts s) x))
                           | _ -> None)
                        | XO p2 ->
                          (match p2 with
                           | XI _ -> None
                           | XO p3 ->
                             (match p3 with
                              | XO p4 ->
                                (match p4 with
                                 | XH ->
                                   if s.freed
                                   then skip x
                                   else if (&&) ((&&) (is_r x a) (in_pop s))
                                             ((||) (Z.eqb x.qt Z0)
                                               (Z.eqb x.qt o))
                                        then if qnil_after_wake s
                                             then ok
                                                    (app (wake s)
                                                      (RStep :: []))
                                                    (set_qt x o)
                                             else ok (wake s) (set_qt x o)
                                        else guard (negb (Z.eqb x.qt o))
                                               (skip x)
                                 | _ -> None)
                              | _ -> None)
                           | XH ->
                             guard
                               ((&&) ((&&) (is_r x a) (at_r s RIdle))
                                 (res_is s.r.rres o v)) (skip (set_ract x O)))
                        | XH -> None)
                     | XH ->
                       guard
                         ((&&) ((&&) (is_s x a) (at_s s SIdle))
                           (eqb s.sn0.sres (zb v))) (skip (set_sact x O)))
                  | XO p0 ->
                    (match p0 with
                     | XI p1 ->
                       (match p1 with
                        | XI p2 ->
                          (match p2 with
                           | XI _ -> None
                           | XO p3 ->
                             (match p3 with
                              | XH ->
                                guard ((&&) (is_r x a) (at_r s RStore))
                                  (ok (RStep :: []) x)
                              | _ -> None)
                           | XH ->
                             guard
                               ((&&) (Nat.eqb x.ract O) (negb (is_s x a)))
                               (ok (DropPort :: []) (set_ract x a)))
                        | XO p2 ->
                          (match p2 with
                           | XI p3 ->
                             (match p3 with
                              | XH ->
                                guard
                                  ((&&) ((&&) (is_s x a) (at_s s SDrop))
                                    (Z.eqb v Z0)) (ok (SStep :: []) x)
                              | _ -> None)
                           | XO p3 ->
                             (match p3 with
                              | XO p4 ->
                                (match p4 with
                                 | XH ->
                                   guard ((&&) (is_r x a) (at_r s KStore))
                                     (ok (RStep :: []) x)
                                 | _ -> None)
                              | _ -> None)
                           | XH ->
                             guard
                               ((&&) (Nat.eqb x.ract O) (negb (is_s x a)))
                               (ok ((Recv (zb o)) :: []) (set_ract x a)))
                        | XH ->
                          guard ((&&) (Nat.eqb x.sact O) (negb (is_r x a)))
                            (ok (DropChan :: []) (set_sact x a)))
                     | XO p1 ->
                       (match p1 with
                        | XI p2 ->
                          (match p2 with
                           | XI p3 ->
                             (match p3 with
                              | XH ->
                                guard ((&&) (is_r x a) (at_r s RPd0))
                                  (ok (RStep :: []) x)
                              | _ -> None)
                           | XO p3 ->
                             (match p3 with
                              | XI _ -> None
                              | XO p4 ->
                                (match p4 with
                                 | XH ->
                                   if (&&) ((&&) (is_r x a) (at_r s KEmpty))
                                        ((||) (Z.eqb x.qt Z0) (Z.eqb x.qt o))
                                   then ok (RStep :: []) (set_qt x o)
                                   else guard (negb (Z.eqb x.qt o)) (skip x)
                                 | _ -> None)
                              | XH ->
                                guard
                                  ((&&) ((&&) (is_s x a) (at_s s SChk))
                                    (eqb s.pdrop (zb v))) (ok (SStep :: []) x))
                           | XH -> None)
                        | XO p2 ->
                          (match p2 with
                           | XI p3 ->
                             (match p3 with
                              | XH ->
                                guard
                                  ((&&) ((&&) (is_r x a) (at_r s RChk))
                                    (Z.eqb (Z.of_nat s.chans) v))
                                  (ok (RStep :: []) x)
                              | _ -> None)
                           | XO p3 ->
                             (match p3 with
                              | XO p4 ->
                                (match p4 with
                                 | XH ->
                                   if s.freed
                                   then skip x
                                   else if (&&) ((&&) (is_r x a) (in_pop s))
                                             ((||) (Z.eqb x.qh Z0)
                                               (Z.eqb x.qh o))
                                        then guard (negb (qnil_after_wake s))
                                               (ok
                                                 (app (wake s) (RStep :: []))
                                                 (set_qh x o))
                                        else guard (negb (Z.eqb x.qh o))
                                               (skip x)
                                 | _ -> None)
                              | _ -> None)
                           | XH ->
                             guard
                               ((&&) (Nat.eqb x.ract O) (negb (is_s x a)))
                               (ok (TryRecv :: []) (set_ract x a)))
                        | XH -> None)
                     | XH ->
                       guard
                         ((&&) ((&&) (Nat.eqb x.sact O) (negb (is_r x a)))
                           (Nat.eqb s.sn0.sn (Z.to_nat v)))
                         (ok (Send :: []) (set_sact x a)))
                  | XH -> None)
               | _ -> None)
            | _ :: _ -> None))))

(** val accept_ev : ast -> z list -> ast option **)

let accept_ev sx e =
  let (s, x) = sx in
  if x.started
  then (match plan_ev s x e with
        | Some p ->
          (match steps s p.acts with
           | Some s' -> if p.post s' then Some (s', (p.nxt s')) else None
           | None -> None)
        | None -> None)
  else (match e with
        | [] -> Some sx
        | z0 :: l ->
          (match z0 with
           | Zpos p ->
             (match p with
              | XH ->
                (match l with
                 | [] -> Some sx
                 | _ :: l0 ->
                   (match l0 with
                    | [] -> Some sx
                    | _ :: l1 ->
                      (match l1 with
                       | [] -> Some sx
                       | _ :: l2 ->
                         (match l2 with
                          | [] ->
                            Some (s, { started = true; ract = x.ract; sact =
                              x.sact; qt = x.qt; qh = x.qh })
                          | _ :: _ -> Some sx))))
              | _ -> Some sx)
           | _ -> Some sx))

(** val nats_eqb : nat list -> nat list -> bool **)

let rec nats_eqb l1 l2 =
  match l1 with
  | [] -> (match l2 with
           | [] -> true
           | _ :: _ -> false)
  | a :: t1 ->
    (match l2 with
     | [] -> false
     | b :: t2 -> (&&) (Nat.eqb a b) (nats_eqb t1 t2))

(** val monitors_ok : ast -> bool **)

let monitors_ok sx =
  let s = fst sx in nats_eqb s.sent (app s.rcvd (app s.drpd s.q))

(** val m_init : ast **)

let m_init =
  a_init

(** val m_accept : ast -> z list -> ast option **)

let m_accept =
  accept_ev

(** val m_final : ast -> bool **)

let m_final =
  monitors_ok
