
(** val negb : bool -> bool **)

let negb = function
| true -> false
| false -> true

type nat =
| O
| S of nat

(** val fst : ('a1 * 'a2) -> 'a1 **)

let fst = function
| (x, _) -> x

(** val length : 'a1 list -> nat **)

let rec length = function
| [] -> O
| _ :: l' -> S (length l')

(** val app : 'a1 list -> 'a1 list -> 'a1 list **)

let rec app l m =
  match l with
  | [] -> m
  | a0 :: l1 -> a0 :: (app l1 m)

type comparison =
| Eq
| Lt
| Gt

(** val compOpp : comparison -> comparison **)

let compOpp = function
| Eq -> Eq
| Lt -> Gt
| Gt -> Lt

module Coq__1 = struct
 (** val add : nat -> nat -> nat **)
 let rec add n0 m =
   match n0 with
   | O -> m
   | S p -> S (add p m)
end
include Coq__1

(** val eqb : bool -> bool -> bool **)

let eqb b1 b2 =
  if b1 then b2 else if b2 then false else true

module Nat =
 struct
  (** val eqb : nat -> nat -> bool **)

  let rec eqb n0 m =
    match n0 with
    | O -> (match m with
            | O -> true
            | S _ -> false)
    | S n' -> (match m with
               | O -> false
               | S m' -> eqb n' m')

  (** val eq_dec : nat -> nat -> bool **)

  let rec eq_dec n0 m =
    match n0 with
    | O -> (match m with
            | O -> true
            | S _ -> false)
    | S n1 -> (match m with
               | O -> false
               | S n2 -> eq_dec n1 n2)
 end

(** val remove : ('a1 -> 'a1 -> bool) -> 'a1 -> 'a1 list -> 'a1 list **)

let rec remove eq_dec0 x = function
| [] -> []
| y :: tl ->
  if eq_dec0 x y then remove eq_dec0 x tl else y :: (remove eq_dec0 x tl)

type positive =
| XI of positive
| XO of positive
| XH

type n =
| N0
| Npos of positive

type z =
| Z0
| Zpos of positive
| Zneg of positive

module Pos =
 struct
  (** val succ : positive -> positive **)

  let rec succ = function
  | XI p -> XO (succ p)
  | XO p -> XI p
  | XH -> XO XH

  (** val add : positive -> positive -> positive **)

  let rec add x y =
    match x with
    | XI p ->
      (match y with
       | XI q0 -> XO (add_carry p q0)
       | XO q0 -> XI (add p q0)
       | XH -> XO (succ p))
    | XO p ->
      (match y with
       | XI q0 -> XI (add p q0)
       | XO q0 -> XO (add p q0)
       | XH -> XI p)
    | XH -> (match y with
             | XI q0 -> XO (succ q0)
             | XO q0 -> XI q0
             | XH -> XO XH)

  (** val add_carry : positive -> positive -> positive **)

  and add_carry x y =
    match x with
    | XI p ->
      (match y with
       | XI q0 -> XI (add_carry p q0)
       | XO q0 -> XO (add_carry p q0)
       | XH -> XI (succ p))
    | XO p ->
      (match y with
       | XI q0 -> XO (add_carry p q0)
       | XO q0 -> XI (add p q0)
       | XH -> XO (succ p))
    | XH ->
      (match y with
       | XI q0 -> XI (succ q0)
       | XO q0 -> XO (succ q0)
       | XH -> XI XH)

  (** val pred_double : positive -> positive **)

  let rec pred_double = function
  | XI p -> XI (XO p)
  | XO p -> XI (pred_double p)
  | XH -> XH

  (** val pred_N : positive -> n **)

  let pred_N = function
  | XI p -> Npos (XO p)
  | XO p -> Npos (pred_double p)
  | XH -> N0

  (** val compare_cont : comparison -> positive -> positive -> comparison **)

  let rec compare_cont r x y =
    match x with
    | XI p ->
      (match y with
       | XI q0 -> compare_cont r p q0
       | XO q0 -> compare_cont Gt p q0
       | XH -> Gt)
    | XO p ->
      (match y with
       | XI q0 -> compare_cont Lt p q0
       | XO q0 -> compare_cont r p q0
       | XH -> Gt)
    | XH -> (match y with
             | XH -> r
             | _ -> Lt)

  (** val compare : positive -> positive -> comparison **)

  let compare =
    compare_cont Eq

  (** val eqb : positive -> positive -> bool **)

  let rec eqb p q0 =
    match p with
    | XI p0 -> (match q0 with
                | XI q1 -> eqb p0 q1
                | _ -> false)
    | XO p0 -> (match q0 with
                | XO q1 -> eqb p0 q1
                | _ -> false)
    | XH -> (match q0 with
             | XH -> true
             | _ -> false)

  (** val testbit : positive -> n -> bool **)

  let rec testbit p n0 =
    match p with
    | XI p0 -> (match n0 with
                | N0 -> true
                | Npos n1 -> testbit p0 (pred_N n1))
    | XO p0 -> (match n0 with
                | N0 -> false
                | Npos n1 -> testbit p0 (pred_N n1))
    | XH -> (match n0 with
             | N0 -> true
             | Npos _ -> false)

  (** val iter_op : ('a1 -> 'a1 -> 'a1) -> positive -> 'a1 -> 'a1 **)

  let rec iter_op op0 p a0 =
    match p with
    | XI p0 -> op0 a0 (iter_op op0 p0 (op0 a0 a0))
    | XO p0 -> iter_op op0 p0 (op0 a0 a0)
    | XH -> a0

  (** val to_nat : positive -> nat **)

  let to_nat x =
    iter_op Coq__1.add x (S O)

  (** val of_succ_nat : nat -> positive **)

  let rec of_succ_nat = function
  | O -> XH
  | S x -> succ (of_succ_nat x)
 end

module N =
 struct
  (** val testbit : n -> n -> bool **)

  let testbit a0 n0 =
    match a0 with
    | N0 -> false
    | Npos p -> Pos.testbit p n0
 end

module Z =
 struct
  (** val double : z -> z **)

  let double = function
  | Z0 -> Z0
  | Zpos p -> Zpos (XO p)
  | Zneg p -> Zneg (XO p)

  (** val succ_double : z -> z **)

  let succ_double = function
  | Z0 -> Zpos XH
  | Zpos p -> Zpos (XI p)
  | Zneg p -> Zneg (Pos.pred_double p)

  (** val pred_double : z -> z **)

  let pred_double = function
  | Z0 -> Zneg XH
  | Zpos p -> Zpos (Pos.pred_double p)
  | Zneg p -> Zneg (XI p)

  (** val pos_sub : positive -> positive -> z **)

  let rec pos_sub x y =
    match x with
    | XI p ->
      (match y with
       | XI q0 -> double (pos_sub p q0)
       | XO q0 -> succ_double (pos_sub p q0)
       | XH -> Zpos (XO p))
    | XO p ->
      (match y with
       | XI q0 -> pred_double (pos_sub p q0)
       | XO q0 -> double (pos_sub p q0)
       | XH -> Zpos (Pos.pred_double p))
    | XH ->
      (match y with
       | XI q0 -> Zneg (XO q0)
       | XO q0 -> Zneg (Pos.pred_double q0)
       | XH -> Z0)

  (** val add : z -> z -> z **)

  let add x y =
    match x with
    | Z0 -> y
    | Zpos x' ->
      (match y with
       | Z0 -> x
       | Zpos y' -> Zpos (Pos.add x' y')
       | Zneg y' -> pos_sub x' y')
    | Zneg x' ->
      (match y with
       | Z0 -> x
       | Zpos y' -> pos_sub y' x'
       | Zneg y' -> Zneg (Pos.add x' y'))

  (** val opp : z -> z **)

  let opp = function
  | Z0 -> Z0
  | Zpos x0 -> Zneg x0
  | Zneg x0 -> Zpos x0

  (** val sub : z -> z -> z **)

  let sub m n0 =
    add m (opp n0)

  (** val compare : z -> z -> comparison **)

  let compare x y =
    match x with
    | Z0 -> (match y with
             | Z0 -> Eq
             | Zpos _ -> Lt
             | Zneg _ -> Gt)
    | Zpos x' -> (match y with
                  | Zpos y' -> Pos.compare x' y'
                  | _ -> Gt)
    | Zneg x' ->
      (match y with
       | Zneg y' -> compOpp (Pos.compare x' y')
       | _ -> Lt)

  (** val ltb : z -> z -> bool **)

  let ltb x y =
    match compare x y with
    | Lt -> true
    | _ -> false

  (** val eqb : z -> z -> bool **)

  let eqb x y =
    match x with
    | Z0 -> (match y with
             | Z0 -> true
             | _ -> false)
    | Zpos p -> (match y with
                 | Zpos q0 -> Pos.eqb p q0
                 | _ -> false)
    | Zneg p -> (match y with
                 | Zneg q0 -> Pos.eqb p q0
                 | _ -> false)

  (** val to_nat : z -> nat **)

  let to_nat = function
  | Zpos p -> Pos.to_nat p
  | _ -> O

  (** val of_nat : nat -> z **)

  let of_nat = function
  | O -> Z0
  | S n1 -> Zpos (Pos.of_succ_nat n1)

  (** val odd : z -> bool **)

  let odd = function
  | Z0 -> false
  | Zpos p -> (match p with
               | XO _ -> false
               | _ -> true)
  | Zneg p -> (match p with
               | XO _ -> false
               | _ -> true)

  (** val testbit : z -> z -> bool **)

  let testbit a0 = function
  | Z0 -> odd a0
  | Zpos p ->
    (match a0 with
     | Z0 -> false
     | Zpos a1 -> Pos.testbit a1 (Npos p)
     | Zneg a1 -> negb (N.testbit (Pos.pred_N a1) (Npos p)))
  | Zneg _ -> false
 end

type pc =
| Idle
| W0
| W1
| W2
| WP
| WW
| E1
| E2
| E3
| E4
| F0
| A1
| A2
| A3
| A4
| Q0

type ctx =
| RUser
| RErr
| RPark

type rsn =
| RU
| RT

type act = { apc : pc; ab : nat; aw : nat; actx : ctx; atimed : bool;
             dep : nat; ares : bool }

type blk = { tok : bool; parked : bool; reason : rsn option; unp : bool;
             rel : bool; owner : nat }

type st = { cnt : z; q : nat list; nextb : nat; a : (nat -> act);
            bk : (nat -> blk); ufired : bool; fbound : z; infl : nat list;
            obs : (nat * bool) list }

(** val upd : (nat -> 'a1) -> nat -> 'a1 -> nat -> 'a1 **)

let upd f i v j =
  if Nat.eqb j i then v else f j

(** val fresh : nat -> blk **)

let fresh o =
  { tok = false; parked = false; reason = None; unp = false; rel = false;
    owner = o }

(** val set_pc : act -> pc -> act **)

let set_pc x p =
  { apc = p; ab = x.ab; aw = x.aw; actx = x.actx; atimed = x.atimed; dep =
    x.dep; ares = x.ares }

(** val set_res : act -> pc -> bool -> act **)

let set_res x p r =
  { apc = p; ab = x.ab; aw = x.aw; actx = x.actx; atimed = x.atimed; dep =
    x.dep; ares = r }

(** val ret_pc : ctx -> pc **)

let ret_pc = function
| RPark -> WP
| _ -> Idle

(** val rm : nat -> nat list -> nat list **)

let rm =
  remove Nat.eq_dec

(** val nl : nat list -> z **)

let nl l =
  Z.of_nat (length l)

type action =
| Wait of nat * bool
| IsFired of nat
| Fire of nat
| Step of nat
| Tmo of nat

(** val mk :
    z -> nat list -> nat -> (nat -> act) -> (nat -> blk) -> bool -> z -> nat
    list -> (nat * bool) list -> st **)

let mk c q' n0 a' b' u fb l o =
  { cnt = c; q = q'; nextb = n0; a = a'; bk = b'; ufired = u; fbound = fb;
    infl = l; obs = o }

(** val step : z -> st -> action -> st option **)

let step mAX0 s = function
| Wait (a0, timed) ->
  (match (s.a a0).apc with
   | Idle ->
     Some
       (mk s.cnt s.q s.nextb
         (upd s.a a0 { apc = W0; ab = (s.a a0).ab; aw = (s.a a0).aw; actx =
           RUser; atimed = timed; dep = O; ares = (s.a a0).ares }) s.bk
         s.ufired s.fbound s.infl s.obs)
   | _ -> None)
| IsFired a0 ->
  (match (s.a a0).apc with
   | Idle ->
     Some
       (mk s.cnt s.q s.nextb (upd s.a a0 (set_pc (s.a a0) Q0)) s.bk s.ufired
         s.fbound s.infl s.obs)
   | _ -> None)
| Fire a0 ->
  (match (s.a a0).apc with
   | Idle ->
     Some
       (mk s.cnt s.q s.nextb
         (upd s.a a0 { apc = F0; ab = (s.a a0).ab; aw = (s.a a0).aw; actx =
           RUser; atimed = false; dep = O; ares = (s.a a0).ares }) s.bk
         s.ufired s.fbound s.infl s.obs)
   | _ -> None)
| Step a0 ->
  let x = s.a a0 in
  let b = s.bk x.ab in
  let w = s.bk x.aw in
  (match x.apc with
   | Idle -> None
   | W0 ->
     if Z.ltb Z0 s.cnt
     then Some
            (mk s.cnt s.q s.nextb (upd s.a a0 (set_res x Idle true)) s.bk
              s.ufired s.fbound s.infl ((a0, true) :: s.obs))
     else Some
            (mk s.cnt s.q s.nextb (upd s.a a0 (set_pc x W1)) s.bk s.ufired
              s.fbound (a0 :: s.infl) s.obs)
   | W1 ->
     let n0 = s.nextb in
     Some
     (mk s.cnt (app s.q (n0 :: [])) (S n0)
       (upd s.a a0 { apc = W2; ab = n0; aw = x.aw; actx = x.actx; atimed =
         x.atimed; dep = x.dep; ares = x.ares }) (upd s.bk n0 (fresh a0))
       s.ufired s.fbound s.infl s.obs)
   | W2 ->
     if Z.ltb Z0 s.cnt
     then Some
            (mk (Z.sub s.cnt (Zpos XH)) s.q s.nextb
              (upd s.a a0 { apc = A1; ab = x.ab; aw = x.aw; actx = RPark;
                atimed = x.atimed; dep = O; ares = x.ares }) s.bk s.ufired
              s.fbound (rm a0 s.infl) s.obs)
     else Some
            (mk (Z.sub s.cnt (Zpos XH)) s.q s.nextb
              (upd s.a a0 (set_pc x WP)) s.bk s.ufired s.fbound
              (rm a0 s.infl) s.obs)
   | WP ->
     if b.tok
     then Some
            (mk s.cnt s.q s.nextb (upd s.a a0 (set_res x Idle true))
              (upd s.bk x.ab { tok = false; parked = b.parked; reason =
                b.reason; unp = b.unp; rel = b.rel; owner = b.owner })
              s.ufired s.fbound s.infl ((a0, true) :: s.obs))
     else Some
            (mk s.cnt s.q s.nextb (upd s.a a0 (set_pc x WW))
              (upd s.bk x.ab { tok = b.tok; parked = true; reason = None;
                unp = b.unp; rel = b.rel; owner = b.owner }) s.ufired
              s.fbound s.infl s.obs)
   | WW ->
     (match b.reason with
      | Some r ->
        (match r with
         | RU ->
           Some
             (mk s.cnt s.q s.nextb (upd s.a a0 (set_res x Idle true))
               (upd s.bk x.ab { tok = false; parked = false; reason = None;
                 unp = b.unp; rel = b.rel; owner = b.owner }) s.ufired
               s.fbound s.infl ((a0, true) :: s.obs))
         | RT ->
           Some
             (mk s.cnt s.q s.nextb (upd s.a a0 (set_res x E1 false))
               (upd s.bk x.ab { tok = false; parked = false; reason = None;
                 unp = b.unp; rel = b.rel; owner = b.owner }) s.ufired
               s.fbound s.infl ((a0, false) :: s.obs)))
      | None -> None)
   | E1 ->
     if b.unp
     then Some
            (mk s.cnt s.q s.nextb
              (upd s.a a0 { apc = F0; ab = x.ab; aw = x.aw; actx = RErr;
                atimed = x.atimed; dep = O; ares = x.ares }) s.bk s.ufired
              s.fbound s.infl s.obs)
     else Some
            (mk s.cnt s.q s.nextb (upd s.a a0 (set_pc x E2)) s.bk s.ufired
              s.fbound s.infl s.obs)
   | E2 ->
     Some
       (mk s.cnt s.q s.nextb (upd s.a a0 (set_pc x E3))
         (upd s.bk x.ab { tok = b.tok; parked = b.parked; reason = b.reason;
           unp = b.unp; rel = true; owner = b.owner }) s.ufired s.fbound
         s.infl s.obs)
   | E3 ->
     if b.unp
     then Some
            (mk s.cnt s.q s.nextb (upd s.a a0 (set_pc x E4)) s.bk s.ufired
              s.fbound s.infl s.obs)
     else Some
            (mk s.cnt s.q s.nextb (upd s.a a0 (set_pc x Idle)) s.bk s.ufired
              s.fbound s.infl s.obs)
   | E4 ->
     if b.rel
     then Some
            (mk s.cnt s.q s.nextb
              (upd s.a a0 { apc = F0; ab = x.ab; aw = x.aw; actx = RErr;
                atimed = x.atimed; dep = O; ares = x.ares })
              (upd s.bk x.ab { tok = b.tok; parked = b.parked; reason =
                b.reason; unp = b.unp; rel = false; owner = b.owner })
              s.ufired s.fbound s.infl s.obs)
     else Some
            (mk s.cnt s.q s.nextb (upd s.a a0 (set_pc x Idle)) s.bk s.ufired
              s.fbound s.infl s.obs)
   | F0 ->
     let first =
       match x.actx with
       | RUser ->
         (match x.dep with
          | O -> if s.ufired then false else true
          | S _ -> false)
       | _ -> false
     in
     Some
     (mk mAX0 s.q s.nextb (upd s.a a0 (set_pc x A1)) s.bk
       (match x.actx with
        | RUser -> true
        | _ -> s.ufired) (if first then nl s.infl else s.fbound) s.infl s.obs)
   | A1 ->
     (match s.q with
      | [] ->
        (match x.dep with
         | O ->
           Some
             (mk s.cnt s.q s.nextb (upd s.a a0 (set_pc x (ret_pc x.actx)))
               s.bk s.ufired s.fbound s.infl s.obs)
         | S d ->
           Some
             (mk s.cnt s.q s.nextb
               (upd s.a a0 { apc = A1; ab = x.ab; aw = x.aw; actx = x.actx;
                 atimed = x.atimed; dep = d; ares = x.ares }) s.bk s.ufired
               s.fbound s.infl s.obs))
      | v :: q' ->
        Some
          (mk s.cnt q' s.nextb
            (upd s.a a0 { apc = A2; ab = x.ab; aw = v; actx = x.actx;
              atimed = x.atimed; dep = x.dep; ares = x.ares }) s.bk s.ufired
            s.fbound s.infl s.obs))
   | A2 ->
     Some
       (mk s.cnt s.q s.nextb (upd s.a a0 (set_pc x A3))
         (upd s.bk x.aw { tok = w.tok; parked = w.parked; reason = w.reason;
           unp = true; rel = w.rel; owner = w.owner }) s.ufired s.fbound
         s.infl s.obs)
   | A3 ->
     Some
       (mk s.cnt s.q s.nextb (upd s.a a0 (set_pc x A4))
         (upd s.bk x.aw { tok = true; parked = w.parked; reason =
           (if w.parked
            then (match w.reason with
                  | Some r0 -> Some r0
                  | None -> Some RU)
            else w.reason); unp = w.unp; rel = w.rel; owner = w.owner })
         s.ufired s.fbound s.infl s.obs)
   | A4 ->
     if w.rel
     then Some
            (mk s.cnt s.q s.nextb
              (upd s.a a0 { apc = F0; ab = x.ab; aw = x.aw; actx = x.actx;
                atimed = x.atimed; dep = (S x.dep); ares = x.ares })
              (upd s.bk x.aw { tok = w.tok; parked = w.parked; reason =
                w.reason; unp = w.unp; rel = false; owner = w.owner })
              s.ufired s.fbound s.infl s.obs)
     else Some
            (mk s.cnt s.q s.nextb (upd s.a a0 (set_pc x A1)) s.bk s.ufired
              s.fbound s.infl s.obs)
   | Q0 ->
     Some
       (mk s.cnt s.q s.nextb (upd s.a a0 (set_res x Idle (Z.ltb Z0 s.cnt)))
         s.bk s.ufired s.fbound s.infl ((a0, (Z.ltb Z0 s.cnt)) :: s.obs)))
| Tmo a0 ->
  let x = s.a a0 in
  let b = s.bk x.ab in
  (match x.apc with
   | WW ->
     if x.atimed
     then Some
            (mk s.cnt s.q s.nextb s.a
              (upd s.bk x.ab { tok = b.tok; parked = b.parked; reason = (Some
                RT); unp = b.unp; rel = b.rel; owner = b.owner }) s.ufired
              s.fbound s.infl s.obs)
     else None
   | _ -> None)

(** val act0 : act **)

let act0 =
  { apc = Idle; ab = O; aw = O; actx = RUser; atimed = false; dep = O; ares =
    false }

(** val init : st **)

let init =
  mk Z0 [] (S O) (fun _ -> act0) (fun _ -> fresh O) false Z0 [] []

type aux = { started : bool; ph : (nat -> nat); op : (nat -> nat);
             kind : (nat -> nat); ou : (nat -> z); orl : (nat -> z);
             opk : (nat -> z) }

type ast = st * aux

(** val aux0 : aux **)

let aux0 =
  { started = false; ph = (fun _ -> O); op = (fun _ -> O); kind = (fun _ ->
    O); ou = (fun _ -> Z0); orl = (fun _ -> Z0); opk = (fun _ -> Z0) }

(** val mAX : z **)

let mAX =
  Zpos (XI (XI (XI (XI (XI (XI (XI (XI (XI (XI (XI (XI (XI (XI (XI (XI (XI
    (XI (XI (XI (XI (XI (XI (XI (XI (XI (XI (XI (XI (XI (XI (XI (XI (XI (XI
    (XI (XI (XI (XI (XI (XI (XI (XI (XI (XI (XI (XI (XI (XI (XI (XI (XI (XI
    (XI (XI (XI (XI (XI (XI (XI (XI (XI
    XH))))))))))))))))))))))))))))))))))))))))))))))))))))))))))))))

(** val m_init : ast **)

let m_init =
  (init, aux0)

(** val pc_eqb : pc -> pc -> bool **)

let pc_eqb x y =
  match x with
  | Idle -> (match y with
             | Idle -> true
             | _ -> false)
  | W0 -> (match y with
           | W0 -> true
           | _ -> false)
  | W1 -> (match y with
           | W1 -> true
           | _ -> false)
  | W2 -> (match y with
           | W2 -> true
           | _ -> false)
  | WP -> (match y with
           | WP -> true
           | _ -> false)
  | WW -> (match y with
           | WW -> true
           | _ -> false)
  | E1 -> (match y with
           | E1 -> true
           | _ -> false)
  | E2 -> (match y with
           | E2 -> true
           | _ -> false)
  | E3 -> (match y with
           | E3 -> true
           | _ -> false)
  | E4 -> (match y with
           | E4 -> true
           | _ -> false)
  | F0 -> (match y with
           | F0 -> true
           | _ -> false)
  | A1 -> (match y with
           | A1 -> true
           | _ -> false)
  | A2 -> (match y with
           | A2 -> true
           | _ -> false)
  | A3 -> (match y with
           | A3 -> true
           | _ -> false)
  | A4 -> (match y with
           | A4 -> true
           | _ -> false)
  | Q0 -> (match y with
           | Q0 -> true
           | _ -> false)

(** val sgn : z -> z **)

let sgn w =
  if Z.ltb w (Zpos (XO (XO (XO (XO (XO (XO (XO (XO (XO (XO (XO (XO (XO (XO
       (XO (XO (XO (XO (XO (XO (XO (XO (XO (XO (XO (XO (XO (XO (XO (XO (XO
       (XO (XO (XO (XO (XO (XO (XO (XO (XO (XO (XO (XO (XO (XO (XO (XO (XO
       (XO (XO (XO (XO (XO (XO (XO (XO (XO (XO (XO (XO (XO (XO (XO
       XH))))))))))))))))))))))))))))))))))))))))))))))))))))))))))))))))
  then w
  else Z.sub w (Zpos (XO (XO (XO (XO (XO (XO (XO (XO (XO (XO (XO (XO (XO (XO
         (XO (XO (XO (XO (XO (XO (XO (XO (XO (XO (XO (XO (XO (XO (XO (XO (XO
         (XO (XO (XO (XO (XO (XO (XO (XO (XO (XO (XO (XO (XO (XO (XO (XO (XO
         (XO (XO (XO (XO (XO (XO (XO (XO (XO (XO (XO (XO (XO (XO (XO (XO
         XH)))))))))))))))))))))))))))))))))))))))))))))))))))))))))))))))))

(** val zb : z -> bool **)

let zb v =
  negb (Z.eqb v Z0)

(** val set_ph : aux -> nat -> nat -> aux **)

let set_ph x a0 p =
  { started = x.started; ph = (upd x.ph a0 p); op = x.op; kind = x.kind; ou =
    x.ou; orl = x.orl; opk = x.opk }

(** val set_op : aux -> nat -> nat -> aux **)

let set_op x a0 o =
  { started = x.started; ph = x.ph; op = (upd x.op a0 o); kind = x.kind; ou =
    x.ou; orl = x.orl; opk = x.opk }

(** val set_kind : aux -> nat -> nat -> aux **)

let set_kind x a0 k =
  { started = x.started; ph = x.ph; op = x.op; kind = (upd x.kind a0 k); ou =
    x.ou; orl = x.orl; opk = x.opk }

(** val set_ou : aux -> (nat -> z) -> aux **)

let set_ou x m =
  { started = x.started; ph = x.ph; op = x.op; kind = x.kind; ou = m; orl =
    x.orl; opk = x.opk }

(** val set_orl : aux -> (nat -> z) -> aux **)

let set_orl x m =
  { started = x.started; ph = x.ph; op = x.op; kind = x.kind; ou = x.ou;
    orl = m; opk = x.opk }

(** val set_opk : aux -> (nat -> z) -> aux **)

let set_opk x m =
  { started = x.started; ph = x.ph; op = x.op; kind = x.kind; ou = x.ou;
    orl = x.orl; opk = m }

(** val bind_obj : (nat -> z) -> nat -> z -> (nat -> z) option **)

let bind_obj m b o =
  if Z.eqb (m b) Z0
  then Some (upd m b o)
  else if Z.eqb (m b) o then Some m else None

type plan = { acts : action list; post : (st -> bool); nxt : (st -> aux) }

(** val steps : st -> action list -> st option **)

let rec steps s = function
| [] -> Some s
| a0 :: l' -> (match step mAX s a0 with
               | Some s' -> steps s' l'
               | None -> None)

(** val guard : bool -> plan option -> plan option **)

let guard b p =
  if b then p else None

(** val pcof : st -> nat -> pc **)

let pcof s a0 =
  (s.a a0).apc

(** val at_pc : st -> nat -> pc -> bool **)

let at_pc s a0 p =
  pc_eqb (pcof s a0) p

(** val phis : aux -> nat -> nat -> bool **)

let phis x a0 n0 =
  Nat.eqb (x.ph a0) n0

(** val plan_ev : st -> aux -> z list -> plan option **)

let plan_ev s x = function
| [] -> None
| code :: l ->
  (match l with
   | [] -> None
   | za :: l0 ->
     (match l0 with
      | [] -> None
      | o :: l1 ->
        (match l1 with
         | [] -> None
         | v :: l2 ->
           (match l2 with
            | [] ->
              let a0 = Z.to_nat za in
              let me = s.a a0 in
              let b = me.ab in
              let w = me.aw in
              (match code with
               | Zpos p ->
                 (match p with
                  | XI p0 ->
                    (match p0 with
                     | XI p1 ->
                       (match p1 with
                        | XI p2 ->
                          (match p2 with
                           | XI p3 ->
                             (match p3 with
                              | XH ->
                                (match bind_obj x.ou b o with
                                 | Some m ->
                                   guard (eqb (s.bk b).unp (zb v))
                                     (if (||) (at_pc s a0 E1) (at_pc s a0 E3)
                                      then Some { acts = ((Step a0) :: []);
                                             post = (fun _ -> true); nxt =
                                             (fun _ -> set_ou x m) }
                                      else guard
                                             ((&&) (at_pc s a0 WW)
                                               (phis x a0 (S (S (S (S O))))))
                                             (Some { acts = ((Tmo
                                             a0) :: ((Step a0) :: ((Step
                                             a0) :: []))); post = (fun _ ->
                                             true); nxt = (fun _ ->
                                             set_ph (set_ou x m) a0 O) }))
                                 | None -> None)
                              | _ -> None)
                           | XO p3 ->
                             (match p3 with
                              | XH ->
                                guard
                                  ((&&) (at_pc s a0 W2) (Z.eqb s.cnt (sgn v)))
                                  (Some { acts = ((Step a0) :: []); post =
                                  (fun _ -> true); nxt = (fun _ -> x) })
                              | _ -> None)
                           | XH -> None)
                        | XO p2 ->
                          (match p2 with
                           | XI p3 ->
                             (match p3 with
                              | XO p4 ->
                                (match p4 with
                                 | XH ->
                                   let o' = (s.bk w).owner in
                                   guard
                                     ((&&)
                                       ((&&) (at_pc s a0 A3)
                                         (Nat.eqb (x.kind o') (S (S O))))
                                       (if zb v
                                        then (s.bk w).tok
                                        else (||) (negb (s.bk w).tok)
                                               ((&&) (Nat.eqb (s.a o').ab w)
                                                 (phis x o' (S (S (S (S O))))))))
                                     (match bind_obj x.opk w o with
                                      | Some m ->
                                        Some { acts = ((Step a0) :: []);
                                          post = (fun _ -> true); nxt =
                                          (fun _ -> set_opk x m) }
                                      | None -> None)
                                 | _ -> None)
                              | _ -> None)
                           | XO _ -> None
                           | XH ->
                             guard
                               ((&&) (at_pc s a0 A3)
                                 (Nat.eqb (x.kind (s.bk w).owner) (S O)))
                               (match bind_obj x.opk w o with
                                | Some m ->
                                  Some { acts = ((Step a0) :: []); post =
                                    (fun _ -> true); nxt = (fun _ ->
                                    set_opk x m) }
                                | None -> None))
                        | XH -> None)
                     | XO p1 ->
                       (match p1 with
                        | XI _ -> None
                        | XO p2 ->
                          (match p2 with
                           | XI p3 ->
                             (match p3 with
                              | XI _ -> None
                              | XO p4 ->
                                (match p4 with
                                 | XH ->
                                   guard
                                     ((&&) (negb (zb v)) (Z.eqb (x.opk b) o))
                                     (if phis x a0 (S (S (S O)))
                                      then Some { acts = []; post = (fun _ ->
                                             true); nxt = (fun _ ->
                                             set_ph x a0 O) }
                                      else guard
                                             (phis x a0 (S (S (S (S (S (S
                                               O))))))) (Some { acts = [];
                                             post = (fun _ -> true); nxt =
                                             (fun _ ->
                                             set_ph x a0 (S (S (S (S O))))) }))
                                 | _ -> None)
                              | XH ->
                                guard
                                  ((&&) (at_pc s a0 A1)
                                    (eqb
                                      (match s.q with
                                       | [] -> false
                                       | _ :: _ -> true) (zb v))) (Some
                                  { acts = ((Step a0) :: []); post =
                                  (fun _ -> true); nxt = (fun _ -> x) }))
                           | XO p3 ->
                             (match p3 with
                              | XO p4 ->
                                (match p4 with
                                 | XH ->
                                   if at_pc s a0 A4
                                   then guard (eqb (s.bk w).rel (zb v))
                                          (match bind_obj x.orl w o with
                                           | Some m ->
                                             Some { acts = ((Step a0) :: []);
                                               post = (fun _ -> true); nxt =
                                               (fun _ -> set_orl x m) }
                                           | None -> None)
                                   else guard
                                          ((&&) (at_pc s a0 E4)
                                            (eqb (s.bk b).rel (zb v)))
                                          (match bind_obj x.orl b o with
                                           | Some m ->
                                             Some { acts = ((Step a0) :: []);
                                               post = (fun _ -> true); nxt =
                                               (fun _ -> set_orl x m) }
                                           | None -> None)
                                 | _ -> None)
                              | _ -> None)
                           | XH ->
                             guard
                               ((&&) ((&&) (at_pc s a0 WP) (phis x a0 O))
                                 (Nat.eqb (x.kind a0) (S O)))
                               (match bind_obj x.opk b o with
                                | Some m ->
                                  Some { acts = ((Step a0) :: []); post =
                                    (fun _ -> true); nxt = (fun s' ->
                                    set_ph (set_opk x m) a0
                                      (if at_pc s' a0 Idle
                                       then S (S (S (S (S (S (S (S O)))))))
                                       else S O)) }
                                | None -> None))
                        | XH ->
                          guard
                            ((&&) ((&&) (at_pc s a0 Idle) (phis x a0 O))
                              (Nat.eqb (x.op a0) O)) (Some { acts = ((Fire
                            a0) :: []); post = (fun _ -> true); nxt =
                            (fun _ -> set_op x a0 (S (S (S O)))) }))
                     | XH ->
                       guard
                         ((&&) ((&&) (at_pc s a0 Idle) (phis x a0 O))
                           (Nat.eqb (x.op a0) O)) (Some { acts = ((IsFired
                         a0) :: []); post = (fun _ -> true); nxt = (fun _ ->
                         set_op x a0 (S (S O))) }))
                  | XO p0 ->
                    (match p0 with
                     | XI p1 ->
                       (match p1 with
                        | XI p2 ->
                          (match p2 with
                           | XI p3 ->
                             (match p3 with
                              | XH ->
                                guard ((&&) (at_pc s a0 A2) (zb v))
                                  (match bind_obj x.ou w o with
                                   | Some m ->
                                     Some { acts = ((Step a0) :: []); post =
                                       (fun _ -> true); nxt = (fun _ ->
                                       set_ou x m) }
                                   | None -> None)
                              | _ -> None)
                           | XO p3 ->
                             (match p3 with
                              | XH ->
                                guard (at_pc s a0 W1) (Some { acts = ((Step
                                  a0) :: []); post = (fun _ -> true); nxt =
                                  (fun _ -> x) })
                              | _ -> None)
                           | XH -> None)
                        | XO p2 ->
                          (match p2 with
                           | XI p3 ->
                             (match p3 with
                              | XO p4 ->
                                (match p4 with
                                 | XH ->
                                   guard
                                     ((&&) (Z.eqb (x.opk b) o)
                                       (eqb (s.bk b).tok (zb v)))
                                     (if phis x a0 (S (S (S (S (S O)))))
                                      then guard (at_pc s a0 WP) (Some
                                             { acts = ((Step a0) :: []);
                                             post = (fun s' ->
                                             if zb v
                                             then at_pc s' a0 Idle
                                             else at_pc s' a0 WW); nxt =
                                             (fun _ ->
                                             set_ph x a0
                                               (if zb v then O else S (S O))) })
                                      else guard
                                             ((&&)
                                               (phis x a0 (S (S (S (S (S (S
                                                 (S O)))))))) (at_pc s a0 WW))
                                             (Some { acts = []; post =
                                             (fun _ -> true); nxt = (fun _ ->
                                             set_ph x a0 (S (S (S (S O))))) }))
                                 | _ -> None)
                              | _ -> None)
                           | XO _ -> None
                           | XH ->
                             if phis x a0 (S (S (S (S (S (S (S (S O))))))))
                             then guard ((&&) (zb v) (Z.eqb (x.opk b) o))
                                    (Some { acts = []; post = (fun _ ->
                                    true); nxt = (fun _ -> set_ph x a0 O) })
                             else guard
                                    ((&&)
                                      ((&&) (phis x a0 (S O)) (at_pc s a0 WW))
                                      (Z.eqb (x.opk b) o))
                                    (if zb v
                                     then Some { acts = ((Step a0) :: []);
                                            post = (fun s' ->
                                            at_pc s' a0 Idle); nxt =
                                            (fun _ -> set_ph x a0 O) }
                                     else Some { acts = ((Tmo a0) :: ((Step
                                            a0) :: [])); post = (fun s' ->
                                            at_pc s' a0 E1); nxt = (fun _ ->
                                            set_ph x a0 O) }))
                        | XH ->
                          guard
                            ((&&) (Nat.eqb (x.op a0) (S (S (S O))))
                              (at_pc s a0 Idle)) (Some { acts = []; post =
                            (fun _ -> true); nxt = (fun _ -> set_op x a0 O) }))
                     | XO p1 ->
                       (match p1 with
                        | XI p2 ->
                          (match p2 with
                           | XO p3 ->
                             (match p3 with
                              | XH ->
                                guard
                                  ((&&)
                                    ((||) (at_pc s a0 W0) (at_pc s a0 Q0))
                                    (Z.eqb s.cnt (sgn v))) (Some { acts =
                                  ((Step a0) :: []); post = (fun _ -> true);
                                  nxt = (fun _ -> x) })
                              | _ -> None)
                           | _ -> None)
                        | XO p2 ->
                          (match p2 with
                           | XI p3 ->
                             (match p3 with
                              | XI _ -> None
                              | XO p4 ->
                                (match p4 with
                                 | XH ->
                                   (match bind_obj x.opk b o with
                                    | Some m ->
                                      guard
                                        ((&&) (Nat.eqb (x.kind a0) (S (S O)))
                                          (eqb (s.bk b).tok (zb v)))
                                        (if phis x a0 O
                                         then guard (at_pc s a0 WP)
                                                (if zb v
                                                 then Some { acts = ((Step
                                                        a0) :: []); post =
                                                        (fun s' ->
                                                        at_pc s' a0 Idle);
                                                        nxt = (fun _ ->
                                                        set_ph (set_opk x m)
                                                          a0 (S (S (S O)))) }
                                                 else Some { acts = [];
                                                        post = (fun _ ->
                                                        true); nxt =
                                                        (fun _ ->
                                                        set_ph (set_opk x m)
                                                          a0 (S (S (S (S (S
                                                          O)))))) })
                                         else guard
                                                ((&&) (phis x a0 (S (S O)))
                                                  (at_pc s a0 WW)) (Some
                                                { acts = []; post = (fun _ ->
                                                true); nxt = (fun _ ->
                                                set_ph x a0
                                                  (if zb v
                                                   then S (S (S (S (S (S
                                                          O)))))
                                                   else S (S (S (S (S (S (S
                                                          O)))))))) }))
                                    | None -> None)
                                 | _ -> None)
                              | XH ->
                                guard ((&&) (at_pc s a0 F0) (Z.eqb v mAX))
                                  (Some { acts = ((Step a0) :: []); post =
                                  (fun _ -> true); nxt = (fun _ -> x) }))
                           | XO p3 ->
                             (match p3 with
                              | XO p4 ->
                                (match p4 with
                                 | XH ->
                                   guard ((&&) (at_pc s a0 E2) (zb v))
                                     (match bind_obj x.orl b o with
                                      | Some m ->
                                        Some { acts = ((Step a0) :: []);
                                          post = (fun _ -> true); nxt =
                                          (fun _ -> set_orl x m) }
                                      | None -> None)
                                 | _ -> None)
                              | _ -> None)
                           | XH -> None)
                        | XH ->
                          guard
                            ((&&)
                              ((&&) (Nat.eqb (x.op a0) (S (S O)))
                                (at_pc s a0 Idle)) (eqb me.ares (zb v)))
                            (Some { acts = []; post = (fun _ -> true); nxt =
                            (fun _ -> set_op x a0 O) }))
                     | XH ->
                       guard (Nat.eqb (x.op a0) (S O))
                         (if at_pc s a0 WW
                          then guard
                                 ((&&) (phis x a0 (S (S (S (S O))))) (zb v))
                                 (Some { acts = ((Step a0) :: []); post =
                                 (fun s' ->
                                 (&&) (at_pc s' a0 Idle)
                                   (eqb (s'.a a0).ares true)); nxt =
                                 (fun _ -> set_op (set_ph x a0 O) a0 O) })
                          else guard
                                 ((&&) ((&&) (phis x a0 O) (at_pc s a0 Idle))
                                   (eqb me.ares (zb v))) (Some { acts = [];
                                 post = (fun _ -> true); nxt = (fun _ ->
                                 set_op x a0 O) })))
                  | XH ->
                    let co = Z.testbit o (Zpos XH) in
                    guard
                      ((&&)
                        ((&&) ((&&) (at_pc s a0 Idle) (phis x a0 O))
                          (Nat.eqb (x.op a0) O))
                        ((||) (Nat.eqb (x.kind a0) O)
                          (Nat.eqb (x.kind a0) (if co then S (S O) else S O))))
                      (Some { acts = ((Wait (a0,
                      ((||) (Z.testbit o Z0) co))) :: []); post = (fun _ ->
                      true); nxt = (fun _ ->
                      set_kind (set_op x a0 (S O)) a0
                        (if co then S (S O) else S O)) }))
               | _ -> None)
            | _ :: _ -> None))))

(** val accept_ev : ast -> z list -> ast option **)

let accept_ev sx e =
  let (s, x) = sx in
  if x.started
  then (match plan_ev s x e with
        | Some p ->
          (match steps s p.acts with
           | Some s' -> if p.post s' then Some (s', (p.nxt s')) else None
           | None -> None)
        | None -> None)
  else (match e with
        | [] -> None
        | z0 :: l ->
          (match z0 with
           | Z0 ->
             (match l with
              | [] -> None
              | _ :: l0 ->
                (match l0 with
                 | [] -> None
                 | _ :: l1 ->
                   (match l1 with
                    | [] -> None
                    | _ :: l2 ->
                      (match l2 with
                       | [] ->
                         Some (init, { started = true; ph = x.ph; op = x.op;
                           kind = x.kind; ou = x.ou; orl = x.orl; opk =
                           x.opk })
                       | _ :: _ -> None))))
           | _ -> None))

(** val monitors_ok : ast -> bool **)

let monitors_ok sx =
  let s = fst sx in
  (&&) (if Z.ltb Z0 s.cnt then s.ufired else true)
    (if (&&) s.ufired (Z.ltb s.fbound mAX) then Z.ltb Z0 s.cnt else true)

(** val m_init0 : ast **)

let m_init0 =
  m_init

(** val m_accept : ast -> z list -> ast option **)

let m_accept =
  accept_ev

(** val m_final : ast -> bool **)

let m_final =
  monitors_ok
