
val negb : bool -> bool

type nat =
| O
| S of nat

val fst : ('a1 * 'a2) -> 'a1

val snd : ('a1 * 'a2) -> 'a2

val app : 'a1 list -> 'a1 list -> 'a1 list

type comparison =
| Eq
| Lt
| Gt

val compOpp : comparison -> comparison

val pred : nat -> nat

val add : nat -> nat -> nat

val eqb : bool -> bool -> bool

module Nat :
 sig
  val eqb : nat -> nat -> bool

  val eq_dec : nat -> nat -> bool
 end

val remove : ('a1 -> 'a1 -> bool) -> 'a1 -> 'a1 list -> 'a1 list

val map : ('a1 -> 'a2) -> 'a1 list -> 'a2 list

type positive =
| XI of positive
| XO of positive
| XH

type z =
| Z0
| Zpos of positive
| Zneg of positive

module Pos :
 sig
  val succ : positive -> positive

  val add : positive -> positive -> positive

  val add_carry : positive -> positive -> positive

  val pred_double : positive -> positive

  val mul : positive -> positive -> positive

  val iter : ('a1 -> 'a1) -> 'a1 -> positive -> 'a1

  val div2 : positive -> positive

  val div2_up : positive -> positive

  val compare_cont : comparison -> positive -> positive -> comparison

  val compare : positive -> positive -> comparison

  val eqb : positive -> positive -> bool

  val iter_op : ('a1 -> 'a1 -> 'a1) -> positive -> 'a1 -> 'a1

  val to_nat : positive -> nat

  val of_succ_nat : nat -> positive
 end

module Z :
 sig
  val double : z -> z

  val succ_double : z -> z

  val pred_double : z -> z

  val pos_sub : positive -> positive -> z

  val add : z -> z -> z

  val opp : z -> z

  val sub : z -> z -> z

  val mul : z -> z -> z

  val compare : z -> z -> comparison

  val leb : z -> z -> bool

  val ltb : z -> z -> bool

  val eqb : z -> z -> bool

  val max : z -> z -> z

  val to_nat : z -> nat

  val of_nat : nat -> z

  val div2 : z -> z

  val shiftl : z -> z -> z

  val shiftr : z -> z -> z
 end

type val0 = nat * nat

type rpc =
| YIdle
| Y0
| Y1
| Y0b
| W0
| WB
| Y2
| Y3s
| Y4s
| Y3n
| Y4n
| XA
| X0
| X1
| RPanic

type tctx =
| CTry
| CFirst

type res =
| RNone
| ROk of val0
| REmpty
| RDisc
| RTimeout
| RCancel

type spc =
| SIdle
| M0
| M1
| M2
| MA
| MS
| G0
| G1

type hst =
| Unborn
| Alive
| Dead

type rrec = { rp : rpc; rc : tctx; rtimed : bool; rgr : bool; rv : val0;
              rres : res; rst : hst; rdead : bool; rto : nat }

type srec = { sp : spc; sst : hst; sres : bool; sdead : bool; sn : nat;
              sto : nat }

type st = { q : val0 list; sv : nat; wq : nat list; txp : nat; rxp : 
            nat; rv0 : (nat -> rrec); sd : (nat -> srec); sent : val0 list;
            rlog : (nat * val0) list; drpd : val0 list; hold : nat list;
            pend : nat list; rep : nat list; dropper : nat option;
            livet : nat list; liver : nat list; freed : bool }

val upd : (nat -> 'a1) -> nat -> 'a1 -> nat -> 'a1

val rm : nat -> nat list -> nat list

val is0 : nat -> bool

val mk :
  val0 list -> nat -> nat list -> nat -> nat -> (nat -> rrec) -> (nat ->
  srec) -> val0 list -> (nat * val0) list -> val0 list -> nat list -> nat
  list -> nat list -> nat option -> nat list -> nat list -> bool -> st

val r_pc : rrec -> rpc -> rrec

val r_ret : rrec -> res -> rrec

val r_call : rrec -> rpc -> tctx -> bool -> bool -> nat -> rrec

val r_val : rrec -> rpc -> val0 -> rrec

val r_gr : rrec -> rpc -> bool -> rrec

val r_st : rrec -> rpc -> hst -> rrec

val s_pc : srec -> spc -> srec

val s_call : srec -> spc -> bool -> nat -> srec

val s_res : srec -> spc -> bool -> srec

val s_pushed : srec -> srec

val s_st : srec -> spc -> hst -> srec

val post_sv : st -> nat

val post_wq : st -> nat list

val post_Rv : st -> (nat -> rrec) -> nat -> rrec

val post_hold : st -> nat list -> nat list

type action =
| TryRecv of nat
| Recv of nat * bool
| CloneRx of nat * nat
| DropRx of nat
| RStep of nat
| Fire of nat * bool
| Send of nat
| CloneTx of nat * nat
| DropTx of nat
| SStep of nat
| Free

val r_ready : rrec -> bool

val s_ready : srec -> bool

val step : bool -> bool -> bool -> st -> action -> st option

val rrec0 : hst -> rrec

val srec0 : hst -> srec

val init : st

type aux = { started : bool; rof : (nat -> nat); hof : (nat -> nat) }

val aux0 : aux

type ast = st * aux

val a_init : ast

val set_rof : aux -> nat -> nat -> aux

val set_hof : aux -> nat -> nat -> aux

val rpc_eqb : rpc -> rpc -> bool

val spc_eqb : spc -> spc -> bool

val zb : z -> bool

val sgn : z -> z

val isnil : 'a1 list -> bool

val res_is : res -> z -> z -> bool

val hst_dead : hst -> bool

type plan = { acts : action list; post : (st -> bool); nxt : (st -> aux) }

val steps : st -> action list -> st option

val guard : bool -> plan option -> plan option

val ok : action list -> aux -> plan option

val okp : action list -> (st -> bool) -> aux -> plan option

val skip : aux -> plan option

val at_r : st -> nat -> rpc -> bool

val at_s : st -> nat -> spc -> bool

val svz : st -> z

val wake : st -> nat -> action list

val plan_ev : st -> aux -> z list -> plan option

val accept_ev : ast -> z list -> ast option

val vals_eqb : val0 list -> val0 list -> bool

val monitors_ok : ast -> bool

val m_init : ast

val m_accept : ast -> z list -> ast option

val m_final : ast -> bool
