
(** val implb : bool -> bool -> bool **)

let implb b1 b2 =
  if b1 then b2 else true

(** val negb : bool -> bool **)

let negb = function
| true -> false
| false -> true

type nat =
| O
| S of nat

type comparison =
| Eq
| Lt
| Gt

(** val compOpp : comparison -> comparison **)

let compOpp = function
| Eq -> Eq
| Lt -> Gt
| Gt -> Lt

(** val pred : nat -> nat **)

let pred n = match n with
| O -> n
| S u -> u

module Coq__1 = struct
 (** val add : nat -> nat -> nat **)
 let rec add n m =
   match n with
   | O -> m
   | S p0 -> S (add p0 m)
end
include Coq__1

(** val sub : nat -> nat -> nat **)

let rec sub n m =
  match n with
  | O -> n
  | S k0 -> (match m with
             | O -> n
             | S l -> sub k0 l)

(** val eqb : bool -> bool -> bool **)

let eqb b1 b2 =
  if b1 then b2 else if b2 then false else true

module Nat =
 struct
  (** val eqb : nat -> nat -> bool **)

  let rec eqb n m =
    match n with
    | O -> (match m with
            | O -> true
            | S _ -> false)
    | S n' -> (match m with
               | O -> false
               | S m' -> eqb n' m')

  (** val leb : nat -> nat -> bool **)

  let rec leb n m =
    match n with
    | O -> true
    | S n' -> (match m with
               | O -> false
               | S m' -> leb n' m')
 end

(** val existsb : ('a1 -> bool) -> 'a1 list -> bool **)

let rec existsb f = function
| [] -> false
| a :: l0 -> (||) (f a) (existsb f l0)

(** val forallb : ('a1 -> bool) -> 'a1 list -> bool **)

let rec forallb f = function
| [] -> true
| a :: l0 -> (&&) (f a) (forallb f l0)

(** val find : ('a1 -> bool) -> 'a1 list -> 'a1 option **)

let rec find f = function
| [] -> None
| x :: tl -> if f x then Some x else find f tl

(** val seq : nat -> nat -> nat list **)

let rec seq start = function
| O -> []
| S len0 -> start :: (seq (S start) len0)

type positive =
| XI of positive
| XO of positive
| XH

type z =
| Z0
| Zpos of positive
| Zneg of positive

module Pos =
 struct
  (** val succ : positive -> positive **)

  let rec succ = function
  | XI p0 -> XO (succ p0)
  | XO p0 -> XI p0
  | XH -> XO XH

  (** val add : positive -> positive -> positive **)

  let rec add x y =
    match x with
    | XI p0 ->
      (match y with
       | XI q -> XO (add_carry p0 q)
       | XO q -> XI (add p0 q)
       | XH -> XO (succ p0))
    | XO p0 ->
      (match y with
       | XI q -> XI (add p0 q)
       | XO q -> XO (add p0 q)
       | XH -> XI p0)
    | XH -> (match y with
             | XI q -> XO (succ q)
             | XO q -> XI q
             | XH -> XO XH)

  (** val add_carry : positive -> positive -> positive **)

  and add_carry x y =
    match x with
    | XI p0 ->
      (match y with
       | XI q -> XI (add_carry p0 q)
       | XO q -> XO (add_carry p0 q)
       | XH -> XI (succ p0))
    | XO p0 ->
      (match y with
       | XI q -> XO (add_carry p0 q)
       | XO q -> XI (add p0 q)
       | XH -> XO (succ p0))
    | XH ->
      (match y with
       | XI q -> XI (succ q)
       | XO q -> XO (succ q)
       | XH -> XI XH)

  (** val pred_double : positive -> positive **)

  let rec pred_double = function
  | XI p0 -> XI (XO p0)
  | XO p0 -> XI (pred_double p0)
  | XH -> XH

  (** val mul : positive -> positive -> positive **)

  let rec mul x y =
    match x with
    | XI p0 -> add y (XO (mul p0 y))
    | XO p0 -> XO (mul p0 y)
    | XH -> y

  (** val compare_cont : comparison -> positive -> positive -> comparison **)

  let rec compare_cont r x y =
    match x with
    | XI p0 ->
      (match y with
       | XI q -> compare_cont r p0 q
       | XO q -> compare_cont Gt p0 q
       | XH -> Gt)
    | XO p0 ->
      (match y with
       | XI q -> compare_cont Lt p0 q
       | XO q -> compare_cont r p0 q
       | XH -> Gt)
    | XH -> (match y with
             | XH -> r
             | _ -> Lt)

  (** val compare : positive -> positive -> comparison **)

  let compare =
    compare_cont Eq

  (** val eqb : positive -> positive -> bool **)

  let rec eqb p0 q =
    match p0 with
    | XI p1 -> (match q with
                | XI q0 -> eqb p1 q0
                | _ -> false)
    | XO p1 -> (match q with
                | XO q0 -> eqb p1 q0
                | _ -> false)
    | XH -> (match q with
             | XH -> true
             | _ -> false)

  (** val iter_op : ('a1 -> 'a1 -> 'a1) -> positive -> 'a1 -> 'a1 **)

  let rec iter_op op p0 a =
    match p0 with
    | XI p1 -> op a (iter_op op p1 (op a a))
    | XO p1 -> iter_op op p1 (op a a)
    | XH -> a

  (** val to_nat : positive -> nat **)

  let to_nat x =
    iter_op Coq__1.add x (S O)
 end

module Z =
 struct
  (** val double : z -> z **)

  let double = function
  | Z0 -> Z0
  | Zpos p0 -> Zpos (XO p0)
  | Zneg p0 -> Zneg (XO p0)

  (** val succ_double : z -> z **)

  let succ_double = function
  | Z0 -> Zpos XH
  | Zpos p0 -> Zpos (XI p0)
  | Zneg p0 -> Zneg (Pos.pred_double p0)

  (** val pred_double : z -> z **)

  let pred_double = function
  | Z0 -> Zneg XH
  | Zpos p0 -> Zpos (Pos.pred_double p0)
  | Zneg p0 -> Zneg (XI p0)

  (** val pos_sub : positive -> positive -> z **)

  let rec pos_sub x y =
    match x with
    | XI p0 ->
      (match y with
       | XI q -> double (pos_sub p0 q)
       | XO q -> succ_double (pos_sub p0 q)
       | XH -> Zpos (XO p0))
    | XO p0 ->
      (match y with
       | XI q -> pred_double (pos_sub p0 q)
       | XO q -> double (pos_sub p0 q)
       | XH -> Zpos (Pos.pred_double p0))
    | XH ->
      (match y with
       | XI q -> Zneg (XO q)
       | XO q -> Zneg (Pos.pred_double q)
       | XH -> Z0)

  (** val add : z -> z -> z **)

  let add x y =
    match x with
    | Z0 -> y
    | Zpos x' ->
      (match y with
       | Z0 -> x
       | Zpos y' -> Zpos (Pos.add x' y')
       | Zneg y' -> pos_sub x' y')
    | Zneg x' ->
      (match y with
       | Z0 -> x
       | Zpos y' -> pos_sub y' x'
       | Zneg y' -> Zneg (Pos.add x' y'))

  (** val opp : z -> z **)

  let opp = function
  | Z0 -> Z0
  | Zpos x0 -> Zneg x0
  | Zneg x0 -> Zpos x0

  (** val sub : z -> z -> z **)

  let sub m n =
    add m (opp n)

  (** val mul : z -> z -> z **)

  let mul x y =
    match x with
    | Z0 -> Z0
    | Zpos x' ->
      (match y with
       | Z0 -> Z0
       | Zpos y' -> Zpos (Pos.mul x' y')
       | Zneg y' -> Zneg (Pos.mul x' y'))
    | Zneg x' ->
      (match y with
       | Z0 -> Z0
       | Zpos y' -> Zneg (Pos.mul x' y')
       | Zneg y' -> Zpos (Pos.mul x' y'))

  (** val compare : z -> z -> comparison **)

  let compare x y =
    match x with
    | Z0 -> (match y with
             | Z0 -> Eq
             | Zpos _ -> Lt
             | Zneg _ -> Gt)
    | Zpos x' -> (match y with
                  | Zpos y' -> Pos.compare x' y'
                  | _ -> Gt)
    | Zneg x' ->
      (match y with
       | Zneg y' -> compOpp (Pos.compare x' y')
       | _ -> Lt)

  (** val leb : z -> z -> bool **)

  let leb x y =
    match compare x y with
    | Gt -> false
    | _ -> true

  (** val ltb : z -> z -> bool **)

  let ltb x y =
    match compare x y with
    | Lt -> true
    | _ -> false

  (** val eqb : z -> z -> bool **)

  let eqb x y =
    match x with
    | Z0 -> (match y with
             | Z0 -> true
             | _ -> false)
    | Zpos p0 -> (match y with
                  | Zpos q -> Pos.eqb p0 q
                  | _ -> false)
    | Zneg p0 -> (match y with
                  | Zneg q -> Pos.eqb p0 q
                  | _ -> false)

  (** val to_nat : z -> nat **)

  let to_nat = function
  | Zpos p0 -> Pos.to_nat p0
  | _ -> O

  (** val pos_div_eucl : positive -> z -> z * z **)

  let rec pos_div_eucl a b =
    match a with
    | XI a' ->
      let (q, r) = pos_div_eucl a' b in
      let r' = add (mul (Zpos (XO XH)) r) (Zpos XH) in
      if ltb r' b
      then ((mul (Zpos (XO XH)) q), r')
      else ((add (mul (Zpos (XO XH)) q) (Zpos XH)), (sub r' b))
    | XO a' ->
      let (q, r) = pos_div_eucl a' b in
      let r' = mul (Zpos (XO XH)) r in
      if ltb r' b
      then ((mul (Zpos (XO XH)) q), r')
      else ((add (mul (Zpos (XO XH)) q) (Zpos XH)), (sub r' b))
    | XH -> if leb (Zpos (XO XH)) b then (Z0, (Zpos XH)) else ((Zpos XH), Z0)

  (** val div_eucl : z -> z -> z * z **)

  let div_eucl a b =
    match a with
    | Z0 -> (Z0, Z0)
    | Zpos a' ->
      (match b with
       | Z0 -> (Z0, a)
       | Zpos _ -> pos_div_eucl a' b
       | Zneg b' ->
         let (q, r) = pos_div_eucl a' (Zpos b') in
         (match r with
          | Z0 -> ((opp q), Z0)
          | _ -> ((opp (add q (Zpos XH))), (add b r))))
    | Zneg a' ->
      (match b with
       | Z0 -> (Z0, a)
       | Zpos _ ->
         let (q, r) = pos_div_eucl a' b in
         (match r with
          | Z0 -> ((opp q), Z0)
          | _ -> ((opp (add q (Zpos XH))), (sub b r)))
       | Zneg b' -> let (q, r) = pos_div_eucl a' (Zpos b') in (q, (opp r)))

  (** val modulo : z -> z -> z **)

  let modulo a b =
    let (_, r) = div_eucl a b in r
 end

type node = { nprev : nat option; nnext : nat option; nval : bool;
              nlink : bool; refs : nat; freed : bool; stage : nat;
              inch : bool; gpred : nat; cons : nat; byrem : bool; ret : 
              bool; hnd : bool; own : nat }

(** val w_prev : nat option -> node -> node **)

let w_prev v d =
  { nprev = v; nnext = d.nnext; nval = d.nval; nlink = d.nlink; refs =
    d.refs; freed = d.freed; stage = d.stage; inch = d.inch; gpred = d.gpred;
    cons = d.cons; byrem = d.byrem; ret = d.ret; hnd = d.hnd; own = d.own }

(** val w_next : nat option -> node -> node **)

let w_next v d =
  { nprev = d.nprev; nnext = v; nval = d.nval; nlink = d.nlink; refs =
    d.refs; freed = d.freed; stage = d.stage; inch = d.inch; gpred = d.gpred;
    cons = d.cons; byrem = d.byrem; ret = d.ret; hnd = d.hnd; own = d.own }

(** val w_link : bool -> node -> node **)

let w_link v d =
  { nprev = d.nprev; nnext = d.nnext; nval = d.nval; nlink = v; refs =
    d.refs; freed = d.freed; stage = d.stage; inch = d.inch; gpred = d.gpred;
    cons = d.cons; byrem = d.byrem; ret = d.ret; hnd = d.hnd; own = d.own }

(** val w_stage : nat -> node -> node **)

let w_stage v d =
  { nprev = d.nprev; nnext = d.nnext; nval = d.nval; nlink = d.nlink; refs =
    d.refs; freed = d.freed; stage = v; inch = d.inch; gpred = d.gpred;
    cons = d.cons; byrem = d.byrem; ret = d.ret; hnd = d.hnd; own = d.own }

(** val w_gpred : nat -> node -> node **)

let w_gpred v d =
  { nprev = d.nprev; nnext = d.nnext; nval = d.nval; nlink = d.nlink; refs =
    d.refs; freed = d.freed; stage = d.stage; inch = d.inch; gpred = v;
    cons = d.cons; byrem = d.byrem; ret = d.ret; hnd = d.hnd; own = d.own }

(** val w_ret : bool -> node -> node **)

let w_ret v d =
  { nprev = d.nprev; nnext = d.nnext; nval = d.nval; nlink = d.nlink; refs =
    d.refs; freed = d.freed; stage = d.stage; inch = d.inch; gpred = d.gpred;
    cons = d.cons; byrem = d.byrem; ret = v; hnd = d.hnd; own = d.own }

(** val w_take : bool -> node -> node **)

let w_take rm d =
  { nprev = d.nprev; nnext = d.nnext; nval = false; nlink = d.nlink; refs =
    d.refs; freed = d.freed; stage = d.stage; inch = d.inch; gpred = d.gpred;
    cons = (S d.cons); byrem = rm; ret = d.ret; hnd = d.hnd; own = d.own }

(** val w_unchain : node -> node **)

let w_unchain d =
  { nprev = d.nprev; nnext = d.nnext; nval = d.nval; nlink = false; refs =
    (pred d.refs); freed = ((||) d.freed (Nat.eqb d.refs (S O))); stage =
    d.stage; inch = false; gpred = d.gpred; cons = d.cons; byrem = d.byrem;
    ret = d.ret; hnd = d.hnd; own = d.own }

(** val w_drop : node -> node **)

let w_drop d =
  { nprev = d.nprev; nnext = d.nnext; nval = d.nval; nlink = d.nlink; refs =
    (pred d.refs); freed = ((||) d.freed (Nat.eqb d.refs (S O))); stage =
    d.stage; inch = d.inch; gpred = d.gpred; cons = d.cons; byrem = d.byrem;
    ret = d.ret; hnd = false; own = d.own }

type ppc =
| QIdle
| Q0
| Q1
| Q2
| Q3

type pst = { qp : ppc; qn : nat; qprev : nat; qempty : bool; qclk : nat;
             qhead : bool }

type kpc =
| KIdle
| KP0 of bool
| KP1 of bool
| KP2
| KK0
| KK1
| KE0
| KR1
| KR2

type st = { nodes : (nat -> node); nn : nat; head : nat; tail : nat;
            p : (nat -> pst); kp : kpc; kn : nat; kx : nat;
            kres : nat option; kbool : bool; kclock : nat; lastpop : 
            nat; bad_order : bool; bad_head : bool; bad_val : bool;
            bad_mem : bool }

(** val upd : (nat -> 'a1) -> nat -> 'a1 -> nat -> 'a1 **)

let upd f i v j =
  if Nat.eqb j i then v else f j

(** val s_nodes : (nat -> node) -> st -> st **)

let s_nodes f s =
  { nodes = f; nn = s.nn; head = s.head; tail = s.tail; p = s.p; kp = s.kp;
    kn = s.kn; kx = s.kx; kres = s.kres; kbool = s.kbool; kclock = s.kclock;
    lastpop = s.lastpop; bad_order = s.bad_order; bad_head = s.bad_head;
    bad_val = s.bad_val; bad_mem = s.bad_mem }

(** val s_P : (nat -> pst) -> st -> st **)

let s_P f s =
  { nodes = s.nodes; nn = s.nn; head = s.head; tail = s.tail; p = f; kp =
    s.kp; kn = s.kn; kx = s.kx; kres = s.kres; kbool = s.kbool; kclock =
    s.kclock; lastpop = s.lastpop; bad_order = s.bad_order; bad_head =
    s.bad_head; bad_val = s.bad_val; bad_mem = s.bad_mem }

(** val s_k : kpc -> nat -> nat -> st -> st **)

let s_k pc n x s =
  { nodes = s.nodes; nn = s.nn; head = s.head; tail = s.tail; p = s.p; kp =
    pc; kn = n; kx = x; kres = s.kres; kbool = s.kbool; kclock = (S
    s.kclock); lastpop = s.lastpop; bad_order = s.bad_order; bad_head =
    s.bad_head; bad_val = s.bad_val; bad_mem = s.bad_mem }

(** val s_res : nat option -> st -> st **)

let s_res r s =
  { nodes = s.nodes; nn = s.nn; head = s.head; tail = s.tail; p = s.p; kp =
    s.kp; kn = s.kn; kx = s.kx; kres = r; kbool = s.kbool; kclock = s.kclock;
    lastpop = s.lastpop; bad_order = s.bad_order; bad_head = s.bad_head;
    bad_val = s.bad_val; bad_mem = s.bad_mem }

(** val s_bool : bool -> st -> st **)

let s_bool b s =
  { nodes = s.nodes; nn = s.nn; head = s.head; tail = s.tail; p = s.p; kp =
    s.kp; kn = s.kn; kx = s.kx; kres = s.kres; kbool = b; kclock = s.kclock;
    lastpop = s.lastpop; bad_order = s.bad_order; bad_head = s.bad_head;
    bad_val = s.bad_val; bad_mem = s.bad_mem }

(** val s_alloc : nat -> st -> st **)

let s_alloc n s =
  { nodes = s.nodes; nn = (S n); head = n; tail = s.tail; p = s.p; kp = s.kp;
    kn = s.kn; kx = s.kx; kres = s.kres; kbool = s.kbool; kclock = s.kclock;
    lastpop = s.lastpop; bad_order = s.bad_order; bad_head = s.bad_head;
    bad_val = s.bad_val; bad_mem = s.bad_mem }

(** val s_tail : nat -> bool -> st -> st **)

let s_tail x bo s =
  { nodes = s.nodes; nn = s.nn; head = s.head; tail = x; p = s.p; kp = s.kp;
    kn = s.kn; kx = s.kx; kres = s.kres; kbool = s.kbool; kclock = s.kclock;
    lastpop = x; bad_order = ((||) s.bad_order bo); bad_head = s.bad_head;
    bad_val = s.bad_val; bad_mem = s.bad_mem }

(** val s_bhead : bool -> st -> st **)

let s_bhead b s =
  { nodes = s.nodes; nn = s.nn; head = s.head; tail = s.tail; p = s.p; kp =
    s.kp; kn = s.kn; kx = s.kx; kres = s.kres; kbool = s.kbool; kclock =
    s.kclock; lastpop = s.lastpop; bad_order = s.bad_order; bad_head =
    ((||) s.bad_head b); bad_val = s.bad_val; bad_mem = s.bad_mem }

(** val s_bval : bool -> st -> st **)

let s_bval b s =
  { nodes = s.nodes; nn = s.nn; head = s.head; tail = s.tail; p = s.p; kp =
    s.kp; kn = s.kn; kx = s.kx; kres = s.kres; kbool = s.kbool; kclock =
    s.kclock; lastpop = s.lastpop; bad_order = s.bad_order; bad_head =
    s.bad_head; bad_val = ((||) s.bad_val b); bad_mem = s.bad_mem }

(** val s_bmem : bool -> st -> st **)

let s_bmem b s =
  { nodes = s.nodes; nn = s.nn; head = s.head; tail = s.tail; p = s.p; kp =
    s.kp; kn = s.kn; kx = s.kx; kres = s.kres; kbool = s.kbool; kclock =
    s.kclock; lastpop = s.lastpop; bad_order = s.bad_order; bad_head =
    s.bad_head; bad_val = s.bad_val; bad_mem = ((||) s.bad_mem b) }

(** val deref : nat list -> st -> st **)

let deref l s =
  s_bmem (existsb (fun n -> (s.nodes n).freed) l) s

(** val modn : nat -> (node -> node) -> st -> st **)

let modn n f s =
  s_nodes (upd s.nodes n (f (s.nodes n))) s

(** val fresh : nat -> nat -> node **)

let fresh h p0 =
  { nprev = None; nnext = None; nval = true; nlink = true; refs = (S (S O));
    freed = false; stage = (S (S O)); inch = true; gpred = h; cons = O;
    byrem = false; ret = false; hnd = true; own = p0 }

type action =
| Push of nat
| PStep of nat
| Pop
| PopIf
| Peek
| IsEmpty
| Remove of nat
| DropH of nat
| IsLink of nat
| KStep of bool

(** val has_handle : st -> nat -> bool **)

let has_handle s n =
  (&&) (s.nodes n).ret (s.nodes n).hnd

(** val step : st -> action -> st option **)

let step s = function
| Push p0 ->
  (match (s.p p0).qp with
   | QIdle ->
     Some
       (s_P
         (upd s.p p0 { qp = Q0; qn = O; qprev = O; qempty = false; qclk = O;
           qhead = false }) s)
   | _ -> None)
| PStep p0 ->
  let x = s.p p0 in
  (match x.qp with
   | QIdle -> None
   | Q0 ->
     let n = s.nn in
     Some
     (s_P
       (upd s.p p0 { qp = Q1; qn = n; qprev = s.head; qempty =
         (Nat.eqb s.head s.tail); qclk = s.kclock; qhead = false })
       (s_alloc n (s_nodes (upd s.nodes n (fresh s.head p0)) s)))
   | Q1 ->
     Some
       (s_P
         (upd s.p p0 { qp = Q2; qn = x.qn; qprev = x.qprev; qempty =
           x.qempty; qclk = x.qclk; qhead = x.qhead })
         (modn x.qn (fun d -> w_stage (S O) (w_prev (Some x.qprev) d))
           (deref (x.qn :: []) s)))
   | Q2 ->
     let nd = s.nodes x.qn in
     let flag = Nat.eqb s.tail x.qprev in
     let fresh0 = Nat.eqb nd.cons O in
     let claimA = implb ((&&) x.qempty fresh0) flag in
     let claimC =
       implb flag ((&&) ((&&) fresh0 nd.inch) (Nat.eqb nd.gpred s.tail))
     in
     let claimD = implb (Nat.eqb x.qclk s.kclock) (eqb flag x.qempty) in
     Some
     (s_P
       (upd s.p p0 { qp = Q3; qn = x.qn; qprev = x.qprev; qempty = x.qempty;
         qclk = x.qclk; qhead = flag })
       (s_bhead (negb ((&&) ((&&) claimA claimC) claimD))
         (deref (x.qprev :: []) s)))
   | Q3 ->
     Some
       (s_P
         (upd s.p p0 { qp = QIdle; qn = x.qn; qprev = x.qprev; qempty =
           x.qempty; qclk = x.qclk; qhead = x.qhead })
         (modn x.qn (fun d -> w_ret true (w_stage O d))
           (modn x.qprev (w_next (Some x.qn)) (deref (x.qprev :: []) s)))))
| Pop -> (match s.kp with
          | KIdle -> Some (s_k (KP0 false) O O s)
          | _ -> None)
| PopIf -> (match s.kp with
            | KIdle -> Some (s_k (KP0 true) O O s)
            | _ -> None)
| Peek -> (match s.kp with
           | KIdle -> Some (s_k KK0 O O s)
           | _ -> None)
| IsEmpty -> (match s.kp with
              | KIdle -> Some (s_k KE0 O O s)
              | _ -> None)
| Remove n ->
  (match s.kp with
   | KIdle ->
     if has_handle s n
     then let nd = s.nodes n in
          if (&&) nd.nlink
               (match nd.nprev with
                | Some _ -> true
                | None -> false)
          then Some (s_k KR1 n O (deref (n :: []) s))
          else Some
                 (s_res None
                   (s_k KIdle O O (modn n w_drop (deref (n :: []) s))))
     else None
   | _ -> None)
| DropH n ->
  (match s.kp with
   | KIdle ->
     if has_handle s n
     then Some (s_k KIdle O O (modn n w_drop (deref (n :: []) s)))
     else None
   | _ -> None)
| IsLink n ->
  (match s.kp with
   | KIdle ->
     if has_handle s n
     then Some (s_bool (s.nodes n).nlink (s_k KIdle O O (deref (n :: []) s)))
     else None
   | _ -> None)
| KStep yes ->
  (match s.kp with
   | KIdle -> None
   | KP0 pi ->
     if Nat.eqb s.head s.tail
     then Some (s_res None (s_k KIdle O O s))
     else if pi
          then Some (s_k (KP1 true) O O s)
          else Some
                 (s_k (KP1 false) O O
                   (modn s.tail (w_link false)
                     (s_bmem (Nat.eqb (s.nodes s.tail).refs O)
                       (deref (s.tail :: []) s))))
   | KP1 pi ->
     (match (s.nodes s.tail).nnext with
      | Some x ->
        if pi
        then let s1 =
               s_bval ((||) (s.nodes s.tail).nval (negb (s.nodes x).nval))
                 (deref (s.tail :: (x :: [])) s)
             in
             if yes
             then Some (s_k KP2 x O s1)
             else Some (s_res None (s_k KIdle O O s1))
        else Some (s_k KP2 x O (deref (s.tail :: []) s))
      | None -> Some (s_k (KP1 pi) O O (deref (s.tail :: []) s)))
   | KP2 ->
     let x = s.kn in
     let t = s.tail in
     let s1 =
       s_bval ((||) (s.nodes t).nval (negb (s.nodes x).nval))
         (s_bmem (Nat.eqb (s.nodes t).refs O) (deref (t :: (x :: [])) s))
     in
     Some
     (s_res (Some x)
       (s_k KIdle O O
         (s_tail x (Nat.leb x s.lastpop)
           (modn x (fun d -> w_take false (w_prev None d))
             (modn t w_unchain s1)))))
   | KK0 ->
     if Nat.eqb s.head s.tail
     then Some (s_res None (s_k KIdle O O s))
     else Some (s_k KK1 O O s)
   | KK1 ->
     (match (s.nodes s.tail).nnext with
      | Some x ->
        Some
          (s_res (Some x)
            (s_k KIdle O O
              (s_bval ((||) (s.nodes s.tail).nval (negb (s.nodes x).nval))
                (deref (s.tail :: (x :: [])) s))))
      | None -> Some (s_k KK1 O O (deref (s.tail :: []) s)))
   | KE0 -> Some (s_bool (Nat.eqb s.head s.tail) (s_k KIdle O O s))
   | KR1 ->
     let n = s.kn in
     (match (s.nodes n).nnext with
      | Some x -> Some (s_k KR2 n x (deref (n :: []) s))
      | None ->
        Some (s_res None (s_k KIdle O O (modn n w_drop (deref (n :: []) s)))))
   | KR2 ->
     let n = s.kn in
     let x = s.kx in
     (match (s.nodes n).nprev with
      | Some pr ->
        let s1 =
          s_bval (negb (s.nodes n).nval) (deref (n :: (pr :: (x :: []))) s)
        in
        Some
        (s_res (Some n)
          (s_k KIdle O O
            (modn pr (w_next (Some x))
              (modn x (fun d -> w_gpred pr (w_prev (Some pr) d))
                (modn n (fun d -> w_drop (w_take true (w_unchain d))) s1)))))
      | None -> None))

(** val stub : node **)

let stub =
  { nprev = None; nnext = None; nval = false; nlink = false; refs = (S O);
    freed = false; stage = O; inch = true; gpred = O; cons = O; byrem =
    false; ret = false; hnd = false; own = O }

(** val unalloc : node **)

let unalloc =
  { nprev = None; nnext = None; nval = false; nlink = false; refs = O;
    freed = false; stage = O; inch = false; gpred = O; cons = O; byrem =
    false; ret = false; hnd = false; own = O }

(** val init : st **)

let init =
  { nodes = (fun n -> if Nat.eqb n O then stub else unalloc); nn = (S O);
    head = O; tail = O; p = (fun _ -> { qp = QIdle; qn = O; qprev = O;
    qempty = false; qclk = O; qhead = false }); kp = KIdle; kn = O; kx = O;
    kres = None; kbool = false; kclock = O; lastpop = O; bad_order = false;
    bad_head = false; bad_val = false; bad_mem = false }

(** val monitors_ok : st -> bool **)

let monitors_ok s =
  (&&) ((&&) ((&&) (negb s.bad_order) (negb s.bad_head)) (negb s.bad_val))
    (negb s.bad_mem)

type ast = { ms : st; addr : (nat -> z); nobj : (nat -> z); hobj : z;
             tobj : z; tag : (nat -> z); ptag : (nat -> z);
             pcall : (nat -> bool); thr : z; kact : z; kcall : z }

(** val with_ms : ast -> st -> ast **)

let with_ms a s =
  { ms = s; addr = a.addr; nobj = a.nobj; hobj = a.hobj; tobj = a.tobj; tag =
    a.tag; ptag = a.ptag; pcall = a.pcall; thr = a.thr; kact = a.kact;
    kcall = a.kcall }

(** val set_addr : ast -> nat -> z -> ast **)

let set_addr a n v =
  { ms = a.ms; addr = (upd a.addr n v); nobj = a.nobj; hobj = a.hobj; tobj =
    a.tobj; tag = a.tag; ptag = a.ptag; pcall = a.pcall; thr = a.thr; kact =
    a.kact; kcall = a.kcall }

(** val set_nobj : ast -> nat -> z -> ast **)

let set_nobj a n v =
  { ms = a.ms; addr = a.addr; nobj = (upd a.nobj n v); hobj = a.hobj; tobj =
    a.tobj; tag = a.tag; ptag = a.ptag; pcall = a.pcall; thr = a.thr; kact =
    a.kact; kcall = a.kcall }

(** val set_hobj : ast -> z -> ast **)

let set_hobj a v =
  { ms = a.ms; addr = a.addr; nobj = a.nobj; hobj = v; tobj = a.tobj; tag =
    a.tag; ptag = a.ptag; pcall = a.pcall; thr = a.thr; kact = a.kact;
    kcall = a.kcall }

(** val set_tobj : ast -> z -> ast **)

let set_tobj a v =
  { ms = a.ms; addr = a.addr; nobj = a.nobj; hobj = a.hobj; tobj = v; tag =
    a.tag; ptag = a.ptag; pcall = a.pcall; thr = a.thr; kact = a.kact;
    kcall = a.kcall }

(** val set_tag : ast -> nat -> z -> ast **)

let set_tag a n v =
  { ms = a.ms; addr = a.addr; nobj = a.nobj; hobj = a.hobj; tobj = a.tobj;
    tag = (upd a.tag n v); ptag = a.ptag; pcall = a.pcall; thr = a.thr;
    kact = a.kact; kcall = a.kcall }

(** val set_push : ast -> nat -> z -> bool -> ast **)

let set_push a p0 v b =
  { ms = a.ms; addr = a.addr; nobj = a.nobj; hobj = a.hobj; tobj = a.tobj;
    tag = a.tag; ptag = (upd a.ptag p0 v); pcall = (upd a.pcall p0 b); thr =
    a.thr; kact = a.kact; kcall = a.kcall }

(** val set_thr : ast -> z -> ast **)

let set_thr a v =
  { ms = a.ms; addr = a.addr; nobj = a.nobj; hobj = a.hobj; tobj = a.tobj;
    tag = a.tag; ptag = a.ptag; pcall = a.pcall; thr = v; kact = a.kact;
    kcall = a.kcall }

(** val set_kact : ast -> z -> ast **)

let set_kact a v =
  { ms = a.ms; addr = a.addr; nobj = a.nobj; hobj = a.hobj; tobj = a.tobj;
    tag = a.tag; ptag = a.ptag; pcall = a.pcall; thr = a.thr; kact = v;
    kcall = a.kcall }

(** val set_kcall : ast -> z -> ast **)

let set_kcall a v =
  { ms = a.ms; addr = a.addr; nobj = a.nobj; hobj = a.hobj; tobj = a.tobj;
    tag = a.tag; ptag = a.ptag; pcall = a.pcall; thr = a.thr; kact = a.kact;
    kcall = v }

(** val a_init : ast **)

let a_init =
  { ms = init; addr = (fun _ -> Z0); nobj = (fun _ -> Z0); hobj = Z0; tobj =
    Z0; tag = (fun _ -> Z0); ptag = (fun _ -> Z0); pcall = (fun _ -> false);
    thr = Z0; kact = Z0; kcall = Z0 }

type k = ast -> ast option

(** val kseq : k -> k -> k **)

let kseq f g a =
  match f a with
  | Some a' -> g a'
  | None -> None

(** val kguard : (ast -> bool) -> k **)

let kguard b a =
  if b a then Some a else None

(** val kstep : (ast -> action) -> k **)

let kstep act a =
  match step a.ms (act a) with
  | Some s' -> Some (with_ms a s')
  | None -> None

(** val kfail : k **)

let kfail _ =
  None

(** val ppc_eqb : ppc -> ppc -> bool **)

let ppc_eqb a b =
  match a with
  | QIdle -> (match b with
              | QIdle -> true
              | _ -> false)
  | Q0 -> (match b with
           | Q0 -> true
           | _ -> false)
  | Q1 -> (match b with
           | Q1 -> true
           | _ -> false)
  | Q2 -> (match b with
           | Q2 -> true
           | _ -> false)
  | Q3 -> (match b with
           | Q3 -> true
           | _ -> false)

(** val kpc_eqb : kpc -> kpc -> bool **)

let kpc_eqb a b =
  match a with
  | KIdle -> (match b with
              | KIdle -> true
              | _ -> false)
  | KP0 x -> (match b with
              | KP0 y -> eqb x y
              | _ -> false)
  | KP1 x -> (match b with
              | KP1 y -> eqb x y
              | _ -> false)
  | KP2 -> (match b with
            | KP2 -> true
            | _ -> false)
  | KK0 -> (match b with
            | KK0 -> true
            | _ -> false)
  | KK1 -> (match b with
            | KK1 -> true
            | _ -> false)
  | KE0 -> (match b with
            | KE0 -> true
            | _ -> false)
  | KR1 -> (match b with
            | KR1 -> true
            | _ -> false)
  | KR2 -> (match b with
            | KR2 -> true
            | _ -> false)

(** val at_q : nat -> ppc -> k **)

let at_q p0 q =
  kguard (fun a -> ppc_eqb (a.ms.p p0).qp q)

(** val at_k : kpc -> k **)

let at_k k0 =
  kguard (fun a -> kpc_eqb a.ms.kp k0)

(** val znz : z -> bool **)

let znz v =
  negb (Z.eqb v Z0)

(** val fresh_in : ast -> (nat -> z) -> nat -> z -> bool **)

let fresh_in a m n v =
  forallb (fun k0 ->
    (||) ((||) (Nat.eqb k0 n) (a.ms.nodes k0).freed) (negb (Z.eqb (m k0) v)))
    (seq O a.ms.nn)

(** val k_addr : (ast -> nat) -> z -> k **)

let k_addr node0 v a =
  let n = node0 a in
  if Z.eqb v Z0
  then None
  else if Z.eqb (a.addr n) Z0
       then if fresh_in a a.addr n v then Some (set_addr a n v) else None
       else if Z.eqb (a.addr n) v then Some a else None

(** val k_nobj : (ast -> nat) -> z -> k **)

let k_nobj node0 o a =
  let n = node0 a in
  if Z.eqb o Z0
  then None
  else if Z.eqb (a.nobj n) Z0
       then if fresh_in a a.nobj n o then Some (set_nobj a n o) else None
       else if Z.eqb (a.nobj n) o then Some a else None

(** val k_hobj : z -> k **)

let k_hobj o a =
  if Z.eqb a.hobj Z0
  then Some (set_hobj a o)
  else if Z.eqb a.hobj o then Some a else None

(** val k_tobj : z -> k **)

let k_tobj o a =
  if Z.eqb a.tobj Z0
  then Some (set_tobj a o)
  else if Z.eqb a.tobj o then Some a else None

(** val k_optaddr : (ast -> nat option) -> z -> k **)

let k_optaddr node0 v a =
  match node0 a with
  | Some x -> k_addr (fun _ -> x) v a
  | None -> if Z.eqb v Z0 then Some a else None

(** val k_cons : z -> k **)

let k_cons actor a =
  if Z.eqb a.kact Z0
  then Some (set_kact a actor)
  else if Z.eqb a.kact actor then Some a else None

(** val in_call : z -> k **)

let in_call c =
  kguard (fun a -> Z.eqb a.kcall c)

(** val find_tag : ast -> z -> nat option **)

let find_tag a t =
  find (fun n -> Z.eqb (a.tag n) t) (seq (S O) (sub a.ms.nn (S O)))

(** val k_handle : z -> (nat -> action) -> k **)

let k_handle t act a =
  match find_tag a t with
  | Some n -> kstep (fun _ -> act n) a
  | None -> None

(** val k_result : z -> z -> k **)

let k_result some t =
  kguard (fun a ->
    match a.ms.kres with
    | Some x -> (&&) (znz some) (Z.eqb (a.tag x) t)
    | None -> Z.eqb some Z0)

(** val popif_pred : ast -> nat -> bool **)

let popif_pred a x =
  Z.leb (Z.modulo (a.tag x) (Zpos (XO (XO (XI (XO (XO (XI XH)))))))) a.thr

(** val accept_code : z -> z -> z -> z -> k **)

let accept_code c actor obj val0 =
  let p0 = Z.to_nat actor in
  if Z.eqb c (Zpos XH)
  then kseq (at_q p0 QIdle)
         (kseq (kguard (fun a -> (&&) (negb (a.pcall p0)) (znz val0)))
           (kseq (kstep (fun _ -> Push p0)) (fun a -> Some
             (set_push a p0 val0 true))))
  else if Z.eqb c (Zpos (XO (XO (XI (XO XH)))))
       then kseq (at_q p0 Q0)
              (kseq (k_hobj obj)
                (kseq (k_addr (fun a -> a.ms.head) val0)
                  (kseq (fun a -> Some (set_tag a a.ms.nn (a.ptag p0)))
                    (kstep (fun _ -> PStep p0)))))
       else if Z.eqb c (Zpos (XO (XI (XO (XO (XO XH))))))
            then kseq (at_q p0 Q1)
                   (kseq (k_addr (fun a -> (a.ms.p p0).qprev) val0)
                     (kstep (fun _ -> PStep p0)))
            else if Z.eqb c (Zpos (XO (XI (XI (XO XH)))))
                 then kseq (at_q p0 Q2)
                        (kseq (k_tobj obj) (kstep (fun _ -> PStep p0)))
                 else if Z.eqb c (Zpos (XI (XO (XI (XO XH)))))
                      then kseq (at_q p0 Q3)
                             (kseq (k_nobj (fun a -> (a.ms.p p0).qprev) obj)
                               (kseq (k_addr (fun a -> (a.ms.p p0).qn) val0)
                                 (kstep (fun _ -> PStep p0))))
                      else if Z.eqb c (Zpos (XO XH))
                           then kseq (at_q p0 QIdle)
                                  (kseq
                                    (kguard (fun a ->
                                      (&&) (a.pcall p0)
                                        (eqb (a.ms.p p0).qhead (znz obj))))
                                    (kseq
                                      (k_addr (fun a -> (a.ms.p p0).qn) val0)
                                      (fun a -> Some
                                      (set_push a p0 Z0 false))))
                           else if Z.eqb c (Zpos (XI XH))
                                then kseq (k_cons actor)
                                       (kseq (in_call Z0)
                                         (kseq (kstep (fun _ -> Pop))
                                           (fun a -> Some
                                           (set_kcall a (Zpos (XI XH))))))
                                else if Z.eqb c (Zpos (XI (XO XH)))
                                     then kseq (k_cons actor)
                                            (kseq (in_call Z0)
                                              (kseq (kstep (fun _ -> PopIf))
                                                (fun a -> Some
                                                (set_kcall (set_thr a val0)
                                                  (Zpos (XI (XO XH)))))))
                                     else if Z.eqb c (Zpos (XI (XI XH)))
                                          then kseq (k_cons actor)
                                                 (kseq (in_call Z0)
                                                   (kseq
                                                     (kstep (fun _ -> Peek))
                                                     (fun a -> Some
                                                     (set_kcall a (Zpos (XI
                                                       (XI XH)))))))
                                          else if Z.eqb c (Zpos (XI (XO (XO
                                                    XH))))
                                               then kseq (k_cons actor)
                                                      (kseq (in_call Z0)
                                                        (kseq
                                                          (kstep (fun _ ->
                                                            IsEmpty))
                                                          (fun a -> Some
                                                          (set_kcall a (Zpos
                                                            (XI (XO (XO
                                                            XH))))))))
                                               else if Z.eqb c (Zpos (XI (XI
                                                         (XO XH))))
                                                    then kseq (k_cons actor)
                                                           (kseq (in_call Z0)
                                                             (kseq
                                                               (k_handle val0
                                                                 (fun x ->
                                                                 Remove x))
                                                               (fun a -> Some
                                                               (set_kcall a
                                                                 (Zpos (XI
                                                                 (XI (XO
                                                                 XH))))))))
                                                    else if Z.eqb c (Zpos (XI
                                                              (XO (XI XH))))
                                                         then kseq
                                                                (k_cons actor)
                                                                (kseq
                                                                  (in_call Z0)
                                                                  (k_handle
                                                                    val0
                                                                    (fun x ->
                                                                    DropH x)))
                                                         else if Z.eqb c
                                                                   (Zpos (XO
                                                                   (XI (XI
                                                                   XH))))
                                                              then kseq
                                                                    (k_cons
                                                                    actor)
                                                                    (kseq
                                                                    (in_call
                                                                    Z0)
                                                                    (kseq
                                                                    (k_handle
                                                                    val0
                                                                    (fun x ->
                                                                    IsLink x))
                                                                    (fun a ->
                                                                    Some
                                                                    (set_kcall
                                                                    a (Zpos
                                                                    (XO (XI
                                                                    (XI
                                                                    XH))))))))
                                                              else if 
                                                                    Z.eqb c
                                                                    (Zpos (XO
                                                                    (XO XH)))
                                                                   then 
                                                                    kseq
                                                                    (k_cons
                                                                    actor)
                                                                    (kseq
                                                                    (in_call
                                                                    (Zpos (XI
                                                                    XH)))
                                                                    (kseq
                                                                    (at_k
                                                                    KIdle)
                                                                    (kseq
                                                                    (k_result
                                                                    obj val0)
                                                                    (fun a ->
                                                                    Some
                                                                    (set_kcall
                                                                    a Z0)))))
                                                                   else 
                                                                    if 
                                                                    Z.eqb c
                                                                    (Zpos (XO
                                                                    (XI XH)))
                                                                    then 
                                                                    kseq
                                                                    (k_cons
                                                                    actor)
                                                                    (kseq
                                                                    (in_call
                                                                    (Zpos (XI
                                                                    (XO XH))))
                                                                    (kseq
                                                                    (at_k
                                                                    KIdle)
                                                                    (kseq
                                                                    (k_result
                                                                    obj val0)
                                                                    (fun a ->
                                                                    Some
                                                                    (set_kcall
                                                                    a Z0)))))
                                                                    else 
                                                                    if 
                                                                    Z.eqb c
                                                                    (Zpos (XO
                                                                    (XO (XO
                                                                    XH))))
                                                                    then 
                                                                    kseq
                                                                    (k_cons
                                                                    actor)
                                                                    (kseq
                                                                    (in_call
                                                                    (Zpos (XI
                                                                    (XI XH))))
                                                                    (kseq
                                                                    (at_k
                                                                    KIdle)
                                                                    (kseq
                                                                    (k_result
                                                                    obj val0)
                                                                    (fun a ->
                                                                    Some
                                                                    (set_kcall
                                                                    a Z0)))))
                                                                    else 
                                                                    if 
                                                                    Z.eqb c
                                                                    (Zpos (XO
                                                                    (XI (XO
                                                                    XH))))
                                                                    then 
                                                                    kseq
                                                                    (k_cons
                                                                    actor)
                                                                    (kseq
                                                                    (in_call
                                                                    (Zpos (XI
                                                                    (XO (XO
                                                                    XH)))))
                                                                    (kseq
                                                                    (at_k
                                                                    KIdle)
                                                                    (kseq
                                                                    (kguard
                                                                    (fun a ->
                                                                    eqb
                                                                    a.ms.kbool
                                                                    (znz obj)))
                                                                    (fun a ->
                                                                    Some
                                                                    (set_kcall
                                                                    a Z0)))))
                                                                    else 
                                                                    if 
                                                                    Z.eqb c
                                                                    (Zpos (XO
                                                                    (XO (XI
                                                                    XH))))
                                                                    then 
                                                                    kseq
                                                                    (k_cons
                                                                    actor)
                                                                    (kseq
                                                                    (in_call
                                                                    (Zpos (XI
                                                                    (XI (XO
                                                                    XH)))))
                                                                    (kseq
                                                                    (at_k
                                                                    KIdle)
                                                                    (kseq
                                                                    (k_result
                                                                    obj val0)
                                                                    (fun a ->
                                                                    Some
                                                                    (set_kcall
                                                                    a Z0)))))
                                                                    else 
                                                                    if 
                                                                    Z.eqb c
                                                                    (Zpos (XI
                                                                    (XI (XI
                                                                    XH))))
                                                                    then 
                                                                    kseq
                                                                    (k_cons
                                                                    actor)
                                                                    (kseq
                                                                    (in_call
                                                                    (Zpos (XO
                                                                    (XI (XI
                                                                    XH)))))
                                                                    (kseq
                                                                    (at_k
                                                                    KIdle)
                                                                    (kseq
                                                                    (kguard
                                                                    (fun a ->
                                                                    eqb
                                                                    a.ms.kbool
                                                                    (znz obj)))
                                                                    (fun a ->
                                                                    Some
                                                                    (set_kcall
                                                                    a Z0)))))
                                                                    else 
                                                                    if 
                                                                    Z.eqb c
                                                                    (Zpos (XI
                                                                    (XI (XI
                                                                    (XO
                                                                    XH)))))
                                                                    then 
                                                                    kseq
                                                                    (k_cons
                                                                    actor)
                                                                    (kseq
                                                                    (in_call
                                                                    (Zpos (XI
                                                                    (XO (XO
                                                                    XH)))))
                                                                    (kseq
                                                                    (at_k KE0)
                                                                    (kseq
                                                                    (k_hobj
                                                                    obj)
                                                                    (kseq
                                                                    (k_addr
                                                                    (fun a ->
                                                                    a.ms.head)
                                                                    val0)
                                                                    (kstep
                                                                    (fun _ ->
                                                                    KStep
                                                                    false))))))
                                                                    else 
                                                                    if 
                                                                    Z.eqb c
                                                                    (Zpos (XO
                                                                    (XO (XO
                                                                    (XI
                                                                    XH)))))
                                                                    then 
                                                                    kseq
                                                                    (k_cons
                                                                    actor)
                                                                    (kseq
                                                                    (in_call
                                                                    (Zpos (XI
                                                                    (XI XH))))
                                                                    (kseq
                                                                    (at_k KK0)
                                                                    (kseq
                                                                    (k_hobj
                                                                    obj)
                                                                    (kseq
                                                                    (k_addr
                                                                    (fun a ->
                                                                    a.ms.head)
                                                                    val0)
                                                                    (kstep
                                                                    (fun _ ->
                                                                    KStep
                                                                    false))))))
                                                                    else 
                                                                    if 
                                                                    Z.eqb c
                                                                    (Zpos (XI
                                                                    (XO (XO
                                                                    (XI
                                                                    XH)))))
                                                                    then 
                                                                    kseq
                                                                    (k_cons
                                                                    actor)
                                                                    (kseq
                                                                    (in_call
                                                                    (Zpos (XI
                                                                    (XI XH))))
                                                                    (kseq
                                                                    (at_k KK1)
                                                                    (kseq
                                                                    (k_nobj
                                                                    (fun a ->
                                                                    a.ms.tail)
                                                                    obj)
                                                                    (kseq
                                                                    (k_optaddr
                                                                    (fun a ->
                                                                    (a.ms.nodes
                                                                    a.ms.tail).nnext)
                                                                    val0)
                                                                    (kstep
                                                                    (fun _ ->
                                                                    KStep
                                                                    false))))))
                                                                    else 
                                                                    if 
                                                                    Z.eqb c
                                                                    (Zpos (XO
                                                                    (XI (XO
                                                                    (XI
                                                                    XH)))))
                                                                    then 
                                                                    kseq
                                                                    (k_cons
                                                                    actor)
                                                                    (kseq
                                                                    (in_call
                                                                    (Zpos (XI
                                                                    (XO XH))))
                                                                    (kseq
                                                                    (at_k
                                                                    (KP0
                                                                    true))
                                                                    (kseq
                                                                    (k_hobj
                                                                    obj)
                                                                    (kseq
                                                                    (k_addr
                                                                    (fun a ->
                                                                    a.ms.head)
                                                                    val0)
                                                                    (kstep
                                                                    (fun _ ->
                                                                    KStep
                                                                    false))))))
                                                                    else 
                                                                    if 
                                                                    Z.eqb c
                                                                    (Zpos (XI
                                                                    (XI (XO
                                                                    (XI
                                                                    XH)))))
                                                                    then 
                                                                    kseq
                                                                    (k_cons
                                                                    actor)
                                                                    (kseq
                                                                    (in_call
                                                                    (Zpos (XI
                                                                    (XO XH))))
                                                                    (kseq
                                                                    (at_k
                                                                    (KP1
                                                                    true))
                                                                    (kseq
                                                                    (k_nobj
                                                                    (fun a ->
                                                                    a.ms.tail)
                                                                    obj)
                                                                    (kseq
                                                                    (k_optaddr
                                                                    (fun a ->
                                                                    (a.ms.nodes
                                                                    a.ms.tail).nnext)
                                                                    val0)
                                                                    (kstep
                                                                    (fun a ->
                                                                    KStep
                                                                    (match 
                                                                    (a.ms.nodes
                                                                    a.ms.tail).nnext with
                                                                    | Some x ->
                                                                    popif_pred
                                                                    a x
                                                                    | None ->
                                                                    false)))))))
                                                                    else 
                                                                    if 
                                                                    Z.eqb c
                                                                    (Zpos (XO
                                                                    (XO (XI
                                                                    (XI
                                                                    XH)))))
                                                                    then 
                                                                    kseq
                                                                    (k_cons
                                                                    actor)
                                                                    (kseq
                                                                    (in_call
                                                                    (Zpos (XI
                                                                    (XO XH))))
                                                                    (kseq
                                                                    (at_k KP2)
                                                                    (kseq
                                                                    (k_tobj
                                                                    obj)
                                                                    (kseq
                                                                    (k_addr
                                                                    (fun a ->
                                                                    a.ms.kn)
                                                                    val0)
                                                                    (kstep
                                                                    (fun _ ->
                                                                    KStep
                                                                    false))))))
                                                                    else 
                                                                    if 
                                                                    Z.eqb c
                                                                    (Zpos (XI
                                                                    (XO (XI
                                                                    (XI
                                                                    XH)))))
                                                                    then 
                                                                    kseq
                                                                    (k_cons
                                                                    actor)
                                                                    (kseq
                                                                    (in_call
                                                                    (Zpos (XI
                                                                    XH)))
                                                                    (kseq
                                                                    (at_k
                                                                    (KP0
                                                                    false))
                                                                    (kseq
                                                                    (k_hobj
                                                                    obj)
                                                                    (kseq
                                                                    (k_addr
                                                                    (fun a ->
                                                                    a.ms.head)
                                                                    val0)
                                                                    (kstep
                                                                    (fun _ ->
                                                                    KStep
                                                                    false))))))
                                                                    else 
                                                                    if 
                                                                    Z.eqb c
                                                                    (Zpos (XO
                                                                    (XI (XI
                                                                    (XI
                                                                    XH)))))
                                                                    then 
                                                                    kseq
                                                                    (k_cons
                                                                    actor)
                                                                    (kseq
                                                                    (in_call
                                                                    (Zpos (XI
                                                                    XH)))
                                                                    (kseq
                                                                    (at_k
                                                                    (KP1
                                                                    false))
                                                                    (kseq
                                                                    (k_nobj
                                                                    (fun a ->
                                                                    a.ms.tail)
                                                                    obj)
                                                                    (kseq
                                                                    (k_optaddr
                                                                    (fun a ->
                                                                    (a.ms.nodes
                                                                    a.ms.tail).nnext)
                                                                    val0)
                                                                    (kstep
                                                                    (fun _ ->
                                                                    KStep
                                                                    false))))))
                                                                    else 
                                                                    if 
                                                                    Z.eqb c
                                                                    (Zpos (XI
                                                                    (XI (XI
                                                                    (XI
                                                                    XH)))))
                                                                    then 
                                                                    kseq
                                                                    (k_cons
                                                                    actor)
                                                                    (kseq
                                                                    (in_call
                                                                    (Zpos (XI
                                                                    XH)))
                                                                    (kseq
                                                                    (at_k KP2)
                                                                    (kseq
                                                                    (k_tobj
                                                                    obj)
                                                                    (kseq
                                                                    (k_addr
                                                                    (fun a ->
                                                                    a.ms.kn)
                                                                    val0)
                                                                    (kstep
                                                                    (fun _ ->
                                                                    KStep
                                                                    false))))))
                                                                    else 
                                                                    if 
                                                                    Z.eqb c
                                                                    (Zpos (XO
                                                                    (XO (XO
                                                                    (XO (XO
                                                                    XH))))))
                                                                    then 
                                                                    kseq
                                                                    (k_cons
                                                                    actor)
                                                                    (kseq
                                                                    (in_call
                                                                    (Zpos (XI
                                                                    (XI (XO
                                                                    XH)))))
                                                                    (kseq
                                                                    (at_k KR1)
                                                                    (kseq
                                                                    (k_nobj
                                                                    (fun a ->
                                                                    a.ms.kn)
                                                                    obj)
                                                                    (kseq
                                                                    (k_optaddr
                                                                    (fun a ->
                                                                    (a.ms.nodes
                                                                    a.ms.kn).nnext)
                                                                    val0)
                                                                    (kstep
                                                                    (fun _ ->
                                                                    KStep
                                                                    false))))))
                                                                    else 
                                                                    if 
                                                                    Z.eqb c
                                                                    (Zpos (XI
                                                                    (XO (XO
                                                                    (XO (XO
                                                                    XH))))))
                                                                    then 
                                                                    kseq
                                                                    (k_cons
                                                                    actor)
                                                                    (kseq
                                                                    (in_call
                                                                    (Zpos (XI
                                                                    (XI (XO
                                                                    XH)))))
                                                                    (kseq
                                                                    (at_k KR2)
                                                                    (kseq
                                                                    (fun a ->
                                                                    match 
                                                                    (a.ms.nodes
                                                                    a.ms.kn).nprev with
                                                                    | Some pr ->
                                                                    k_nobj
                                                                    (fun _ ->
                                                                    pr) obj a
                                                                    | None ->
                                                                    None)
                                                                    (kseq
                                                                    (k_addr
                                                                    (fun a ->
                                                                    a.ms.kx)
                                                                    val0)
                                                                    (kstep
                                                                    (fun _ ->
                                                                    KStep
                                                                    false))))))
                                                                    else kfail

(** val accept_ev : ast -> z list -> ast option **)

let accept_ev a = function
| [] -> None
| c :: l ->
  (match l with
   | [] -> None
   | actor :: l0 ->
     (match l0 with
      | [] -> None
      | obj :: l1 ->
        (match l1 with
         | [] -> None
         | val0 :: l2 ->
           (match l2 with
            | [] -> accept_code c actor obj val0 a
            | _ :: _ -> None))))

(** val a_final : ast -> bool **)

let a_final a =
  (&&) (monitors_ok a.ms) (Z.eqb a.kcall Z0)

(** val m_init : ast **)

let m_init =
  a_init

(** val m_accept : ast -> z list -> ast option **)

let m_accept =
  accept_ev

(** val m_final : ast -> bool **)

let m_final =
  a_final
