
(** val implb : bool -> bool -> bool **)

let implb b1 b2 =
  if b1 then b2 else true

(** val negb : bool -> bool **)

let negb = function
| true -> false
| false -> true

type nat =
| O
| S of nat

(** val app : 'a1 list -> 'a1 list -> 'a1 list **)

let rec app l m =
  match l with
  | [] -> m
  | a0 :: l1 -> a0 :: (app l1 m)

type comparison =
| Eq
| Lt
| Gt

(** val compOpp : comparison -> comparison **)

let compOpp = function
| Eq -> Eq
| Lt -> Gt
| Gt -> Lt

(** val add : nat -> nat -> nat **)

let rec add n m =
  match n with
  | O -> m
  | S p -> S (add p m)

(** val sub : nat -> nat -> nat **)

let rec sub n m =
  match n with
  | O -> n
  | S k -> (match m with
            | O -> n
            | S l -> sub k l)

(** val eqb : bool -> bool -> bool **)

let eqb b1 b2 =
  if b1 then b2 else if b2 then false else true

module Nat =
 struct
  (** val pred : nat -> nat **)

  let pred n = match n with
  | O -> n
  | S u -> u

  (** val eqb : nat -> nat -> bool **)

  let rec eqb n m =
    match n with
    | O -> (match m with
            | O -> true
            | S _ -> false)
    | S n' -> (match m with
               | O -> false
               | S m' -> eqb n' m')

  (** val leb : nat -> nat -> bool **)

  let rec leb n m =
    match n with
    | O -> true
    | S n' -> (match m with
               | O -> false
               | S m' -> leb n' m')

  (** val ltb : nat -> nat -> bool **)

  let ltb n m =
    leb (S n) m

  (** val eq_dec : nat -> nat -> bool **)

  let rec eq_dec n m =
    match n with
    | O -> (match m with
            | O -> true
            | S _ -> false)
    | S n0 -> (match m with
               | O -> false
               | S n1 -> eq_dec n0 n1)
 end

(** val remove : ('a1 -> 'a1 -> bool) -> 'a1 -> 'a1 list -> 'a1 list **)

let rec remove eq_dec0 x = function
| [] -> []
| y :: tl ->
  if eq_dec0 x y then remove eq_dec0 x tl else y :: (remove eq_dec0 x tl)

(** val existsb : ('a1 -> bool) -> 'a1 list -> bool **)

let rec existsb f = function
| [] -> false
| a0 :: l0 -> (||) (f a0) (existsb f l0)

type positive =
| XI of positive
| XO of positive
| XH

type z =
| Z0
| Zpos of positive
| Zneg of positive

module Pos =
 struct
  (** val succ : positive -> positive **)

  let rec succ = function
  | XI p -> XO (succ p)
  | XO p -> XI p
  | XH -> XO XH

  (** val compare_cont : comparison -> positive -> positive -> comparison **)

  let rec compare_cont r x y =
    match x with
    | XI p ->
      (match y with
       | XI q0 -> compare_cont r p q0
       | XO q0 -> compare_cont Gt p q0
       | XH -> Gt)
    | XO p ->
      (match y with
       | XI q0 -> compare_cont Lt p q0
       | XO q0 -> compare_cont r p q0
       | XH -> Gt)
    | XH -> (match y with
             | XH -> r
             | _ -> Lt)

  (** val compare : positive -> positive -> comparison **)

  let compare =
    compare_cont Eq

  (** val eqb : positive -> positive -> bool **)

  let rec eqb p q0 =
    match p with
    | XI p0 -> (match q0 with
                | XI q1 -> eqb p0 q1
                | _ -> false)
    | XO p0 -> (match q0 with
                | XO q1 -> eqb p0 q1
                | _ -> false)
    | XH -> (match q0 with
             | XH -> true
             | _ -> false)

  (** val iter_op : ('a1 -> 'a1 -> 'a1) -> positive -> 'a1 -> 'a1 **)

  let rec iter_op op p a0 =
    match p with
    | XI p0 -> op a0 (iter_op op p0 (op a0 a0))
    | XO p0 -> iter_op op p0 (op a0 a0)
    | XH -> a0

  (** val to_nat : positive -> nat **)

  let to_nat x =
    iter_op add x (S O)

  (** val of_succ_nat : nat -> positive **)

  let rec of_succ_nat = function
  | O -> XH
  | S x -> succ (of_succ_nat x)
 end

module Z =
 struct
  (** val compare : z -> z -> comparison **)

  let compare x y =
    match x with
    | Z0 -> (match y with
             | Z0 -> Eq
             | Zpos _ -> Lt
             | Zneg _ -> Gt)
    | Zpos x' -> (match y with
                  | Zpos y' -> Pos.compare x' y'
                  | _ -> Gt)
    | Zneg x' ->
      (match y with
       | Zneg y' -> compOpp (Pos.compare x' y')
       | _ -> Lt)

  (** val leb : z -> z -> bool **)

  let leb x y =
    match compare x y with
    | Gt -> false
    | _ -> true

  (** val eqb : z -> z -> bool **)

  let eqb x y =
    match x with
    | Z0 -> (match y with
             | Z0 -> true
             | _ -> false)
    | Zpos p -> (match y with
                 | Zpos q0 -> Pos.eqb p q0
                 | _ -> false)
    | Zneg p -> (match y with
                 | Zneg q0 -> Pos.eqb p q0
                 | _ -> false)

  (** val to_nat : z -> nat **)

  let to_nat = function
  | Zpos p -> Pos.to_nat p
  | _ -> O

  (** val of_nat : nat -> z **)

  let of_nat = function
  | O -> Z0
  | S n0 -> Zpos (Pos.of_succ_nat n0)
 end

type pc =
| Idle
| T0
| L0
| L1
| L2
| H1
| H2
| H3
| H3w
| H4
| U0
| P
| P1
| P2
| W
| C1
| C2
| C3
| C4
| CS
| CSw
| Exit

type ctx =
| RPark
| RDone
| RExit

type rsn =
| RU
| RC

type hold =
| HNone
| HA of nat
| HB of nat

type act = { apc : pc; ab : nat; aw : nat; actx : ctx; afor : nat;
             aign : bool; acanc : bool; aloc : nat }

type blk = { tok : bool; parked : bool; reason : rsn option; unp : bool;
             rel : bool; owner : nat; ag : nat }

type st = { cnt : nat; q : nat list; nextb : nat; a : (nat -> act);
            bk : (nat -> blk); holder : hold; ent : nat list; data : 
            nat; nwr : nat }

(** val upd : (nat -> 'a1) -> nat -> 'a1 -> nat -> 'a1 **)

let upd f i v j =
  if Nat.eqb j i then v else f j

type action =
| Start of nat * bool
| StartTry of nat
| Step of nat
| Park of nat
| Kick of nat
| Cancel of nat
| CKick of nat
| Read of nat
| Write of nat

(** val set_pc : act -> pc -> act **)

let set_pc x p =
  { apc = p; ab = x.ab; aw = x.aw; actx = x.actx; afor = x.afor; aign =
    x.aign; acanc = x.acanc; aloc = x.aloc }

(** val ret_pc : ctx -> pc **)

let ret_pc = function
| RPark -> P
| RDone -> Idle
| RExit -> Exit

(** val fresh : nat -> blk **)

let fresh o =
  { tok = false; parked = false; reason = None; unp = false; rel = false;
    owner = o; ag = O }

(** val mk :
    nat -> nat list -> nat -> (nat -> act) -> (nat -> blk) -> hold -> nat
    list -> nat -> nat -> st **)

let mk c q' n a' b' h e d w =
  { cnt = c; q = q'; nextb = n; a = a'; bk = b'; holder = h; ent = e; data =
    d; nwr = w }

(** val setA : st -> (nat -> act) -> st **)

let setA s a' =
  mk s.cnt s.q s.nextb a' s.bk s.holder s.ent s.data s.nwr

(** val setAB : st -> (nat -> act) -> (nat -> blk) -> st **)

let setAB s a' b' =
  mk s.cnt s.q s.nextb a' b' s.holder s.ent s.data s.nwr

(** val setABH : st -> (nat -> act) -> (nat -> blk) -> hold -> st **)

let setABH s a' b' h =
  mk s.cnt s.q s.nextb a' b' h s.ent s.data s.nwr

(** val step : (nat -> bool) -> st -> action -> st option **)

let step isco s = function
| Start (a0, ign) ->
  let x = s.a a0 in
  (match x.apc with
   | Idle ->
     Some
       (setA s
         (upd s.a a0 { apc = L0; ab = x.ab; aw = x.aw; actx = x.actx; afor =
           x.afor; aign = ign; acanc = x.acanc; aloc = x.aloc }))
   | _ -> None)
| StartTry a0 ->
  let x = s.a a0 in
  (match x.apc with
   | Idle -> Some (setA s (upd s.a a0 (set_pc x T0)))
   | _ -> None)
| Step a0 ->
  let x = s.a a0 in
  let b = s.bk x.ab in
  let w = s.bk x.aw in
  (match x.apc with
   | T0 ->
     if Nat.eqb s.cnt O
     then Some
            (mk (S O) s.q s.nextb (upd s.a a0 (set_pc x CS)) s.bk (HA a0)
              (a0 :: s.ent) s.data s.nwr)
     else Some (setA s (upd s.a a0 (set_pc x Idle)))
   | L0 ->
     if Nat.eqb s.cnt O
     then Some
            (mk (S O) s.q s.nextb (upd s.a a0 (set_pc x CS)) s.bk (HA a0)
              (a0 :: s.ent) s.data s.nwr)
     else Some (setA s (upd s.a a0 (set_pc x L1)))
   | L1 ->
     let n = s.nextb in
     Some
     (mk s.cnt (app s.q (n :: [])) (S n)
       (upd s.a a0 { apc = L2; ab = n; aw = x.aw; actx = x.actx; afor =
         x.afor; aign = x.aign; acanc = x.acanc; aloc = x.aloc })
       (upd s.bk n (fresh a0)) s.holder s.ent s.data s.nwr)
   | L2 ->
     if Nat.eqb s.cnt O
     then Some
            (mk (S O) s.q s.nextb
              (upd s.a a0 { apc = H1; ab = x.ab; aw = x.aw; actx = RPark;
                afor = x.afor; aign = x.aign; acanc = x.acanc; aloc =
                x.aloc }) s.bk (HA a0) (a0 :: s.ent) s.data s.nwr)
     else Some
            (mk (S s.cnt) s.q s.nextb (upd s.a a0 (set_pc x P)) s.bk s.holder
              (a0 :: s.ent) s.data s.nwr)
   | H1 ->
     (match s.q with
      | [] -> None
      | v :: q' ->
        Some
          (mk s.cnt q' s.nextb
            (upd s.a a0 { apc = H2; ab = x.ab; aw = v; actx = x.actx; afor =
              x.afor; aign = x.aign; acanc = x.acanc; aloc = x.aloc }) s.bk
            s.holder s.ent s.data s.nwr))
   | H2 ->
     Some
       (setABH s (upd s.a a0 (set_pc x H3))
         (upd s.bk x.aw { tok = w.tok; parked = w.parked; reason = w.reason;
           unp = true; rel = w.rel; owner = w.owner; ag = a0 }) (HB x.aw))
   | H3 ->
     if w.tok
     then Some (setA s (upd s.a a0 (set_pc x H4)))
     else Some
            (setAB s (upd s.a a0 (set_pc x H3w))
              (upd s.bk x.aw { tok = true; parked = w.parked; reason =
                w.reason; unp = w.unp; rel = w.rel; owner = w.owner; ag =
                w.ag }))
   | H3w ->
     Some
       (setAB s (upd s.a a0 (set_pc x H4))
         (upd s.bk x.aw { tok = w.tok; parked = w.parked; reason =
           (if w.parked
            then (match w.reason with
                  | Some r0 -> Some r0
                  | None -> Some RU)
            else w.reason); unp = w.unp; rel = w.rel; owner = w.owner; ag =
           w.ag }))
   | H4 ->
     if w.rel
     then Some
            (setABH s
              (upd s.a a0 { apc = U0; ab = x.ab; aw = x.aw; actx = x.actx;
                afor = w.owner; aign = x.aign; acanc = x.acanc; aloc =
                x.aloc })
              (upd s.bk x.aw { tok = w.tok; parked = w.parked; reason =
                w.reason; unp = w.unp; rel = false; owner = w.owner; ag =
                w.ag }) (HA a0))
     else Some (setA s (upd s.a a0 (set_pc x (ret_pc x.actx))))
   | U0 ->
     if Nat.ltb (S O) s.cnt
     then Some
            (mk (sub s.cnt (S O)) s.q s.nextb (upd s.a a0 (set_pc x H1)) s.bk
              s.holder (remove Nat.eq_dec x.afor s.ent) s.data s.nwr)
     else Some
            (mk (sub s.cnt (S O)) s.q s.nextb
              (upd s.a a0 (set_pc x (ret_pc x.actx))) s.bk HNone
              (remove Nat.eq_dec x.afor s.ent) s.data s.nwr)
   | P ->
     if b.tok
     then Some
            (setABH s (upd s.a a0 (set_pc x CS))
              (upd s.bk x.ab { tok = false; parked = b.parked; reason =
                b.reason; unp = b.unp; rel = b.rel; owner = b.owner; ag =
                b.ag }) (HA a0))
     else Some (setA s (upd s.a a0 (set_pc x P1)))
   | P1 ->
     if (&&) x.acanc (negb x.aign)
     then Some (setA s (upd s.a a0 (set_pc x P2)))
     else Some
            (setAB s (upd s.a a0 (set_pc x W))
              (upd s.bk x.ab { tok = b.tok; parked = true; reason = None;
                unp = b.unp; rel = b.rel; owner = b.owner; ag = b.ag }))
   | P2 ->
     Some
       (setAB s (upd s.a a0 (set_pc x C1))
         (upd s.bk x.ab { tok = false; parked = b.parked; reason = b.reason;
           unp = b.unp; rel = b.rel; owner = b.owner; ag = b.ag }))
   | W ->
     (match b.reason with
      | Some r ->
        (match r with
         | RU ->
           Some
             (setABH s (upd s.a a0 (set_pc x CS))
               (upd s.bk x.ab { tok = false; parked = false; reason = None;
                 unp = b.unp; rel = b.rel; owner = b.owner; ag = b.ag }) (HA
               a0))
         | RC ->
           Some
             (setAB s (upd s.a a0 (set_pc x C1))
               (upd s.bk x.ab { tok = false; parked = false; reason = None;
                 unp = b.unp; rel = b.rel; owner = b.owner; ag = b.ag })))
      | None -> None)
   | C1 ->
     if b.unp
     then if x.aign
          then Some (setABH s (upd s.a a0 (set_pc x CS)) s.bk (HA a0))
          else Some
                 (setABH s
                   (upd s.a a0 { apc = U0; ab = x.ab; aw = x.aw; actx =
                     RExit; afor = a0; aign = x.aign; acanc = x.acanc; aloc =
                     x.aloc }) s.bk (HA a0))
     else if x.aign
          then Some (setA s (upd s.a a0 (set_pc x P)))
          else Some (setA s (upd s.a a0 (set_pc x C2)))
   | C2 ->
     Some
       (setAB s (upd s.a a0 (set_pc x C3))
         (upd s.bk x.ab { tok = b.tok; parked = b.parked; reason = b.reason;
           unp = b.unp; rel = true; owner = b.owner; ag = b.ag }))
   | C3 ->
     if b.unp
     then Some (setA s (upd s.a a0 (set_pc x C4)))
     else Some (setA s (upd s.a a0 (set_pc x Exit)))
   | C4 ->
     if b.rel
     then Some
            (setABH s
              (upd s.a a0 { apc = U0; ab = x.ab; aw = x.aw; actx = RExit;
                afor = a0; aign = x.aign; acanc = x.acanc; aloc = x.aloc })
              (upd s.bk x.ab { tok = b.tok; parked = b.parked; reason =
                b.reason; unp = b.unp; rel = false; owner = b.owner; ag =
                b.ag }) (HA a0))
     else Some (setA s (upd s.a a0 (set_pc x Exit)))
   | CS ->
     Some
       (setA s
         (upd s.a a0 { apc = U0; ab = x.ab; aw = x.aw; actx = RDone; afor =
           a0; aign = x.aign; acanc = x.acanc; aloc = x.aloc }))
   | _ -> None)
| Park a0 ->
  let x = s.a a0 in
  let b = s.bk x.ab in
  (match x.apc with
   | P1 ->
     Some
       (setAB s (upd s.a a0 (set_pc x W))
         (upd s.bk x.ab { tok = b.tok; parked = true; reason = None; unp =
           b.unp; rel = b.rel; owner = b.owner; ag = b.ag }))
   | _ -> None)
| Kick a0 ->
  let x = s.a a0 in
  let b = s.bk x.ab in
  (match x.apc with
   | W ->
     if (&&) b.tok b.parked
     then (match b.reason with
           | Some _ -> None
           | None ->
             Some
               (setAB s s.a
                 (upd s.bk x.ab { tok = b.tok; parked = b.parked; reason =
                   (Some RU); unp = b.unp; rel = b.rel; owner = b.owner; ag =
                   b.ag })))
     else None
   | _ -> None)
| Cancel a0 ->
  if isco a0
  then let x = s.a a0 in
       Some
       (setA s
         (upd s.a a0 { apc = x.apc; ab = x.ab; aw = x.aw; actx = x.actx;
           afor = x.afor; aign = x.aign; acanc = true; aloc = x.aloc }))
  else None
| CKick a0 ->
  let x = s.a a0 in
  let b = s.bk x.ab in
  (match x.apc with
   | W ->
     if (&&) ((&&) (isco a0) x.acanc) b.parked
     then (match b.reason with
           | Some _ -> None
           | None ->
             Some
               (setAB s s.a
                 (upd s.bk x.ab { tok = b.tok; parked = b.parked; reason =
                   (Some RC); unp = b.unp; rel = b.rel; owner = b.owner; ag =
                   b.ag })))
     else None
   | _ -> None)
| Read a0 ->
  let x = s.a a0 in
  (match x.apc with
   | CS ->
     Some
       (setA s
         (upd s.a a0 { apc = CSw; ab = x.ab; aw = x.aw; actx = x.actx; afor =
           x.afor; aign = x.aign; acanc = x.acanc; aloc = s.data }))
   | _ -> None)
| Write a0 ->
  let x = s.a a0 in
  (match x.apc with
   | CSw ->
     Some
       (mk s.cnt s.q s.nextb (upd s.a a0 (set_pc x CS)) s.bk s.holder s.ent
         (S x.aloc) (S s.nwr))
   | _ -> None)

(** val act0 : act **)

let act0 =
  { apc = Idle; ab = O; aw = O; actx = RDone; afor = O; aign = false; acanc =
    false; aloc = O }

(** val init : st **)

let init =
  mk O [] (S O) (fun _ -> act0) (fun _ -> fresh O) HNone [] O O

(** val all_co : nat -> bool **)

let all_co _ =
  true

type aux = { amap : (nat -> nat option); cmap : (z * nat) list;
             depth : (nat -> nat); trying : (nat -> bool);
             pend : (nat -> nat option); ctgt : (nat -> nat option);
             precan : nat list; bflag : (nat -> z option);
             bpark : (nat -> z option) }

type ast = { ms : st; ax : aux }

(** val aux0 : aux **)

let aux0 =
  { amap = (fun _ -> None); cmap = []; depth = (fun _ -> O); trying =
    (fun _ -> false); pend = (fun _ -> None); ctgt = (fun _ -> None);
    precan = []; bflag = (fun _ -> None); bpark = (fun _ -> None) }

(** val ainit : ast **)

let ainit =
  { ms = init; ax = aux0 }

(** val pc_eqb : pc -> pc -> bool **)

let pc_eqb a0 b =
  match a0 with
  | Idle -> (match b with
             | Idle -> true
             | _ -> false)
  | T0 -> (match b with
           | T0 -> true
           | _ -> false)
  | L0 -> (match b with
           | L0 -> true
           | _ -> false)
  | L1 -> (match b with
           | L1 -> true
           | _ -> false)
  | L2 -> (match b with
           | L2 -> true
           | _ -> false)
  | H1 -> (match b with
           | H1 -> true
           | _ -> false)
  | H2 -> (match b with
           | H2 -> true
           | _ -> false)
  | H3 -> (match b with
           | H3 -> true
           | _ -> false)
  | H3w -> (match b with
            | H3w -> true
            | _ -> false)
  | H4 -> (match b with
           | H4 -> true
           | _ -> false)
  | U0 -> (match b with
           | U0 -> true
           | _ -> false)
  | P -> (match b with
          | P -> true
          | _ -> false)
  | P1 -> (match b with
           | P1 -> true
           | _ -> false)
  | P2 -> (match b with
           | P2 -> true
           | _ -> false)
  | W -> (match b with
          | W -> true
          | _ -> false)
  | C1 -> (match b with
           | C1 -> true
           | _ -> false)
  | C2 -> (match b with
           | C2 -> true
           | _ -> false)
  | C3 -> (match b with
           | C3 -> true
           | _ -> false)
  | C4 -> (match b with
           | C4 -> true
           | _ -> false)
  | CS -> (match b with
           | CS -> true
           | _ -> false)
  | CSw -> (match b with
            | CSw -> true
            | _ -> false)
  | Exit -> (match b with
             | Exit -> true
             | _ -> false)

(** val outside : pc -> bool **)

let outside = function
| Idle -> true
| CS -> true
| CSw -> true
| Exit -> true
| _ -> false

(** val znz : z -> bool **)

let znz v =
  negb (Z.eqb v Z0)

(** val is_none : 'a1 option -> bool **)

let is_none = function
| Some _ -> false
| None -> true

(** val zassoc : (z * nat) list -> z -> nat option **)

let rec zassoc l k =
  match l with
  | [] -> None
  | p :: r -> let (k', v) = p in if Z.eqb k k' then Some v else zassoc r k

(** val bindchk :
    (nat -> z option) -> nat -> z -> (nat -> z option) option **)

let bindchk m b o =
  match m b with
  | Some o' -> if Z.eqb o o' then Some m else None
  | None -> Some (upd m b (Some o))

type plan = ((action list * (st -> bool)) * aux) option

(** val ok : aux -> plan **)

let ok x =
  Some (([], (fun _ -> true)), x)

(** val act1 : aux -> action -> plan **)

let act1 x a0 =
  Some (((a0 :: []), (fun _ -> true)), x)

(** val obs : aux -> bool -> plan **)

let obs x = function
| true -> ok x
| false -> None

(** val set_flag : aux -> (nat -> z option) -> aux **)

let set_flag x m =
  { amap = x.amap; cmap = x.cmap; depth = x.depth; trying = x.trying; pend =
    x.pend; ctgt = x.ctgt; precan = x.precan; bflag = m; bpark = x.bpark }

(** val set_park : aux -> (nat -> z option) -> aux **)

let set_park x m =
  { amap = x.amap; cmap = x.cmap; depth = x.depth; trying = x.trying; pend =
    x.pend; ctgt = x.ctgt; precan = x.precan; bflag = x.bflag; bpark = m }

(** val set_depth : aux -> (nat -> nat) -> aux **)

let set_depth x m =
  { amap = x.amap; cmap = x.cmap; depth = m; trying = x.trying; pend =
    x.pend; ctgt = x.ctgt; precan = x.precan; bflag = x.bflag; bpark =
    x.bpark }

(** val set_trying : aux -> (nat -> bool) -> aux **)

let set_trying x m =
  { amap = x.amap; cmap = x.cmap; depth = x.depth; trying = m; pend = x.pend;
    ctgt = x.ctgt; precan = x.precan; bflag = x.bflag; bpark = x.bpark }

(** val set_pend : aux -> (nat -> nat option) -> aux **)

let set_pend x m =
  { amap = x.amap; cmap = x.cmap; depth = x.depth; trying = x.trying; pend =
    m; ctgt = x.ctgt; precan = x.precan; bflag = x.bflag; bpark = x.bpark }

(** val mkplan : ast -> z list -> plan **)

let mkplan s e =
  let m = s.ms in
  let x = s.ax in
  (match e with
   | [] -> None
   | code :: l ->
     (match l with
      | [] -> None
      | za :: l0 ->
        (match l0 with
         | [] -> None
         | obj :: l1 ->
           (match l1 with
            | [] -> None
            | v :: l2 ->
              (match l2 with
               | [] ->
                 let a0 = Z.to_nat za in
                 let r = m.a a0 in
                 let p = r.apc in
                 let b = m.bk r.ab in
                 let w = m.bk r.aw in
                 let at_ = fun q0 -> pc_eqb p q0 in
                 let skip = obs x (outside p) in
                 (match code with
                  | Zpos p0 ->
                    (match p0 with
                     | XI p1 ->
                       (match p1 with
                        | XI p2 ->
                          (match p2 with
                           | XI p3 ->
                             (match p3 with
                              | XI p4 ->
                                (match p4 with
                                 | XI _ -> None
                                 | XO p5 ->
                                   (match p5 with
                                    | XH ->
                                      if znz v
                                      then if at_ W
                                           then act1 x (CKick a0)
                                           else skip
                                      else ok x
                                    | _ -> None)
                                 | XH ->
                                   if at_ C2 then act1 x (Step a0) else skip)
                              | XO p4 ->
                                (match p4 with
                                 | XH ->
                                   if at_ L1
                                   then if znz v
                                        then act1 x (Step a0)
                                        else ok x
                                   else ok x
                                 | _ -> None)
                              | XH ->
                                if at_ CSw
                                then Some ((((Write a0) :: []), (fun m' ->
                                       Z.eqb (Z.of_nat m'.data) v)), x)
                                else None)
                           | XO p3 ->
                             (match p3 with
                              | XI p4 ->
                                (match p4 with
                                 | XO p5 ->
                                   (match p5 with
                                    | XH ->
                                      if at_ H3
                                      then (match bindchk x.bpark r.aw obj with
                                            | Some bp ->
                                              if eqb w.tok (znz v)
                                              then act1 (set_park x bp) (Step
                                                     a0)
                                              else None
                                            | None -> None)
                                      else skip
                                    | _ -> None)
                                 | _ -> None)
                              | XO p4 ->
                                (match p4 with
                                 | XI p5 ->
                                   (match p5 with
                                    | XH ->
                                      if at_ C1
                                      then obs x
                                             (eqb r.aign
                                               (Z.leb (Zpos (XO XH)) v))
                                      else ok x
                                    | _ -> None)
                                 | _ -> None)
                              | XH ->
                                if at_ P
                                then (match bindchk x.bpark r.ab obj with
                                      | Some bp ->
                                        Some
                                          (((if b.tok
                                             then (Step a0) :: []
                                             else (Step a0) :: ((Park
                                                    a0) :: [])), (fun _ ->
                                          true)), (set_park x bp))
                                      | None -> None)
                                else skip)
                           | XH -> obs x (at_ Idle))
                        | XO p2 ->
                          (match p2 with
                           | XI p3 ->
                             (match p3 with
                              | XI p4 ->
                                (match p4 with
                                 | XO p5 ->
                                   (match p5 with
                                    | XH ->
                                      if znz v
                                      then if at_ W
                                           then act1 x (Kick a0)
                                           else skip
                                      else ok x
                                    | _ -> None)
                                 | _ -> None)
                              | XO p4 ->
                                (match p4 with
                                 | XI p5 ->
                                   (match p5 with
                                    | XH ->
                                      ok
                                        (set_depth x
                                          (upd x.depth a0
                                            (Nat.pred (x.depth a0))))
                                    | _ -> None)
                                 | XO _ -> None
                                 | XH ->
                                   if (&&) (at_ L2) (Z.eqb (Z.of_nat m.cnt) v)
                                   then act1 x (Step a0)
                                   else None)
                              | XH ->
                                if at_ H3
                                then (match bindchk x.bpark r.aw obj with
                                      | Some bp ->
                                        Some
                                          (((if w.tok
                                             then (Step a0) :: []
                                             else (Step a0) :: ((Step
                                                    a0) :: [])), (fun m' ->
                                          pc_eqb (m'.a a0).apc H4)),
                                          (set_park x bp))
                                      | None -> None)
                                else skip)
                           | XO p3 ->
                             (match p3 with
                              | XI p4 ->
                                (match p4 with
                                 | XO p5 ->
                                   (match p5 with
                                    | XH ->
                                      if at_ P
                                      then if b.tok
                                           then Some ((((Step a0) :: []),
                                                  (fun m' ->
                                                  pc_eqb (m'.a a0).apc CS)),
                                                  x)
                                           else None
                                      else if (||) (at_ P2) (at_ W)
                                           then act1 x (Step a0)
                                           else skip
                                    | _ -> None)
                                 | _ -> None)
                              | XO p4 ->
                                (match p4 with
                                 | XI _ -> None
                                 | XO p5 ->
                                   (match p5 with
                                    | XH ->
                                      if at_ H2
                                      then (match bindchk x.bflag r.aw obj with
                                            | Some bf ->
                                              act1 (set_flag x bf) (Step a0)
                                            | None -> None)
                                      else skip
                                    | _ -> None)
                                 | XH ->
                                   (match zassoc x.cmap obj with
                                    | Some t ->
                                      obs x
                                        ((||) (pc_eqb (m.a t).apc Idle)
                                          (pc_eqb (m.a t).apc Exit))
                                    | None -> ok x))
                              | XH -> obs x (at_ CS))
                           | XH ->
                             obs (set_trying x (upd x.trying a0 false))
                               (if znz v then at_ CS else at_ Idle))
                        | XH -> obs x (at_ CS))
                     | XO p1 ->
                       (match p1 with
                        | XI p2 ->
                          (match p2 with
                           | XI p3 ->
                             (match p3 with
                              | XI p4 ->
                                (match p4 with
                                 | XI _ -> None
                                 | XO p5 ->
                                   (match p5 with
                                    | XH ->
                                      if at_ P1
                                      then act1 x (Park a0)
                                      else skip
                                    | _ -> None)
                                 | XH ->
                                   if (||) (at_ C1) (at_ C3)
                                   then (match bindchk x.bflag r.ab obj with
                                         | Some bf ->
                                           if eqb b.unp (znz v)
                                           then act1 (set_flag x bf) (Step a0)
                                           else None
                                         | None -> None)
                                   else skip)
                              | XO p4 ->
                                (match p4 with
                                 | XI p5 ->
                                   (match p5 with
                                    | XH ->
                                      (match x.pend a0 with
                                       | Some k ->
                                         (match x.amap k with
                                          | Some t ->
                                            act1 { amap = x.amap; cmap =
                                              x.cmap; depth = x.depth;
                                              trying = x.trying; pend =
                                              (upd x.pend a0 None); ctgt =
                                              (upd x.ctgt a0 (Some t));
                                              precan = x.precan; bflag =
                                              x.bflag; bpark = x.bpark }
                                              (Cancel t)
                                          | None ->
                                            ok { amap = x.amap; cmap =
                                              x.cmap; depth = x.depth;
                                              trying = x.trying; pend =
                                              (upd x.pend a0 None); ctgt =
                                              (upd x.ctgt a0 None); precan =
                                              (k :: x.precan); bflag =
                                              x.bflag; bpark = x.bpark })
                                       | None ->
                                         act1 { amap = x.amap; cmap = x.cmap;
                                           depth = x.depth; trying =
                                           x.trying; pend = x.pend; ctgt =
                                           (upd x.ctgt a0 (Some a0));
                                           precan = x.precan; bflag =
                                           x.bflag; bpark = x.bpark } (Cancel
                                           a0))
                                    | _ -> None)
                                 | XO _ -> None
                                 | XH ->
                                   if Z.eqb (Z.of_nat m.cnt) v
                                   then if at_ CS
                                        then Some ((((Step a0) :: ((Step
                                               a0) :: [])), (fun _ -> true)),
                                               x)
                                        else if at_ U0
                                             then act1 x (Step a0)
                                             else None
                                   else None)
                              | XH ->
                                if at_ CS
                                then Some ((((Read a0) :: []), (fun m' ->
                                       Z.eqb (Z.of_nat (m'.a a0).aloc) v)), x)
                                else None)
                           | XO p3 ->
                             (match p3 with
                              | XI p4 ->
                                (match p4 with
                                 | XO p5 ->
                                   (match p5 with
                                    | XH ->
                                      if (||) ((||) (at_ P) (at_ P2)) (at_ W)
                                      then if eqb b.tok (znz v)
                                           then act1 x (Step a0)
                                           else None
                                      else skip
                                    | _ -> None)
                                 | _ -> None)
                              | XO _ -> None
                              | XH -> obs x (at_ CS))
                           | XH -> obs x (at_ CS))
                        | XO p2 ->
                          (match p2 with
                           | XI p3 ->
                             (match p3 with
                              | XI p4 ->
                                (match p4 with
                                 | XO p5 ->
                                   (match p5 with
                                    | XH ->
                                      if at_ H3w
                                      then if eqb
                                                ((&&) w.parked
                                                  (is_none w.reason)) 
                                                (znz v)
                                           then act1 x (Step a0)
                                           else None
                                      else skip
                                    | _ -> None)
                                 | _ -> None)
                              | XO p4 ->
                                (match p4 with
                                 | XI p5 ->
                                   (match p5 with
                                    | XH ->
                                      ok
                                        (set_depth x
                                          (upd x.depth a0 (S (x.depth a0))))
                                    | _ -> None)
                                 | XO _ -> None
                                 | XH ->
                                   if at_ Idle
                                   then Some
                                          ((((if x.trying a0
                                              then StartTry a0
                                              else Start (a0,
                                                     (Nat.ltb O (x.depth a0)))) :: ((Step
                                          a0) :: [])), (fun m' ->
                                          eqb (pc_eqb (m'.a a0).apc CS)
                                            (znz v))), x)
                                   else None)
                              | XH ->
                                if at_ W
                                then if znz v
                                     then Some ((((Step a0) :: []),
                                            (fun m' ->
                                            pc_eqb (m'.a a0).apc CS)), x)
                                     else None
                                else skip)
                           | XO p3 ->
                             (match p3 with
                              | XI p4 ->
                                (match p4 with
                                 | XI p5 ->
                                   (match p5 with
                                    | XH ->
                                      if znz v
                                      then (match x.ctgt a0 with
                                            | Some t ->
                                              if pc_eqb (m.a t).apc W
                                              then act1 x (CKick t)
                                              else obs x (outside (m.a t).apc)
                                            | None -> ok x)
                                      else ok x
                                    | _ -> None)
                                 | XO p5 ->
                                   (match p5 with
                                    | XH ->
                                      if (||) ((||) (at_ P) (at_ P2)) (at_ W)
                                      then (match bindchk x.bpark r.ab obj with
                                            | Some bp ->
                                              obs (set_park x bp)
                                                (implb (znz v) b.tok)
                                            | None -> None)
                                      else skip
                                    | _ -> None)
                                 | XH ->
                                   if at_ H1 then act1 x (Step a0) else ok x)
                              | XO p4 ->
                                (match p4 with
                                 | XI p5 ->
                                   (match p5 with
                                    | XH ->
                                      if at_ P1
                                      then Some ((((Step a0) :: []),
                                             (fun m' ->
                                             pc_eqb (m'.a a0).apc P2)), x)
                                      else if at_ W then ok x else skip
                                    | _ -> None)
                                 | XO p5 ->
                                   (match p5 with
                                    | XH ->
                                      if at_ H4
                                      then if eqb w.rel (znz v)
                                           then act1 x (Step a0)
                                           else None
                                      else if at_ C4
                                           then if eqb b.rel (znz v)
                                                then act1 x (Step a0)
                                                else None
                                           else skip
                                    | _ -> None)
                                 | XH -> obs x (at_ Idle))
                              | XH ->
                                ok
                                  (set_pend x
                                    (upd x.pend a0 (Some (Z.to_nat obj)))))
                           | XH ->
                             obs (set_trying x (upd x.trying a0 true))
                               (at_ Idle))
                        | XH ->
                          obs (set_trying x (upd x.trying a0 false))
                            (at_ Idle))
                     | XH ->
                       let k = Z.to_nat obj in
                       let x' = { amap = (upd x.amap k (Some a0)); cmap =
                         (if Z.eqb v Z0 then x.cmap else (v, a0) :: x.cmap);
                         depth = x.depth; trying = x.trying; pend = x.pend;
                         ctgt = x.ctgt; precan = x.precan; bflag = x.bflag;
                         bpark = x.bpark }
                       in
                       if at_ Idle
                       then if existsb (Nat.eqb k) x.precan
                            then act1 x' (Cancel a0)
                            else ok x'
                       else None)
                  | _ -> None)
               | _ :: _ -> None)))))

(** val exec : st -> action list -> st option **)

let rec exec m = function
| [] -> Some m
| a0 :: r -> (match step all_co m a0 with
              | Some m' -> exec m' r
              | None -> None)

(** val accept_ev : ast -> z list -> ast option **)

let accept_ev s e =
  match mkplan s e with
  | Some p ->
    let (p0, x') = p in
    let (acts, post) = p0 in
    (match exec s.ms acts with
     | Some m' -> if post m' then Some { ms = m'; ax = x' } else None
     | None -> None)
  | None -> None

(** val final_ok : ast -> bool **)

let final_ok s =
  (&&)
    ((&&) (Nat.eqb s.ms.cnt O)
      (match s.ms.q with
       | [] -> true
       | _ :: _ -> false)) (match s.ms.holder with
                            | HNone -> true
                            | _ -> false)

(** val m_init : ast **)

let m_init =
  ainit

(** val m_accept : ast -> z list -> ast option **)

let m_accept =
  accept_ev

(** val m_final : ast -> bool **)

let m_final =
  final_ok
