
val implb : bool -> bool -> bool

val negb : bool -> bool

type nat =
| O
| S of nat

val app : 'a1 list -> 'a1 list -> 'a1 list

type comparison =
| Eq
| Lt
| Gt

val compOpp : comparison -> comparison

val add : nat -> nat -> nat

val sub : nat -> nat -> nat

val eqb : bool -> bool -> bool

module Nat :
 sig
  val pred : nat -> nat

  val eqb : nat -> nat -> bool

  val leb : nat -> nat -> bool

  val ltb : nat -> nat -> bool

  val eq_dec : nat -> nat -> bool
 end

val remove : ('a1 -> 'a1 -> bool) -> 'a1 -> 'a1 list -> 'a1 list

val existsb : ('a1 -> bool) -> 'a1 list -> bool

type positive =
| XI of positive
| XO of positive
| XH

type z =
| Z0
| Zpos of positive
| Zneg of positive

module Pos :
 sig
  val succ : positive -> positive

  val compare_cont : comparison -> positive -> positive -> comparison

  val compare : positive -> positive -> comparison

  val eqb : positive -> positive -> bool

  val iter_op : ('a1 -> 'a1 -> 'a1) -> positive -> 'a1 -> 'a1

  val to_nat : positive -> nat

  val of_succ_nat : nat -> positive
 end

module Z :
 sig
  val compare : z -> z -> comparison

  val leb : z -> z -> bool

  val eqb : z -> z -> bool

  val to_nat : z -> nat

  val of_nat : nat -> z
 end

type pc =
| Idle
| T0
| L0
| L1
| L2
| H1
| H2
| H3
| H3w
| H4
| U0
| P
| P1
| P2
| W
| C1
| C2
| C3
| C4
| CS
| CSw
| Exit

type ctx =
| RPark
| RDone
| RExit

type rsn =
| RU
| RC

type hold =
| HNone
| HA of nat
| HB of nat

type act = { apc : pc; ab : nat; aw : nat; actx : ctx; afor : nat;
             aign : bool; acanc : bool; aloc : nat }

type blk = { tok : bool; parked : bool; reason : rsn option; unp : bool;
             rel : bool; owner : nat; ag : nat }

type st = { cnt : nat; q : nat list; nextb : nat; a : (nat -> act);
            bk : (nat -> blk); holder : hold; ent : nat list; data : 
            nat; nwr : nat }

val upd : (nat -> 'a1) -> nat -> 'a1 -> nat -> 'a1

type action =
| Start of nat * bool
| StartTry of nat
| Step of nat
| Park of nat
| Kick of nat
| Cancel of nat
| CKick of nat
| Read of nat
| Write of nat

val set_pc : act -> pc -> act

val ret_pc : ctx -> pc

val fresh : nat -> blk

val mk :
  nat -> nat list -> nat -> (nat -> act) -> (nat -> blk) -> hold -> nat list
  -> nat -> nat -> st

val setA : st -> (nat -> act) -> st

val setAB : st -> (nat -> act) -> (nat -> blk) -> st

val setABH : st -> (nat -> act) -> (nat -> blk) -> hold -> st

val step : (nat -> bool) -> st -> action -> st option

val act0 : act

val init : st

val all_co : nat -> bool

type aux = { amap : (nat -> nat option); cmap : (z * nat) list;
             depth : (nat -> nat); trying : (nat -> bool);
             pend : (nat -> nat option); ctgt : (nat -> nat option);
             precan : nat list; bflag : (nat -> z option);
             bpark : (nat -> z option) }

type ast = { ms : st; ax : aux }

val aux0 : aux

val ainit : ast

val pc_eqb : pc -> pc -> bool

val outside : pc -> bool

val znz : z -> bool

val is_none : 'a1 option -> bool

val zassoc : (z * nat) list -> z -> nat option

val bindchk : (nat -> z option) -> nat -> z -> (nat -> z option) option

type plan = ((action list * (st -> bool)) * aux) option

val ok : aux -> plan

val act1 : aux -> action -> plan

val obs : aux -> bool -> plan

val set_flag : aux -> (nat -> z option) -> aux

val set_park : aux -> (nat -> z option) -> aux

val set_depth : aux -> (nat -> nat) -> aux

val set_trying : aux -> (nat -> bool) -> aux

val set_pend : aux -> (nat -> nat option) -> aux

val mkplan : ast -> z list -> plan

val exec : st -> action list -> st option

val accept_ev : ast -> z list -> ast option

val final_ok : ast -> bool

val m_init : ast

val m_accept : ast -> z list -> ast option

val m_final : ast -> bool
