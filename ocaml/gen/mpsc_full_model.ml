
(** val negb : bool -> bool **)

let negb = function
| true -> false
| false -> true

type nat =
| O
| S of nat

(** val option_map : ('a1 -> 'a2) -> 'a1 option -> 'a2 option **)

let option_map f0 = function
| Some a -> Some (f0 a)
| None -> None

(** val fst : ('a1 * 'a2) -> 'a1 **)

let fst = function
| (x, _) -> x

(** val snd : ('a1 * 'a2) -> 'a2 **)

let snd = function
| (_, y) -> y

(** val length : 'a1 list -> nat **)

let rec length = function
| [] -> O
| _ :: l' -> S (length l')

(** val app : 'a1 list -> 'a1 list -> 'a1 list **)

let rec app l m0 =
  match l with
  | [] -> m0
  | a :: l1 -> a :: (app l1 m0)

type comparison =
| Eq
| Lt
| Gt

(** val compOpp : comparison -> comparison **)

let compOpp = function
| Eq -> Eq
| Lt -> Gt
| Gt -> Lt

module Coq__1 = struct
 (** val add : nat -> nat -> nat **)
 let rec add n0 m0 =
   match n0 with
   | O -> m0
   | S p0 -> S (add p0 m0)
end
include Coq__1

(** val mul : nat -> nat -> nat **)

let rec mul n0 m0 =
  match n0 with
  | O -> O
  | S p0 -> add m0 (mul p0 m0)

(** val sub : nat -> nat -> nat **)

let rec sub n0 m0 =
  match n0 with
  | O -> n0
  | S k -> (match m0 with
            | O -> n0
            | S l -> sub k l)

(** val eqb : bool -> bool -> bool **)

let eqb b1 b2 =
  if b1 then b2 else if b2 then false else true

module Nat =
 struct
  (** val sub : nat -> nat -> nat **)

  let rec sub n0 m0 =
    match n0 with
    | O -> n0
    | S k -> (match m0 with
              | O -> n0
              | S l -> sub k l)

  (** val eqb : nat -> nat -> bool **)

  let rec eqb n0 m0 =
    match n0 with
    | O -> (match m0 with
            | O -> true
            | S _ -> false)
    | S n' -> (match m0 with
               | O -> false
               | S m' -> eqb n' m')

  (** val leb : nat -> nat -> bool **)

  let rec leb n0 m0 =
    match n0 with
    | O -> true
    | S n' -> (match m0 with
               | O -> false
               | S m' -> leb n' m')

  (** val ltb : nat -> nat -> bool **)

  let ltb n0 m0 =
    leb (S n0) m0

  (** val min : nat -> nat -> nat **)

  let rec min n0 m0 =
    match n0 with
    | O -> O
    | S n' -> (match m0 with
               | O -> O
               | S m' -> S (min n' m'))

  (** val divmod : nat -> nat -> nat -> nat -> nat * nat **)

  let rec divmod x y q u =
    match x with
    | O -> (q, u)
    | S x' ->
      (match u with
       | O -> divmod x' y (S q) y
       | S u' -> divmod x' y q u')

  (** val div : nat -> nat -> nat **)

  let div x y = match y with
  | O -> y
  | S y' -> fst (divmod x y' O y')

  (** val modulo : nat -> nat -> nat **)

  let modulo x = function
  | O -> x
  | S y' -> sub y' (snd (divmod x y' O y'))
 end

(** val nth : nat -> 'a1 list -> 'a1 -> 'a1 **)

let rec nth n0 l default =
  match n0 with
  | O -> (match l with
          | [] -> default
          | x :: _ -> x)
  | S m0 -> (match l with
             | [] -> default
             | _ :: t -> nth m0 t default)

(** val existsb : ('a1 -> bool) -> 'a1 list -> bool **)

let rec existsb f0 = function
| [] -> false
| a :: l0 -> (||) (f0 a) (existsb f0 l0)

(** val firstn : nat -> 'a1 list -> 'a1 list **)

let rec firstn n0 l =
  match n0 with
  | O -> []
  | S n1 -> (match l with
             | [] -> []
             | a :: l0 -> a :: (firstn n1 l0))

(** val skipn : nat -> 'a1 list -> 'a1 list **)

let rec skipn n0 l =
  match n0 with
  | O -> l
  | S n1 -> (match l with
             | [] -> []
             | _ :: l0 -> skipn n1 l0)

type positive =
| XI of positive
| XO of positive
| XH

type n =
| N0
| Npos of positive

type z =
| Z0
| Zpos of positive
| Zneg of positive

module Pos =
 struct
  (** val succ : positive -> positive **)

  let rec succ = function
  | XI p0 -> XO (succ p0)
  | XO p0 -> XI p0
  | XH -> XO XH

  (** val add : positive -> positive -> positive **)

  let rec add x y =
    match x with
    | XI p0 ->
      (match y with
       | XI q -> XO (add_carry p0 q)
       | XO q -> XI (add p0 q)
       | XH -> XO (succ p0))
    | XO p0 ->
      (match y with
       | XI q -> XI (add p0 q)
       | XO q -> XO (add p0 q)
       | XH -> XI p0)
    | XH -> (match y with
             | XI q -> XO (succ q)
             | XO q -> XI q
             | XH -> XO XH)

  (** val add_carry : positive -> positive -> positive **)

  and add_carry x y =
    match x with
    | XI p0 ->
      (match y with
       | XI q -> XI (add_carry p0 q)
       | XO q -> XO (add_carry p0 q)
       | XH -> XI (succ p0))
    | XO p0 ->
      (match y with
       | XI q -> XO (add_carry p0 q)
       | XO q -> XI (add p0 q)
       | XH -> XO (succ p0))
    | XH ->
      (match y with
       | XI q -> XI (succ q)
       | XO q -> XO (succ q)
       | XH -> XI XH)

  (** val pred_double : positive -> positive **)

  let rec pred_double = function
  | XI p0 -> XI (XO p0)
  | XO p0 -> XI (pred_double p0)
  | XH -> XH

  (** val pred_N : positive -> n **)

  let pred_N = function
  | XI p0 -> Npos (XO p0)
  | XO p0 -> Npos (pred_double p0)
  | XH -> N0

  (** val mul : positive -> positive -> positive **)

  let rec mul x y =
    match x with
    | XI p0 -> add y (XO (mul p0 y))
    | XO p0 -> XO (mul p0 y)
    | XH -> y

  (** val iter : ('a1 -> 'a1) -> 'a1 -> positive -> 'a1 **)

  let rec iter f0 x = function
  | XI n' -> f0 (iter f0 (iter f0 x n') n')
  | XO n' -> iter f0 (iter f0 x n') n'
  | XH -> f0 x

  (** val compare_cont : comparison -> positive -> positive -> comparison **)

  let rec compare_cont r x y =
    match x with
    | XI p0 ->
      (match y with
       | XI q -> compare_cont r p0 q
       | XO q -> compare_cont Gt p0 q
       | XH -> Gt)
    | XO p0 ->
      (match y with
       | XI q -> compare_cont Lt p0 q
       | XO q -> compare_cont r p0 q
       | XH -> Gt)
    | XH -> (match y with
             | XH -> r
             | _ -> Lt)

  (** val compare : positive -> positive -> comparison **)

  let compare =
    compare_cont Eq

  (** val eqb : positive -> positive -> bool **)

  let rec eqb p0 q =
    match p0 with
    | XI p1 -> (match q with
                | XI q0 -> eqb p1 q0
                | _ -> false)
    | XO p1 -> (match q with
                | XO q0 -> eqb p1 q0
                | _ -> false)
    | XH -> (match q with
             | XH -> true
             | _ -> false)

  (** val testbit : positive -> n -> bool **)

  let rec testbit p0 n0 =
    match p0 with
    | XI p1 -> (match n0 with
                | N0 -> true
                | Npos n1 -> testbit p1 (pred_N n1))
    | XO p1 -> (match n0 with
                | N0 -> false
                | Npos n1 -> testbit p1 (pred_N n1))
    | XH -> (match n0 with
             | N0 -> true
             | Npos _ -> false)

  (** val iter_op : ('a1 -> 'a1 -> 'a1) -> positive -> 'a1 -> 'a1 **)

  let rec iter_op op0 p0 a =
    match p0 with
    | XI p1 -> op0 a (iter_op op0 p1 (op0 a a))
    | XO p1 -> iter_op op0 p1 (op0 a a)
    | XH -> a

  (** val to_nat : positive -> nat **)

  let to_nat x =
    iter_op Coq__1.add x (S O)

  (** val of_succ_nat : nat -> positive **)

  let rec of_succ_nat = function
  | O -> XH
  | S x -> succ (of_succ_nat x)
 end

module N =
 struct
  (** val testbit : n -> n -> bool **)

  let testbit a n0 =
    match a with
    | N0 -> false
    | Npos p0 -> Pos.testbit p0 n0
 end

module Z =
 struct
  (** val double : z -> z **)

  let double = function
  | Z0 -> Z0
  | Zpos p0 -> Zpos (XO p0)
  | Zneg p0 -> Zneg (XO p0)

  (** val succ_double : z -> z **)

  let succ_double = function
  | Z0 -> Zpos XH
  | Zpos p0 -> Zpos (XI p0)
  | Zneg p0 -> Zneg (Pos.pred_double p0)

  (** val pred_double : z -> z **)

  let pred_double = function
  | Z0 -> Zneg XH
  | Zpos p0 -> Zpos (Pos.pred_double p0)
  | Zneg p0 -> Zneg (XI p0)

  (** val pos_sub : positive -> positive -> z **)

  let rec pos_sub x y =
    match x with
    | XI p0 ->
      (match y with
       | XI q -> double (pos_sub p0 q)
       | XO q -> succ_double (pos_sub p0 q)
       | XH -> Zpos (XO p0))
    | XO p0 ->
      (match y with
       | XI q -> pred_double (pos_sub p0 q)
       | XO q -> double (pos_sub p0 q)
       | XH -> Zpos (Pos.pred_double p0))
    | XH ->
      (match y with
       | XI q -> Zneg (XO q)
       | XO q -> Zneg (Pos.pred_double q)
       | XH -> Z0)

  (** val add : z -> z -> z **)

  let add x y =
    match x with
    | Z0 -> y
    | Zpos x' ->
      (match y with
       | Z0 -> x
       | Zpos y' -> Zpos (Pos.add x' y')
       | Zneg y' -> pos_sub x' y')
    | Zneg x' ->
      (match y with
       | Z0 -> x
       | Zpos y' -> pos_sub y' x'
       | Zneg y' -> Zneg (Pos.add x' y'))

  (** val opp : z -> z **)

  let opp = function
  | Z0 -> Z0
  | Zpos x0 -> Zneg x0
  | Zneg x0 -> Zpos x0

  (** val sub : z -> z -> z **)

  let sub m0 n0 =
    add m0 (opp n0)

  (** val mul : z -> z -> z **)

  let mul x y =
    match x with
    | Z0 -> Z0
    | Zpos x' ->
      (match y with
       | Z0 -> Z0
       | Zpos y' -> Zpos (Pos.mul x' y')
       | Zneg y' -> Zneg (Pos.mul x' y'))
    | Zneg x' ->
      (match y with
       | Z0 -> Z0
       | Zpos y' -> Zneg (Pos.mul x' y')
       | Zneg y' -> Zpos (Pos.mul x' y'))

  (** val pow_pos : z -> positive -> z **)

  let pow_pos z0 =
    Pos.iter (mul z0) (Zpos XH)

  (** val pow : z -> z -> z **)

  let pow x = function
  | Z0 -> Zpos XH
  | Zpos p0 -> pow_pos x p0
  | Zneg _ -> Z0

  (** val compare : z -> z -> comparison **)

  let compare x y =
    match x with
    | Z0 -> (match y with
             | Z0 -> Eq
             | Zpos _ -> Lt
             | Zneg _ -> Gt)
    | Zpos x' -> (match y with
                  | Zpos y' -> Pos.compare x' y'
                  | _ -> Gt)
    | Zneg x' ->
      (match y with
       | Zneg y' -> compOpp (Pos.compare x' y')
       | _ -> Lt)

  (** val leb : z -> z -> bool **)

  let leb x y =
    match compare x y with
    | Gt -> false
    | _ -> true

  (** val ltb : z -> z -> bool **)

  let ltb x y =
    match compare x y with
    | Lt -> true
    | _ -> false

  (** val eqb : z -> z -> bool **)

  let eqb x y =
    match x with
    | Z0 -> (match y with
             | Z0 -> true
             | _ -> false)
    | Zpos p0 -> (match y with
                  | Zpos q -> Pos.eqb p0 q
                  | _ -> false)
    | Zneg p0 -> (match y with
                  | Zneg q -> Pos.eqb p0 q
                  | _ -> false)

  (** val to_nat : z -> nat **)

  let to_nat = function
  | Zpos p0 -> Pos.to_nat p0
  | _ -> O

  (** val of_nat : nat -> z **)

  let of_nat = function
  | O -> Z0
  | S n1 -> Zpos (Pos.of_succ_nat n1)

  (** val pos_div_eucl : positive -> z -> z * z **)

  let rec pos_div_eucl a b =
    match a with
    | XI a' ->
      let (q, r) = pos_div_eucl a' b in
      let r' = add (mul (Zpos (XO XH)) r) (Zpos XH) in
      if ltb r' b
      then ((mul (Zpos (XO XH)) q), r')
      else ((add (mul (Zpos (XO XH)) q) (Zpos XH)), (sub r' b))
    | XO a' ->
      let (q, r) = pos_div_eucl a' b in
      let r' = mul (Zpos (XO XH)) r in
      if ltb r' b
      then ((mul (Zpos (XO XH)) q), r')
      else ((add (mul (Zpos (XO XH)) q) (Zpos XH)), (sub r' b))
    | XH -> if leb (Zpos (XO XH)) b then (Z0, (Zpos XH)) else ((Zpos XH), Z0)

  (** val div_eucl : z -> z -> z * z **)

  let div_eucl a b =
    match a with
    | Z0 -> (Z0, Z0)
    | Zpos a' ->
      (match b with
       | Z0 -> (Z0, a)
       | Zpos _ -> pos_div_eucl a' b
       | Zneg b' ->
         let (q, r) = pos_div_eucl a' (Zpos b') in
         (match r with
          | Z0 -> ((opp q), Z0)
          | _ -> ((opp (add q (Zpos XH))), (add b r))))
    | Zneg a' ->
      (match b with
       | Z0 -> (Z0, a)
       | Zpos _ ->
         let (q, r) = pos_div_eucl a' b in
         (match r with
          | Z0 -> ((opp q), Z0)
          | _ -> ((opp (add q (Zpos XH))), (sub b r)))
       | Zneg b' -> let (q, r) = pos_div_eucl a' (Zpos b') in (q, (opp r)))

  (** val modulo : z -> z -> z **)

  let modulo a b =
    let (_, r) = div_eucl a b in r

  (** val odd : z -> bool **)

  let odd = function
  | Z0 -> false
  | Zpos p0 -> (match p0 with
                | XO _ -> false
                | _ -> true)
  | Zneg p0 -> (match p0 with
                | XO _ -> false
                | _ -> true)

  (** val testbit : z -> z -> bool **)

  let testbit a = function
  | Z0 -> odd a
  | Zpos p0 ->
    (match a with
     | Z0 -> false
     | Zpos a0 -> Pos.testbit a0 (Npos p0)
     | Zneg a0 -> negb (N.testbit (Pos.pred_N a0) (Npos p0)))
  | Zneg _ -> false
 end

type ppc =
| PIdle
| PLoad
| PCas
| PWrite
| PReady
| PAlloc
| PNext
| PLink
| PStore

type cpc =
| CIdle
| CTry
| CTail
| CSpin
| CCommit
| CFree
| CNext
| CSetH
| CLenH
| CLenT
| DHead
| DTail
| DNext
| DFree1
| DFree2
| DOld
| CDead

type op =
| OPop
| OBulk
| OPeek
| OLen

type blk = { bstart : nat; bnext : nat; bval : (nat -> nat option);
             brdy : (nat -> bool) }

type pst = { pp : ppc; lb : nat; li : nat; pv : nat; pnew : nat; pnx : 
             nat; gk : nat }

type mem = { heap : (nat -> blk option); taddr : nat; ti : nat; tc : 
             bool; hidx : nat; hblk : nat; oldb : nat }

type cons = { cp : cpc; cop : op; cdrop : bool; ck : nat; cend : nat;
              cacc : nat list; cnx : nat; chd : nat; cblk : nat; clh : 
              nat; cres : nat; cret : nat list }

type gst = { rlog : (nat * nat) list; absq : nat list; popped : nat list;
             saw : bool; glen0 : nat; badr : (nat -> nat); nblk : nat;
             gtk : nat; ghk : nat; glo : nat; gcl : nat; act : nat list;
             nalloc : nat; nfree : nat }

type mon = { bad_uaf : bool; bad_dfree : bool; bad_over : bool;
             bad_fifo : bool; bad_none : bool; bad_len : bool;
             bad_assert : bool }

type st = { m : mem; p : (nat -> pst); c : cons; g : gst; f : mon }

(** val upd : (nat -> 'a1) -> nat -> 'a1 -> nat -> 'a1 **)

let upd f0 i v j =
  if Nat.eqb j i then v else f0 j

(** val isnil : 'a1 list -> bool **)

let isnil = function
| [] -> true
| _ :: _ -> false

(** val list_eqb : nat list -> nat list -> bool **)

let rec list_eqb a b =
  match a with
  | [] -> (match b with
           | [] -> true
           | _ :: _ -> false)
  | x :: a' ->
    (match b with
     | [] -> false
     | y :: b' -> (&&) (Nat.eqb x y) (list_eqb a' b'))

(** val remove_nat : nat -> nat list -> nat list **)

let rec remove_nat x = function
| [] -> []
| y :: r -> if Nat.eqb y x then remove_nat x r else y :: (remove_nat x r)

(** val valof : nat option -> nat **)

let valof = function
| Some v -> v
| None -> O

(** val issome : 'a1 option -> bool **)

let issome = function
| Some _ -> true
| None -> false

(** val dead_blk : blk **)

let dead_blk =
  { bstart = O; bnext = O; bval = (fun _ -> None); brdy = (fun _ -> false) }

(** val fresh_blk : nat -> blk **)

let fresh_blk start =
  { bstart = start; bnext = O; bval = (fun _ -> None); brdy = (fun _ ->
    false) }

(** val hget : (nat -> blk option) -> nat -> blk **)

let hget h a =
  match h a with
  | Some b -> b
  | None -> dead_blk

(** val b_next : blk -> nat -> blk **)

let b_next b n0 =
  { bstart = b.bstart; bnext = n0; bval = b.bval; brdy = b.brdy }

(** val b_val : blk -> nat -> nat -> blk **)

let b_val b i v =
  { bstart = b.bstart; bnext = b.bnext; bval = (upd b.bval i (Some v));
    brdy = b.brdy }

(** val b_rdy : blk -> nat -> blk **)

let b_rdy b i =
  { bstart = b.bstart; bnext = b.bnext; bval = b.bval; brdy =
    (upd b.brdy i true) }

(** val m_heap : mem -> (nat -> blk option) -> mem **)

let m_heap m0 v =
  { heap = v; taddr = m0.taddr; ti = m0.ti; tc = m0.tc; hidx = m0.hidx;
    hblk = m0.hblk; oldb = m0.oldb }

(** val m_tail : mem -> nat -> nat -> bool -> mem **)

let m_tail m0 a i c0 =
  { heap = m0.heap; taddr = a; ti = i; tc = c0; hidx = m0.hidx; hblk =
    m0.hblk; oldb = m0.oldb }

(** val m_hidx : mem -> nat -> mem **)

let m_hidx m0 v =
  { heap = m0.heap; taddr = m0.taddr; ti = m0.ti; tc = m0.tc; hidx = v;
    hblk = m0.hblk; oldb = m0.oldb }

(** val m_hblk : mem -> nat -> mem **)

let m_hblk m0 v =
  { heap = m0.heap; taddr = m0.taddr; ti = m0.ti; tc = m0.tc; hidx = m0.hidx;
    hblk = v; oldb = m0.oldb }

(** val m_oldb : mem -> nat -> mem **)

let m_oldb m0 v =
  { heap = m0.heap; taddr = m0.taddr; ti = m0.ti; tc = m0.tc; hidx = m0.hidx;
    hblk = m0.hblk; oldb = v }

(** val x_pc : pst -> ppc -> pst **)

let x_pc x v =
  { pp = v; lb = x.lb; li = x.li; pv = x.pv; pnew = x.pnew; pnx = x.pnx; gk =
    x.gk }

(** val x_loc : pst -> nat -> nat -> pst **)

let x_loc x b i =
  { pp = PCas; lb = b; li = i; pv = x.pv; pnew = x.pnew; pnx = x.pnx; gk =
    x.gk }

(** val x_gk : pst -> nat -> pst **)

let x_gk x v =
  { pp = x.pp; lb = x.lb; li = x.li; pv = x.pv; pnew = x.pnew; pnx = x.pnx;
    gk = v }

(** val x_new : pst -> nat -> pst **)

let x_new x v =
  { pp = x.pp; lb = x.lb; li = x.li; pv = x.pv; pnew = v; pnx = x.pnx; gk =
    x.gk }

(** val x_nx : pst -> nat -> pst **)

let x_nx x v =
  { pp = x.pp; lb = x.lb; li = x.li; pv = x.pv; pnew = x.pnew; pnx = v; gk =
    x.gk }

(** val c_pc : cons -> cpc -> cons **)

let c_pc c0 v =
  { cp = v; cop = c0.cop; cdrop = c0.cdrop; ck = c0.ck; cend = c0.cend;
    cacc = c0.cacc; cnx = c0.cnx; chd = c0.chd; cblk = c0.cblk; clh = c0.clh;
    cres = c0.cres; cret = c0.cret }

(** val c_rd : cons -> nat -> nat list -> cons **)

let c_rd c0 k a =
  { cp = c0.cp; cop = c0.cop; cdrop = c0.cdrop; ck = k; cend = c0.cend;
    cacc = a; cnx = c0.cnx; chd = c0.chd; cblk = c0.cblk; clh = c0.clh;
    cres = c0.cres; cret = c0.cret }

(** val c_end : cons -> nat -> cons **)

let c_end c0 v =
  { cp = c0.cp; cop = c0.cop; cdrop = c0.cdrop; ck = c0.ck; cend = v; cacc =
    c0.cacc; cnx = c0.cnx; chd = c0.chd; cblk = c0.cblk; clh = c0.clh; cres =
    c0.cres; cret = c0.cret }

(** val c_nx : cons -> nat -> cons **)

let c_nx c0 v =
  { cp = c0.cp; cop = c0.cop; cdrop = c0.cdrop; ck = c0.ck; cend = c0.cend;
    cacc = c0.cacc; cnx = v; chd = c0.chd; cblk = c0.cblk; clh = c0.clh;
    cres = c0.cres; cret = c0.cret }

(** val c_hd : cons -> nat -> cons **)

let c_hd c0 v =
  { cp = c0.cp; cop = c0.cop; cdrop = c0.cdrop; ck = c0.ck; cend = c0.cend;
    cacc = c0.cacc; cnx = c0.cnx; chd = v; cblk = c0.cblk; clh = c0.clh;
    cres = c0.cres; cret = c0.cret }

(** val c_blk : cons -> nat -> cons **)

let c_blk c0 v =
  { cp = c0.cp; cop = c0.cop; cdrop = c0.cdrop; ck = c0.ck; cend = c0.cend;
    cacc = c0.cacc; cnx = c0.cnx; chd = c0.chd; cblk = v; clh = c0.clh;
    cres = c0.cres; cret = c0.cret }

(** val c_lh : cons -> nat -> cons **)

let c_lh c0 v =
  { cp = c0.cp; cop = c0.cop; cdrop = c0.cdrop; ck = c0.ck; cend = c0.cend;
    cacc = c0.cacc; cnx = c0.cnx; chd = c0.chd; cblk = c0.cblk; clh = v;
    cres = c0.cres; cret = c0.cret }

(** val c_res : cons -> nat -> cons **)

let c_res c0 v =
  { cp = c0.cp; cop = c0.cop; cdrop = c0.cdrop; ck = c0.ck; cend = c0.cend;
    cacc = c0.cacc; cnx = c0.cnx; chd = c0.chd; cblk = c0.cblk; clh = c0.clh;
    cres = v; cret = c0.cret }

(** val c_ret : cons -> nat list -> cons **)

let c_ret c0 v =
  { cp = c0.cp; cop = c0.cop; cdrop = c0.cdrop; ck = c0.ck; cend = c0.cend;
    cacc = c0.cacc; cnx = c0.cnx; chd = c0.chd; cblk = c0.cblk; clh = c0.clh;
    cres = c0.cres; cret = v }

(** val c_call : cons -> cpc -> op -> bool -> nat -> cons **)

let c_call c0 e o d h =
  { cp = e; cop = o; cdrop = d; ck = h; cend = h; cacc = []; cnx = O; chd =
    O; cblk = O; clh = O; cres = O; cret = c0.cret }

(** val g_rlog : gst -> (nat * nat) list -> gst **)

let g_rlog g0 v =
  { rlog = v; absq = g0.absq; popped = g0.popped; saw = g0.saw; glen0 =
    g0.glen0; badr = g0.badr; nblk = g0.nblk; gtk = g0.gtk; ghk = g0.ghk;
    glo = g0.glo; gcl = g0.gcl; act = g0.act; nalloc = g0.nalloc; nfree =
    g0.nfree }

(** val g_absq : gst -> nat list -> gst **)

let g_absq g0 v =
  { rlog = g0.rlog; absq = v; popped = g0.popped; saw = g0.saw; glen0 =
    g0.glen0; badr = g0.badr; nblk = g0.nblk; gtk = g0.gtk; ghk = g0.ghk;
    glo = g0.glo; gcl = g0.gcl; act = g0.act; nalloc = g0.nalloc; nfree =
    g0.nfree }

(** val g_popped : gst -> nat list -> gst **)

let g_popped g0 v =
  { rlog = g0.rlog; absq = g0.absq; popped = v; saw = g0.saw; glen0 =
    g0.glen0; badr = g0.badr; nblk = g0.nblk; gtk = g0.gtk; ghk = g0.ghk;
    glo = g0.glo; gcl = g0.gcl; act = g0.act; nalloc = g0.nalloc; nfree =
    g0.nfree }

(** val g_saw : gst -> bool -> gst **)

let g_saw g0 v =
  { rlog = g0.rlog; absq = g0.absq; popped = g0.popped; saw = v; glen0 =
    g0.glen0; badr = g0.badr; nblk = g0.nblk; gtk = g0.gtk; ghk = g0.ghk;
    glo = g0.glo; gcl = g0.gcl; act = g0.act; nalloc = g0.nalloc; nfree =
    g0.nfree }

(** val g_len0 : gst -> nat -> gst **)

let g_len0 g0 v =
  { rlog = g0.rlog; absq = g0.absq; popped = g0.popped; saw = g0.saw; glen0 =
    v; badr = g0.badr; nblk = g0.nblk; gtk = g0.gtk; ghk = g0.ghk; glo =
    g0.glo; gcl = g0.gcl; act = g0.act; nalloc = g0.nalloc; nfree = g0.nfree }

(** val g_newblk : gst -> nat -> gst **)

let g_newblk g0 x =
  { rlog = g0.rlog; absq = g0.absq; popped = g0.popped; saw = g0.saw; glen0 =
    g0.glen0; badr = (upd g0.badr g0.nblk x); nblk = (S g0.nblk); gtk =
    g0.gtk; ghk = g0.ghk; glo = g0.glo; gcl = g0.gcl; act = g0.act; nalloc =
    (S g0.nalloc); nfree = g0.nfree }

(** val g_tk : gst -> nat -> gst **)

let g_tk g0 v =
  { rlog = g0.rlog; absq = g0.absq; popped = g0.popped; saw = g0.saw; glen0 =
    g0.glen0; badr = g0.badr; nblk = g0.nblk; gtk = v; ghk = g0.ghk; glo =
    g0.glo; gcl = g0.gcl; act = g0.act; nalloc = g0.nalloc; nfree = g0.nfree }

(** val g_hk : gst -> nat -> gst **)

let g_hk g0 v =
  { rlog = g0.rlog; absq = g0.absq; popped = g0.popped; saw = g0.saw; glen0 =
    g0.glen0; badr = g0.badr; nblk = g0.nblk; gtk = g0.gtk; ghk = v; glo =
    g0.glo; gcl = g0.gcl; act = g0.act; nalloc = g0.nalloc; nfree = g0.nfree }

(** val g_lo : gst -> nat -> gst **)

let g_lo g0 v =
  { rlog = g0.rlog; absq = g0.absq; popped = g0.popped; saw = g0.saw; glen0 =
    g0.glen0; badr = g0.badr; nblk = g0.nblk; gtk = g0.gtk; ghk = g0.ghk;
    glo = v; gcl = g0.gcl; act = g0.act; nalloc = g0.nalloc; nfree =
    g0.nfree }

(** val g_cl : gst -> nat -> gst **)

let g_cl g0 v =
  { rlog = g0.rlog; absq = g0.absq; popped = g0.popped; saw = g0.saw; glen0 =
    g0.glen0; badr = g0.badr; nblk = g0.nblk; gtk = g0.gtk; ghk = g0.ghk;
    glo = g0.glo; gcl = v; act = g0.act; nalloc = g0.nalloc; nfree =
    g0.nfree }

(** val g_act : gst -> nat list -> gst **)

let g_act g0 v =
  { rlog = g0.rlog; absq = g0.absq; popped = g0.popped; saw = g0.saw; glen0 =
    g0.glen0; badr = g0.badr; nblk = g0.nblk; gtk = g0.gtk; ghk = g0.ghk;
    glo = g0.glo; gcl = g0.gcl; act = v; nalloc = g0.nalloc; nfree =
    g0.nfree }

(** val g_nfree : gst -> nat -> gst **)

let g_nfree g0 v =
  { rlog = g0.rlog; absq = g0.absq; popped = g0.popped; saw = g0.saw; glen0 =
    g0.glen0; badr = g0.badr; nblk = g0.nblk; gtk = g0.gtk; ghk = g0.ghk;
    glo = g0.glo; gcl = g0.gcl; act = g0.act; nalloc = g0.nalloc; nfree = v }

(** val f_uaf : mon -> bool -> mon **)

let f_uaf f0 b =
  { bad_uaf = ((||) f0.bad_uaf b); bad_dfree = f0.bad_dfree; bad_over =
    f0.bad_over; bad_fifo = f0.bad_fifo; bad_none = f0.bad_none; bad_len =
    f0.bad_len; bad_assert = f0.bad_assert }

(** val f_dfree : mon -> bool -> mon **)

let f_dfree f0 b =
  { bad_uaf = f0.bad_uaf; bad_dfree = ((||) f0.bad_dfree b); bad_over =
    f0.bad_over; bad_fifo = f0.bad_fifo; bad_none = f0.bad_none; bad_len =
    f0.bad_len; bad_assert = f0.bad_assert }

(** val f_over : mon -> bool -> mon **)

let f_over f0 b =
  { bad_uaf = f0.bad_uaf; bad_dfree = f0.bad_dfree; bad_over =
    ((||) f0.bad_over b); bad_fifo = f0.bad_fifo; bad_none = f0.bad_none;
    bad_len = f0.bad_len; bad_assert = f0.bad_assert }

(** val f_fifo : mon -> bool -> mon **)

let f_fifo f0 b =
  { bad_uaf = f0.bad_uaf; bad_dfree = f0.bad_dfree; bad_over = f0.bad_over;
    bad_fifo = ((||) f0.bad_fifo b); bad_none = f0.bad_none; bad_len =
    f0.bad_len; bad_assert = f0.bad_assert }

(** val f_none : mon -> bool -> mon **)

let f_none f0 b =
  { bad_uaf = f0.bad_uaf; bad_dfree = f0.bad_dfree; bad_over = f0.bad_over;
    bad_fifo = f0.bad_fifo; bad_none = ((||) f0.bad_none b); bad_len =
    f0.bad_len; bad_assert = f0.bad_assert }

(** val f_len : mon -> bool -> mon **)

let f_len f0 b =
  { bad_uaf = f0.bad_uaf; bad_dfree = f0.bad_dfree; bad_over = f0.bad_over;
    bad_fifo = f0.bad_fifo; bad_none = f0.bad_none; bad_len =
    ((||) f0.bad_len b); bad_assert = f0.bad_assert }

(** val f_assert : mon -> bool -> mon **)

let f_assert f0 b =
  { bad_uaf = f0.bad_uaf; bad_dfree = f0.bad_dfree; bad_over = f0.bad_over;
    bad_fifo = f0.bad_fifo; bad_none = f0.bad_none; bad_len = f0.bad_len;
    bad_assert = ((||) f0.bad_assert b) }

(** val s_M : st -> mem -> st **)

let s_M s v =
  { m = v; p = s.p; c = s.c; g = s.g; f = s.f }

(** val s_P : st -> (nat -> pst) -> st **)

let s_P s v =
  { m = s.m; p = v; c = s.c; g = s.g; f = s.f }

(** val s_C : st -> cons -> st **)

let s_C s v =
  { m = s.m; p = s.p; c = v; g = s.g; f = s.f }

(** val s_G : st -> gst -> st **)

let s_G s v =
  { m = s.m; p = s.p; c = s.c; g = v; f = s.f }

(** val s_F : st -> mon -> st **)

let s_F s v =
  { m = s.m; p = s.p; c = s.c; g = s.g; f = v }

(** val setP : st -> nat -> pst -> st **)

let setP s p0 x =
  s_P s (upd s.p p0 x)

(** val deref : st -> nat -> st **)

let deref s a =
  s_F s (f_uaf s.f (negb (issome (s.m.heap a))))

(** val hmod : st -> nat -> (blk -> blk) -> st **)

let hmod s a f0 =
  s_M s (m_heap s.m (upd s.m.heap a (option_map f0 (s.m.heap a))))

(** val halloc : st -> nat -> nat -> st **)

let halloc s x start =
  s_G (s_M s (m_heap s.m (upd s.m.heap x (Some (fresh_blk start)))))
    (g_newblk s.g x)

(** val hfree : st -> nat -> st **)

let hfree s a =
  match s.m.heap a with
  | Some _ ->
    s_G (s_M s (m_heap s.m (upd s.m.heap a None))) (g_nfree s.g (S s.g.nfree))
  | None -> s_F s (f_dfree s.f true)

(** val blk_at : st -> nat -> blk **)

let blk_at s a =
  hget s.m.heap a

type action =
| Push of nat * nat
| PStep of nat * nat
| Pop
| Bulk
| Peek
| Len
| Drop
| CStep

(** val blkend : nat -> nat -> nat **)

let blkend b i =
  mul (add (Nat.div i b) (S O)) b

(** val pendv : st -> nat **)

let pendv s =
  if (&&) s.m.tc ((blk_at s s.m.taddr).brdy s.m.ti) then S O else O

(** val p_call : st -> nat -> nat -> st **)

let p_call s p0 v =
  s_G
    (setP s p0 { pp = PLoad; lb = O; li = O; pv = v; pnew = O; pnx = O; gk =
      O }) (g_act s.g (p0 :: s.g.act))

(** val p_load : st -> nat -> st **)

let p_load s p0 =
  setP s p0 (x_loc (s.p p0) s.m.taddr s.m.ti)

(** val cas_ok : st -> nat -> bool **)

let cas_ok s p0 =
  (&&) ((&&) (Nat.eqb (s.p p0).lb s.m.taddr) (Nat.eqb (s.p p0).li s.m.ti))
    (negb s.m.tc)

(** val p_cas : nat -> st -> nat -> st **)

let p_cas b s p0 =
  let x = s.p p0 in
  let m0 = s.m in
  let g0 = s.g in
  if cas_ok s p0
  then if Nat.ltb (S x.li) b
       then s_G
              (s_M (setP s p0 (x_gk (x_pc x PWrite) g0.gtk))
                (m_tail m0 m0.taddr (S m0.ti) false))
              (g_absq (g_rlog g0 (app g0.rlog ((p0, x.pv) :: [])))
                (app g0.absq (x.pv :: [])))
       else s_G
              (s_M (setP s p0 (x_gk (x_pc x PWrite) g0.gtk))
                (m_tail m0 m0.taddr m0.ti true))
              (g_cl (g_rlog g0 (app g0.rlog ((p0, x.pv) :: []))) p0)
  else setP s p0 (x_loc x m0.taddr m0.ti)

(** val p_write : st -> nat -> st **)

let p_write s p0 =
  let x = s.p p0 in
  let s1 = deref s x.lb in
  let b = blk_at s x.lb in
  let s2 = s_F s1 (f_over s1.f ((||) (issome (b.bval x.li)) (b.brdy x.li))) in
  setP (hmod s2 x.lb (fun b0 -> b_val b0 x.li x.pv)) p0 (x_pc x PReady)

(** val p_ready : nat -> st -> nat -> st **)

let p_ready b s p0 =
  let x = s.p p0 in
  let s1 = hmod (deref s x.lb) x.lb (fun b0 -> b_rdy b0 x.li) in
  if Nat.ltb (S x.li) b
  then s_G (setP s1 p0 (x_pc x PIdle)) (g_act s1.g (remove_nat p0 s1.g.act))
  else s_G (setP s1 p0 (x_pc x PAlloc))
         (g_absq s1.g (app s1.g.absq (x.pv :: [])))

(** val alloc_ok : st -> nat -> bool **)

let alloc_ok s x =
  (&&) (negb (Nat.eqb x O)) (negb (issome (s.m.heap x)))

(** val p_alloc : nat -> st -> nat -> nat -> st **)

let p_alloc b s p0 x =
  let me = s.p p0 in
  let s1 = deref s me.lb in
  setP (halloc s1 x (add (blk_at s me.lb).bstart (mul (S (S O)) b))) p0
    (x_new (x_pc me PNext) x)

(** val p_next : st -> nat -> st **)

let p_next s p0 =
  let me = s.p p0 in
  let s1 = deref s me.lb in
  let n0 = (blk_at s me.lb).bnext in
  if Nat.eqb n0 O then s1 else setP s1 p0 (x_nx (x_pc me PLink) n0)

(** val p_link : st -> nat -> st **)

let p_link s p0 =
  let me = s.p p0 in
  setP (hmod (deref s me.pnx) me.pnx (fun b -> b_next b me.pnew)) p0
    (x_pc me PStore)

(** val p_store : st -> nat -> st **)

let p_store s p0 =
  let me = s.p p0 in
  s_G (s_M (setP s p0 (x_pc me PIdle)) (m_tail s.m me.pnx O false))
    (g_act (g_tk s.g (S s.g.gtk)) (remove_nat p0 s.g.act))

(** val entry : op -> cpc **)

let entry = function
| OPeek -> CTail
| OLen -> CLenH
| _ -> CTry

(** val c_start : st -> op -> bool -> st **)

let c_start s o d =
  s_G (s_C s (c_call s.c (entry o) o d s.m.hidx))
    (g_len0 (g_saw s.g false) (length s.g.absq))

(** val c_fin : st -> st **)

let c_fin s =
  if s.c.cdrop then c_start s OPop true else s_C s (c_pc s.c CIdle)

(** val c_fin_empty : st -> st **)

let c_fin_empty s =
  s_C s (c_pc (c_ret s.c []) (if s.c.cdrop then DHead else CIdle))

(** val c_try : nat -> st -> st **)

let c_try b s =
  let c0 = s.c in
  let m0 = s.m in
  let s1 = deref s m0.hblk in
  let b0 = blk_at s m0.hblk in
  let i = Nat.modulo c0.ck b in
  if b0.brdy i
  then let acc = app c0.cacc ((valof (b0.bval i)) :: []) in
       let stop =
         match c0.cop with
         | OBulk -> Nat.eqb (Nat.modulo (S c0.ck) b) O
         | _ -> true
       in
       s_C s1 (c_pc (c_rd c0 (S c0.ck) acc) (if stop then CCommit else CTry))
  else if isnil c0.cacc
       then s_G (s_C s1 (c_pc c0 CTail))
              (g_saw s1.g ((||) s1.g.saw (isnil s1.g.absq)))
       else s_C s1 (c_pc c0 CCommit)

(** val push_index : st -> nat **)

let push_index s =
  add (blk_at s s.m.taddr).bstart s.m.ti

(** val c_tail : nat -> st -> st **)

let c_tail b s =
  let c0 = s.c in
  let m0 = s.m in
  let g0 = s.g in
  let s1 = deref s m0.taddr in
  let pidx = push_index s in
  if Nat.leb pidx m0.hidx
  then let unjust =
         match c0.cop with
         | OPeek -> negb (Nat.leb (length g0.absq) (pendv s))
         | _ -> negb ((||) g0.saw (isnil g0.absq))
       in
       c_fin_empty (s_F s1 (f_none s1.f unjust))
  else let e =
         match c0.cop with
         | OBulk -> Nat.min pidx (blkend b m0.hidx)
         | _ -> S m0.hidx
       in
       s_C s1 (c_pc (c_end c0 e) CSpin)

(** val c_spin : nat -> st -> st **)

let c_spin b s =
  let c0 = s.c in
  let m0 = s.m in
  let s1 = deref s m0.hblk in
  let b0 = blk_at s m0.hblk in
  let i = Nat.modulo c0.ck b in
  if b0.brdy i
  then let acc = app c0.cacc ((valof (b0.bval i)) :: []) in
       if Nat.eqb (S c0.ck) c0.cend
       then (match c0.cop with
             | OPeek ->
               s_F (s_C s1 (c_pc (c_ret (c_rd c0 (S c0.ck) acc) acc) CIdle))
                 (f_fifo s1.f (negb (list_eqb acc (firstn (S O) s1.g.absq))))
             | _ -> s_C s1 (c_pc (c_rd c0 (S c0.ck) acc) CCommit))
       else s_C s1 (c_rd c0 (S c0.ck) acc)
  else s1

(** val c_commit : nat -> st -> st **)

let c_commit b s =
  let c0 = s.c in
  let m0 = s.m in
  let g0 = s.g in
  let n0 = length c0.cacc in
  let ni = add m0.hidx n0 in
  let s1 =
    s_F
      (s_G (s_M s (m_hidx m0 ni))
        (g_popped (g_absq g0 (skipn n0 g0.absq)) (app g0.popped c0.cacc)))
      (f_fifo s.f (negb (list_eqb c0.cacc (firstn n0 g0.absq))))
  in
  let s2 = s_C s1 (c_ret s1.c c0.cacc) in
  if Nat.eqb (Nat.modulo ni b) O then s_C s2 (c_pc s2.c CFree) else c_fin s2

(** val c_free : bool -> st -> st **)

let c_free delay s =
  let s1 =
    if delay
    then let s0 = if Nat.eqb s.m.oldb O then s else hfree s s.m.oldb in
         s_G (s_M s0 (m_oldb s0.m s0.m.hblk)) (g_lo s0.g s0.g.ghk)
    else s
  in
  s_C s1 (c_pc s1.c CNext)

(** val c_next : st -> st **)

let c_next s =
  let s1 = deref s s.m.hblk in
  let n0 = (blk_at s s.m.hblk).bnext in
  if Nat.eqb n0 O then s1 else s_C s1 (c_pc (c_nx s1.c n0) CSetH)

(** val c_seth : bool -> st -> st **)

let c_seth delay s =
  let old = s.m.hblk in
  let s1 = s_G (s_M s (m_hblk s.m s.c.cnx)) (g_hk s.g (S s.g.ghk)) in
  let s2 =
    if delay then s1 else let s0 = hfree s1 old in s_G s0 (g_lo s0.g s0.g.ghk)
  in
  c_fin s2

(** val c_lenh : st -> st **)

let c_lenh s =
  s_C s (c_pc (c_lh s.c s.m.hidx) CLenT)

(** val c_lent : st -> st **)

let c_lent s =
  let s1 = deref s s.m.taddr in
  let r = sub (push_index s) s.c.clh in
  s_F (s_C s1 (c_pc (c_res s1.c r) CIdle))
    (f_len s1.f
      ((||) (Nat.ltb (add r (pendv s)) s.g.glen0)
        (Nat.ltb (length s.g.absq) r)))

(** val d_head : st -> st **)

let d_head s =
  s_C s (c_pc (c_hd s.c s.m.hblk) DTail)

(** val d_tail : st -> st **)

let d_tail s =
  s_F (s_C s (c_pc (c_blk s.c s.m.taddr) DNext))
    (f_assert s.f ((||) (negb (Nat.eqb s.m.taddr s.c.chd)) s.m.tc))

(** val d_next : st -> st **)

let d_next s =
  let s1 = deref s s.c.cblk in
  let n0 = (blk_at s s.c.cblk).bnext in
  s_F (s_C s1 (c_pc (c_nx s1.c n0) DFree1)) (f_assert s1.f (Nat.eqb n0 O))

(** val d_free1 : st -> st **)

let d_free1 s =
  let s1 = hfree s s.c.cnx in s_C s1 (c_pc s1.c DFree2)

(** val d_free2 : st -> st **)

let d_free2 s =
  let s1 = hfree s s.c.cblk in s_C s1 (c_pc s1.c DOld)

(** val d_old : st -> st **)

let d_old s =
  let s0 = if Nat.eqb s.m.oldb O then s else hfree s s.m.oldb in
  s_G (s_C (s_M s0 (m_oldb s0.m O)) (c_pc s0.c CDead)) (g_lo s0.g s0.g.ghk)

(** val api_ok : st -> bool **)

let api_ok s =
  match s.c.cp with
  | CIdle -> negb s.c.cdrop
  | _ -> false

(** val step : nat -> bool -> st -> action -> st option **)

let step b delay s = function
| Push (p0, v) ->
  (match (s.p p0).pp with
   | PIdle -> if s.c.cdrop then None else Some (p_call s p0 v)
   | _ -> None)
| PStep (p0, x) ->
  (match (s.p p0).pp with
   | PIdle -> None
   | PLoad -> Some (p_load s p0)
   | PCas -> Some (p_cas b s p0)
   | PWrite -> Some (p_write s p0)
   | PReady -> Some (p_ready b s p0)
   | PAlloc -> if alloc_ok s x then Some (p_alloc b s p0 x) else None
   | PNext -> Some (p_next s p0)
   | PLink -> Some (p_link s p0)
   | PStore -> Some (p_store s p0))
| Pop -> if api_ok s then Some (c_start s OPop false) else None
| Bulk -> if api_ok s then Some (c_start s OBulk false) else None
| Peek -> if api_ok s then Some (c_start s OPeek false) else None
| Len -> if api_ok s then Some (c_start s OLen false) else None
| Drop ->
  if (&&) (api_ok s) (isnil s.g.act) then Some (c_start s OPop true) else None
| CStep ->
  (match s.c.cp with
   | CTry -> Some (c_try b s)
   | CTail -> Some (c_tail b s)
   | CSpin -> Some (c_spin b s)
   | CCommit -> Some (c_commit b s)
   | CFree -> Some (c_free delay s)
   | CNext -> Some (c_next s)
   | CSetH -> Some (c_seth delay s)
   | CLenH -> Some (c_lenh s)
   | CLenT -> Some (c_lent s)
   | DHead -> Some (d_head s)
   | DTail -> Some (d_tail s)
   | DNext -> Some (d_next s)
   | DFree1 -> Some (d_free1 s)
   | DFree2 -> Some (d_free2 s)
   | DOld -> Some (d_old s)
   | _ -> None)

(** val init : nat -> st **)

let init b =
  { m = { heap = (fun a ->
    if Nat.eqb a (S O)
    then Some (b_next (fresh_blk O) (S (S O)))
    else if Nat.eqb a (S (S O)) then Some (fresh_blk b) else None); taddr =
    (S O); ti = O; tc = false; hidx = O; hblk = (S O); oldb = O }; p =
    (fun _ -> { pp = PIdle; lb = O; li = O; pv = O; pnew = O; pnx = O; gk =
    O }); c = { cp = CIdle; cop = OPop; cdrop = false; ck = O; cend = O;
    cacc = []; cnx = O; chd = O; cblk = O; clh = O; cres = O; cret = [] };
    g = { rlog = []; absq = []; popped = []; saw = false; glen0 = O; badr =
    (fun k -> S k); nblk = (S (S O)); gtk = O; ghk = O; glo = O; gcl = O;
    act = []; nalloc = (S (S O)); nfree = O }; f = { bad_uaf = false;
    bad_dfree = false; bad_over = false; bad_fifo = false; bad_none = false;
    bad_len = false; bad_assert = false } }

(** val run : nat -> bool -> st -> action list -> st option **)

let rec run b delay s = function
| [] -> Some s
| a :: l' ->
  (match step b delay s a with
   | Some s' -> run b delay s' l'
   | None -> None)

(** val monitors_ok : st -> bool **)

let monitors_ok s =
  let f0 = s.f in
  negb
    ((||)
      ((||)
        ((||)
          ((||) ((||) ((||) f0.bad_uaf f0.bad_dfree) f0.bad_over) f0.bad_fifo)
          f0.bad_none) f0.bad_len) f0.bad_assert)

type aux = { ren : (z * nat) list; fob : (z * z) list; boot : nat;
             pin : nat list; cact : z; ccall : nat; nitems : nat; vdue : 
             bool }

type ast = st * aux

(** val aux0 : aux **)

let aux0 =
  { ren = []; fob = []; boot = O; pin = []; cact = Z0; ccall = O; nitems = O;
    vdue = false }

(** val a_init : nat -> ast **)

let a_init b =
  ((init b), aux0)

(** val lookup : (z * 'a1) list -> z -> 'a1 option **)

let rec lookup l a =
  match l with
  | [] -> None
  | p0 :: r -> let (a', b) = p0 in if Z.eqb a' a then Some b else lookup r a

(** val rlookup_n : (z * nat) list -> nat -> z option **)

let rec rlookup_n l b =
  match l with
  | [] -> None
  | p0 :: r ->
    let (a, b') = p0 in if Nat.eqb b' b then Some a else rlookup_n r b

(** val rlookup_z : (z * z) list -> z -> z option **)

let rec rlookup_z l b =
  match l with
  | [] -> None
  | p0 :: r ->
    let (a, b') = p0 in if Z.eqb b' b then Some a else rlookup_z r b

(** val bind_n : (z * nat) list -> z -> nat -> (z * nat) list option **)

let bind_n l a b =
  match lookup l a with
  | Some b' -> if Nat.eqb b' b then Some l else None
  | None ->
    (match rlookup_n l b with
     | Some _ -> None
     | None -> Some ((a, b) :: l))

(** val bind_z : (z * z) list -> z -> z -> (z * z) list option **)

let bind_z l a b =
  match lookup l a with
  | Some b' -> if Z.eqb b' b then Some l else None
  | None ->
    (match rlookup_z l b with
     | Some _ -> None
     | None -> Some ((a, b) :: l))

(** val rn : aux -> z -> nat **)

let rn x v =
  match lookup x.ren v with
  | Some b -> b
  | None -> O

(** val addr_for : aux -> z -> nat **)

let addr_for x v =
  match lookup x.ren v with
  | Some b -> b
  | None -> S (length x.ren)

(** val ppc_eqb : ppc -> ppc -> bool **)

let ppc_eqb a b =
  match a with
  | PIdle -> (match b with
              | PIdle -> true
              | _ -> false)
  | PLoad -> (match b with
              | PLoad -> true
              | _ -> false)
  | PCas -> (match b with
             | PCas -> true
             | _ -> false)
  | PWrite -> (match b with
               | PWrite -> true
               | _ -> false)
  | PReady -> (match b with
               | PReady -> true
               | _ -> false)
  | PAlloc -> (match b with
               | PAlloc -> true
               | _ -> false)
  | PNext -> (match b with
              | PNext -> true
              | _ -> false)
  | PLink -> (match b with
              | PLink -> true
              | _ -> false)
  | PStore -> (match b with
               | PStore -> true
               | _ -> false)

(** val cpc_eqb : cpc -> cpc -> bool **)

let cpc_eqb a b =
  match a with
  | CIdle -> (match b with
              | CIdle -> true
              | _ -> false)
  | CTry -> (match b with
             | CTry -> true
             | _ -> false)
  | CTail -> (match b with
              | CTail -> true
              | _ -> false)
  | CSpin -> (match b with
              | CSpin -> true
              | _ -> false)
  | CCommit -> (match b with
                | CCommit -> true
                | _ -> false)
  | CFree -> (match b with
              | CFree -> true
              | _ -> false)
  | CNext -> (match b with
              | CNext -> true
              | _ -> false)
  | CSetH -> (match b with
              | CSetH -> true
              | _ -> false)
  | CLenH -> (match b with
              | CLenH -> true
              | _ -> false)
  | CLenT -> (match b with
              | CLenT -> true
              | _ -> false)
  | DHead -> (match b with
              | DHead -> true
              | _ -> false)
  | DTail -> (match b with
              | DTail -> true
              | _ -> false)
  | DNext -> (match b with
              | DNext -> true
              | _ -> false)
  | DFree1 -> (match b with
               | DFree1 -> true
               | _ -> false)
  | DFree2 -> (match b with
               | DFree2 -> true
               | _ -> false)
  | DOld -> (match b with
             | DOld -> true
             | _ -> false)
  | CDead -> (match b with
              | CDead -> true
              | _ -> false)

(** val op_eqb : op -> op -> bool **)

let op_eqb a b =
  match a with
  | OPop -> (match b with
             | OPop -> true
             | _ -> false)
  | OBulk -> (match b with
              | OBulk -> true
              | _ -> false)
  | OPeek -> (match b with
              | OPeek -> true
              | _ -> false)
  | OLen -> (match b with
             | OLen -> true
             | _ -> false)

(** val set_ren : aux -> (z * nat) list -> aux **)

let set_ren x l =
  { ren = l; fob = x.fob; boot = x.boot; pin = x.pin; cact = x.cact; ccall =
    x.ccall; nitems = x.nitems; vdue = x.vdue }

(** val set_fob : aux -> (z * z) list -> aux **)

let set_fob x l =
  { ren = x.ren; fob = l; boot = x.boot; pin = x.pin; cact = x.cact; ccall =
    x.ccall; nitems = x.nitems; vdue = x.vdue }

(** val set_boot : aux -> nat -> aux **)

let set_boot x n0 =
  { ren = x.ren; fob = x.fob; boot = n0; pin = x.pin; cact = x.cact; ccall =
    x.ccall; nitems = x.nitems; vdue = x.vdue }

(** val set_pin : aux -> nat list -> aux **)

let set_pin x l =
  { ren = x.ren; fob = x.fob; boot = x.boot; pin = l; cact = x.cact; ccall =
    x.ccall; nitems = x.nitems; vdue = x.vdue }

(** val set_call : aux -> z -> nat -> aux **)

let set_call x a n0 =
  { ren = x.ren; fob = x.fob; boot = x.boot; pin = x.pin; cact = a; ccall =
    n0; nitems = O; vdue = x.vdue }

(** val set_items : aux -> nat -> aux **)

let set_items x n0 =
  { ren = x.ren; fob = x.fob; boot = x.boot; pin = x.pin; cact = x.cact;
    ccall = x.ccall; nitems = n0; vdue = x.vdue }

(** val set_vdue : aux -> bool -> aux **)

let set_vdue x b =
  { ren = x.ren; fob = x.fob; boot = x.boot; pin = x.pin; cact = x.cact;
    ccall = x.ccall; nitems = x.nitems; vdue = b }

(** val fin :
    nat -> st -> bool -> action list -> (st -> bool) -> (st -> aux option) ->
    ast option **)

let fin b s pre acts post nx =
  if pre
  then (match run b true s acts with
        | Some s' ->
          if post s'
          then (match nx s' with
                | Some x' -> Some (s', x')
                | None -> None)
          else None
        | None -> None)
  else None

(** val zn : nat -> z -> bool **)

let zn n0 v =
  Z.eqb (Z.of_nat n0) v

(** val znz : z -> bool **)

let znz v =
  negb (Z.eqb v Z0)

(** val memb : nat -> nat list -> bool **)

let memb p0 l =
  existsb (Nat.eqb p0) l

(** val zclosing : z -> bool **)

let zclosing w =
  Z.testbit w (Zpos (XI (XI (XI (XI (XI XH))))))

(** val zlow : z -> z **)

let zlow w =
  Z.modulo w (Z.pow (Zpos (XO XH)) (Zpos (XI (XI (XI (XI (XI XH)))))))

(** val zidx : nat -> z -> nat **)

let zidx b w =
  Z.to_nat (Z.modulo (zlow w) (Z.of_nat b))

(** val zaddr : nat -> z -> z **)

let zaddr b w =
  Z.sub (zlow w) (Z.modulo (zlow w) (Z.of_nat b))

(** val tail_is : nat -> st -> aux -> z -> bool **)

let tail_is b s x w =
  (&&)
    ((&&)
      ((&&) (Nat.eqb (rn x (zaddr b w)) s.m.taddr)
        (negb (Nat.eqb s.m.taddr O))) (Nat.eqb (zidx b w) s.m.ti))
    (eqb (zclosing w) s.m.tc)

(** val w_tail : z **)

let w_tail =
  Zpos XH

(** val w_hidx : z **)

let w_hidx =
  Zpos (XO XH)

(** val w_hblk : z **)

let w_hblk =
  Zpos (XI XH)

(** val w_base : nat -> nat -> z **)

let w_base b a =
  Z.add (Zpos (XO (XO (XO (XO XH)))))
    (Z.mul (Z.of_nat a)
      (Z.add (Z.mul (Zpos (XO XH)) (Z.of_nat b)) (Zpos (XO XH))))

(** val w_next : nat -> nat -> z **)

let w_next =
  w_base

(** val w_slot : nat -> nat -> nat -> z **)

let w_slot b a i =
  Z.add (Z.add (w_base b a) (Zpos XH)) (Z.of_nat i)

(** val w_rdy : nat -> nat -> nat -> z **)

let w_rdy b a i =
  Z.add (Z.add (Z.add (w_base b a) (Zpos XH)) (Z.of_nat b)) (Z.of_nat i)

(** val inc : aux -> z -> nat -> bool **)

let inc x a k =
  (&&) ((&&) (Z.eqb x.cact a) (Nat.eqb x.ccall k)) (negb (Z.eqb a Z0))

(** val incs : aux -> z -> bool **)

let incs x a =
  (&&) (Z.eqb x.cact a) (negb (Z.eqb a Z0))

(** val word_of : nat -> st -> aux -> z -> z -> z option **)

let word_of b s x code a =
  let p0 = Z.to_nat a in
  let me = s.p p0 in
  let m0 = s.m in
  let c0 = s.c in
  (match code with
   | Zpos p1 ->
     (match p1 with
      | XI p2 ->
        (match p2 with
         | XI p3 ->
           (match p3 with
            | XI p4 ->
              (match p4 with
               | XI p5 ->
                 (match p5 with
                  | XH -> Some (w_rdy b m0.hblk (Nat.modulo c0.ck b))
                  | _ -> None)
               | XO p5 ->
                 (match p5 with
                  | XI _ -> None
                  | XO p6 -> (match p6 with
                              | XH -> Some w_hidx
                              | _ -> None)
                  | XH -> Some (w_slot b me.lb me.li))
               | XH -> None)
            | XO p4 ->
              (match p4 with
               | XI p5 ->
                 (match p5 with
                  | XI _ -> None
                  | XO p6 ->
                    (match p6 with
                     | XH -> Some (w_next b (S O))
                     | _ -> None)
                  | XH -> Some (w_next b me.pnx))
               | XO p5 ->
                 (match p5 with
                  | XO p6 -> (match p6 with
                              | XH -> Some w_hidx
                              | _ -> None)
                  | _ -> None)
               | XH -> None)
            | XH -> None)
         | XO p3 ->
           (match p3 with
            | XI p4 ->
              (match p4 with
               | XI p5 ->
                 (match p5 with
                  | XH -> Some (w_rdy b m0.hblk (Nat.modulo c0.ck b))
                  | _ -> None)
               | XO p5 ->
                 (match p5 with
                  | XI _ -> None
                  | XO p6 -> (match p6 with
                              | XH -> Some w_hblk
                              | _ -> None)
                  | XH -> Some w_tail)
               | XH -> None)
            | XO p4 ->
              (match p4 with
               | XI p5 ->
                 (match p5 with
                  | XI _ -> None
                  | XO p6 -> (match p6 with
                              | XH -> Some w_tail
                              | _ -> None)
                  | XH ->
                    if (&&) (incs x a) (cpc_eqb c0.cp CNext)
                    then Some (w_next b m0.hblk)
                    else Some (w_next b me.lb))
               | XO p5 ->
                 (match p5 with
                  | XO p6 -> (match p6 with
                              | XH -> Some w_hidx
                              | _ -> None)
                  | _ -> None)
               | XH -> None)
            | XH -> None)
         | XH -> None)
      | XO p2 ->
        (match p2 with
         | XI p3 ->
           (match p3 with
            | XI p4 ->
              (match p4 with
               | XI p5 -> (match p5 with
                           | XH -> Some w_tail
                           | _ -> None)
               | XO p5 ->
                 (match p5 with
                  | XI _ -> None
                  | XO p6 -> (match p6 with
                              | XH -> Some w_hblk
                              | _ -> None)
                  | XH -> Some w_tail)
               | XH -> None)
            | XO p4 ->
              (match p4 with
               | XI p5 ->
                 (match p5 with
                  | XI _ -> None
                  | XO p6 ->
                    (match p6 with
                     | XH -> Some (w_next b c0.cblk)
                     | _ -> None)
                  | XH ->
                    if (&&) (incs x a) (cpc_eqb c0.cp CNext)
                    then Some (w_next b m0.hblk)
                    else Some (w_next b me.lb))
               | XO p5 ->
                 (match p5 with
                  | XO p6 -> (match p6 with
                              | XH -> Some w_hidx
                              | _ -> None)
                  | _ -> None)
               | XH -> None)
            | XH -> None)
         | XO p3 ->
           (match p3 with
            | XI p4 ->
              (match p4 with
               | XI p5 -> (match p5 with
                           | XH -> Some w_tail
                           | _ -> None)
               | XO p5 ->
                 (match p5 with
                  | XO p6 -> (match p6 with
                              | XH -> Some w_hblk
                              | _ -> None)
                  | _ -> None)
               | XH -> None)
            | XO p4 ->
              (match p4 with
               | XI p5 ->
                 (match p5 with
                  | XI _ -> None
                  | XO p6 -> (match p6 with
                              | XH -> Some w_hblk
                              | _ -> None)
                  | XH -> Some (w_rdy b me.lb me.li))
               | XO p5 ->
                 (match p5 with
                  | XO p6 ->
                    (match p6 with
                     | XH -> Some (w_rdy b m0.hblk (Nat.modulo c0.ck b))
                     | _ -> None)
                  | _ -> None)
               | XH -> None)
            | XH -> None)
         | XH -> None)
      | XH -> None)
   | _ -> None)

(** val commit_acts : nat -> st -> action list **)

let commit_acts b s =
  if (&&) (Nat.eqb (Nat.modulo (add s.m.hidx (length s.c.cacc)) b) O)
       (Nat.eqb s.m.oldb O)
  then CStep :: (CStep :: [])
  else CStep :: []

(** val dfree2_acts : st -> action list **)

let dfree2_acts s =
  if Nat.eqb s.m.oldb O then CStep :: (CStep :: []) else CStep :: []

(** val accept_core : nat -> ast -> z list -> ast option **)

let accept_core b sx e =
  let (s, x) = sx in
  let m0 = s.m in
  let c0 = s.c in
  (match e with
   | [] -> None
   | code :: l ->
     (match l with
      | [] -> None
      | a :: l0 ->
        (match l0 with
         | [] -> None
         | o :: l1 ->
           (match l1 with
            | [] -> None
            | v :: l2 ->
              (match l2 with
               | [] ->
                 let p0 = Z.to_nat a in
                 let me = s.p p0 in
                 let up = (&&) (Nat.eqb x.boot (S (S (S O)))) (Z.ltb Z0 a) in
                 let atp = fun pc ->
                   (&&) ((&&) (ppc_eqb me.pp pc) up) (memb p0 x.pin)
                 in
                 let atc = fun pc ->
                   (&&) ((&&) (cpc_eqb c0.cp pc) up) (incs x a)
                 in
                 let same = fun _ -> Some x in
                 let yes = fun _ -> true in
                 (match code with
                  | Zpos p1 ->
                    (match p1 with
                     | XI p2 ->
                       (match p2 with
                        | XI p3 ->
                          (match p3 with
                           | XI p4 ->
                             (match p4 with
                              | XI p5 ->
                                (match p5 with
                                 | XH ->
                                   fin b s
                                     ((&&) (atc CSpin)
                                       (negb (op_eqb c0.cop OPeek)))
                                     (CStep :: []) (fun s' ->
                                     if znz v
                                     then Nat.eqb s'.c.ck (S c0.ck)
                                     else Nat.eqb s'.c.ck c0.ck) same
                                 | _ -> None)
                              | XO p5 ->
                                (match p5 with
                                 | XI _ -> None
                                 | XO p6 ->
                                   (match p6 with
                                    | XH ->
                                      fin b s (atc CLenH) (CStep :: [])
                                        (fun s' -> zn s'.c.clh v) same
                                    | _ -> None)
                                 | XH ->
                                   fin b s ((&&) (atp PWrite) (zn me.li v))
                                     ((PStep (p0, O)) :: []) yes same)
                              | XH ->
                                fin b s
                                  ((&&)
                                    ((&&) (cpc_eqb c0.cp CDead)
                                      (inc x a (S (S (S (S (S (S O))))))))
                                    (negb x.vdue)) [] yes (fun _ -> Some
                                  (set_call x Z0 O)))
                           | XO p4 ->
                             (match p4 with
                              | XI p5 ->
                                (match p5 with
                                 | XI _ -> None
                                 | XO p6 ->
                                   (match p6 with
                                    | XH ->
                                      fin b s
                                        ((&&) (Nat.eqb x.boot (S (S O)))
                                          (Nat.eqb (rn x v) (S (S O)))) []
                                        yes (fun _ -> Some
                                        (set_boot x (S (S (S O)))))
                                    | _ -> None)
                                 | XH ->
                                   fin b s
                                     ((&&)
                                       ((&&) (atp PLink)
                                         (Nat.eqb (rn x v) me.pnew)) 
                                       (znz v)) ((PStep (p0, O)) :: []) yes
                                     same)
                              | XO p5 ->
                                (match p5 with
                                 | XO p6 ->
                                   (match p6 with
                                    | XH ->
                                      fin b s
                                        ((&&)
                                          ((&&) (atc CCommit)
                                            (op_eqb c0.cop OBulk))
                                          (negb (Nat.eqb c0.cend m0.hidx)))
                                        (commit_acts b s) (fun s' ->
                                        zn s'.m.hidx v) same
                                    | _ -> None)
                                 | _ -> None)
                              | XH ->
                                fin b s
                                  ((&&)
                                    ((&&) (cpc_eqb c0.cp CIdle)
                                      (inc x a (S (S (S (S O))))))
                                    (eqb (Nat.eqb c0.cres O) (znz v))) [] yes
                                  (fun _ -> Some (set_call x Z0 O)))
                           | XH ->
                             fin b s
                               ((&&)
                                 ((&&)
                                   ((&&)
                                     ((&&) (cpc_eqb c0.cp CIdle)
                                       (inc x a (S (S O)))) (zn x.nitems o))
                                   (Nat.ltb x.nitems (length c0.cret)))
                                 (zn (nth x.nitems c0.cret O) v)) [] yes
                               (fun _ -> Some (set_items x (S x.nitems))))
                        | XO p3 ->
                          (match p3 with
                           | XI p4 ->
                             (match p4 with
                              | XI p5 ->
                                (match p5 with
                                 | XH ->
                                   fin b s ((&&) (atc CTry) (negb x.vdue))
                                     (CStep :: []) (fun s' ->
                                     if znz v
                                     then Nat.eqb s'.c.ck (S c0.ck)
                                     else Nat.eqb s'.c.ck c0.ck) same
                                 | _ -> None)
                              | XO p5 ->
                                (match p5 with
                                 | XI _ -> None
                                 | XO p6 ->
                                   (match p6 with
                                    | XH ->
                                      fin b s
                                        ((&&)
                                          ((&&)
                                            ((&&)
                                              ((&&) (atc CSetH)
                                                (op_eqb c0.cop OBulk))
                                              (Nat.eqb c0.cend
                                                (sub c0.ck (length c0.cacc))))
                                            (znz v))
                                          (Nat.eqb (rn x v) c0.cnx))
                                        (CStep :: []) yes same
                                    | _ -> None)
                                 | XH ->
                                   fin b s
                                     ((&&) (atp PLoad) (tail_is b s x v))
                                     ((PStep (p0, O)) :: []) yes same)
                              | XH ->
                                fin b s
                                  ((&&)
                                    ((&&) (cpc_eqb c0.cp CIdle)
                                      (inc x a (S (S (S (S (S O)))))))
                                    (if znz o
                                     then (match c0.cret with
                                           | [] -> false
                                           | r :: l3 ->
                                             (match l3 with
                                              | [] -> zn r v
                                              | _ :: _ -> false))
                                     else isnil c0.cret)) [] yes (fun _ ->
                                  Some (set_call x Z0 O)))
                           | XO p4 ->
                             (match p4 with
                              | XI p5 ->
                                (match p5 with
                                 | XI _ -> None
                                 | XO p6 ->
                                   (match p6 with
                                    | XH ->
                                      fin b s
                                        ((&&) (atc DTail) (tail_is b s x v))
                                        (CStep :: []) yes same
                                    | _ -> None)
                                 | XH ->
                                   if atc CNext
                                   then fin b s true (CStep :: []) (fun s' ->
                                          if znz v
                                          then (&&) (cpc_eqb s'.c.cp CSetH)
                                                 (Nat.eqb (rn x v) s'.c.cnx)
                                          else cpc_eqb s'.c.cp CNext) same
                                   else fin b s (atp PNext) ((PStep (p0,
                                          O)) :: []) (fun s' ->
                                          if znz v
                                          then (&&)
                                                 (ppc_eqb (s'.p p0).pp PLink)
                                                 (Nat.eqb (rn x v)
                                                   (s'.p p0).pnx)
                                          else ppc_eqb (s'.p p0).pp PNext)
                                          same)
                              | XO p5 ->
                                (match p5 with
                                 | XI _ -> None
                                 | XO p6 ->
                                   (match p6 with
                                    | XH ->
                                      fin b s
                                        ((&&) (atc CCommit)
                                          (op_eqb c0.cop OPop))
                                        (commit_acts b s) (fun s' ->
                                        zn s'.m.hidx v) (fun _ -> Some
                                        (set_vdue x c0.cdrop))
                                    | _ -> None)
                                 | XH ->
                                   (match x.boot with
                                    | O ->
                                      fin b s true [] yes (fun _ ->
                                        option_map (fun l3 ->
                                          set_boot (set_ren x l3) (S O))
                                          (bind_n x.ren v (S O)))
                                    | S n0 ->
                                      (match n0 with
                                       | O ->
                                         fin b s true [] yes (fun _ ->
                                           option_map (fun l3 ->
                                             set_boot (set_ren x l3) (S (S O)))
                                             (bind_n x.ren v (S (S O))))
                                       | S n1 ->
                                         (match n1 with
                                          | O -> None
                                          | S n2 ->
                                            (match n2 with
                                             | O ->
                                               let ad = addr_for x v in
                                               fin b s
                                                 ((&&) (atp PAlloc) (znz v))
                                                 ((PStep (p0, ad)) :: []) yes
                                                 (fun _ ->
                                                 option_map (set_ren x)
                                                   (bind_n x.ren v ad))
                                             | S _ -> None)))))
                              | XH ->
                                fin b s
                                  ((&&)
                                    ((&&) (cpc_eqb c0.cp CIdle)
                                      (inc x a (S (S (S O))))) (zn c0.cres v))
                                  [] yes (fun _ -> Some (set_call x Z0 O)))
                           | XH ->
                             fin b s ((&&) up (Z.eqb x.cact Z0)) (Bulk :: [])
                               yes (fun _ -> Some (set_call x a (S (S O)))))
                        | XH ->
                          fin b s ((&&) up (Z.eqb x.cact Z0)) (Pop :: []) yes
                            (fun _ -> Some (set_call x a (S O))))
                     | XO p2 ->
                       (match p2 with
                        | XI p3 ->
                          (match p3 with
                           | XI p4 ->
                             (match p4 with
                              | XI p5 ->
                                (match p5 with
                                 | XH ->
                                   fin b s
                                     ((&&) ((||) (atc CTail) (atc CLenT))
                                       (tail_is b s x v)) (CStep :: []) yes
                                     same
                                 | _ -> None)
                              | XO p5 ->
                                (match p5 with
                                 | XI _ -> None
                                 | XO p6 ->
                                   (match p6 with
                                    | XH ->
                                      fin b s
                                        ((&&)
                                          ((&&)
                                            ((&&)
                                              ((&&) (atc CSetH)
                                                (op_eqb c0.cop OBulk))
                                              (negb
                                                (Nat.eqb c0.cend
                                                  (sub c0.ck (length c0.cacc)))))
                                            (znz v))
                                          (Nat.eqb (rn x v) c0.cnx))
                                        (CStep :: []) yes same
                                    | _ -> None)
                                 | XH ->
                                   fin b s (atp PCas) ((PStep (p0, O)) :: [])
                                     (fun s' ->
                                     eqb (ppc_eqb (s'.p p0).pp PWrite) (znz v))
                                     same)
                              | XH ->
                                fin b s
                                  ((&&) ((&&) up (Z.eqb x.cact Z0))
                                    (isnil x.pin)) (Drop :: []) yes (fun _ ->
                                  Some
                                  (set_call x a (S (S (S (S (S (S O)))))))))
                           | XO p4 ->
                             (match p4 with
                              | XI p5 ->
                                (match p5 with
                                 | XI _ -> None
                                 | XO p6 ->
                                   (match p6 with
                                    | XH ->
                                      fin b s (atc DNext) (CStep :: [])
                                        (fun s' ->
                                        (&&) (znz v)
                                          (Nat.eqb (rn x v) s'.c.cnx)) same
                                    | _ -> None)
                                 | XH ->
                                   if atc CNext
                                   then fin b s true (CStep :: []) (fun s' ->
                                          if znz v
                                          then (&&) (cpc_eqb s'.c.cp CSetH)
                                                 (Nat.eqb (rn x v) s'.c.cnx)
                                          else cpc_eqb s'.c.cp CNext) same
                                   else fin b s (atp PNext) ((PStep (p0,
                                          O)) :: []) (fun s' ->
                                          if znz v
                                          then (&&)
                                                 (ppc_eqb (s'.p p0).pp PLink)
                                                 (Nat.eqb (rn x v)
                                                   (s'.p p0).pnx)
                                          else ppc_eqb (s'.p p0).pp PNext)
                                          same)
                              | XO p5 ->
                                (match p5 with
                                 | XI _ -> None
                                 | XO p6 ->
                                   (match p6 with
                                    | XH ->
                                      fin b s
                                        ((&&)
                                          ((&&) (atc CCommit)
                                            (op_eqb c0.cop OBulk))
                                          (Nat.eqb c0.cend m0.hidx))
                                        (commit_acts b s) (fun s' ->
                                        zn s'.m.hidx v) same
                                    | _ -> None)
                                 | XH ->
                                   if cpc_eqb c0.cp CFree
                                   then fin b s
                                          ((&&) ((&&) (atc CFree) (znz v))
                                            (Nat.eqb (rn x v) m0.oldb))
                                          (CStep :: []) yes same
                                   else if cpc_eqb c0.cp DFree1
                                        then fin b s
                                               ((&&)
                                                 ((&&) (atc DFree1) (znz v))
                                                 (Nat.eqb (rn x v) c0.cnx))
                                               (CStep :: []) yes same
                                        else if cpc_eqb c0.cp DFree2
                                             then fin b s
                                                    ((&&)
                                                      ((&&) (atc DFree2)
                                                        (znz v))
                                                      (Nat.eqb (rn x v)
                                                        c0.cblk))
                                                    (dfree2_acts s) yes same
                                             else fin b s
                                                    ((&&)
                                                      ((&&) (atc DOld)
                                                        (znz v))
                                                      (Nat.eqb (rn x v)
                                                        m0.oldb))
                                                    (CStep :: []) yes same)
                              | XH ->
                                fin b s ((&&) up (Z.eqb x.cact Z0))
                                  (Len :: []) yes (fun _ -> Some
                                  (set_call x a (S (S (S (S O)))))))
                           | XH ->
                             fin b s
                               ((&&)
                                 ((&&)
                                   ((&&) (cpc_eqb c0.cp CIdle)
                                     (inc x a (S (S O))))
                                   (zn (length c0.cret) o))
                                 (Nat.eqb x.nitems (length c0.cret))) [] yes
                               (fun _ -> Some (set_call x Z0 O)))
                        | XO p3 ->
                          (match p3 with
                           | XI p4 ->
                             (match p4 with
                              | XI p5 ->
                                (match p5 with
                                 | XH ->
                                   fin b s
                                     ((&&)
                                       ((&&) (atp PStore)
                                         (Nat.eqb (rn x v) me.pnx)) (znz v))
                                     ((PStep (p0, O)) :: []) yes same
                                 | _ -> None)
                              | XO p5 ->
                                (match p5 with
                                 | XO p6 ->
                                   (match p6 with
                                    | XH ->
                                      fin b s
                                        ((&&)
                                          ((&&)
                                            ((&&) (atc CSetH)
                                              (op_eqb c0.cop OPop)) (znz v))
                                          (Nat.eqb (rn x v) c0.cnx))
                                        (CStep :: []) yes same
                                    | _ -> None)
                                 | _ -> None)
                              | XH ->
                                fin b s ((&&) up (Z.eqb x.cact Z0))
                                  (Peek :: []) yes (fun _ -> Some
                                  (set_call x a (S (S (S (S (S O))))))))
                           | XO p4 ->
                             (match p4 with
                              | XI p5 ->
                                (match p5 with
                                 | XI _ -> None
                                 | XO p6 ->
                                   (match p6 with
                                    | XH ->
                                      fin b s
                                        ((&&)
                                          ((&&) ((&&) (atc DHead) (znz v))
                                            (Nat.eqb (rn x v) m0.hblk))
                                          (negb x.vdue)) (CStep :: []) yes
                                        same
                                    | _ -> None)
                                 | XH ->
                                   fin b s
                                     ((&&) (atp PReady) (Z.eqb v (Zpos XH)))
                                     ((PStep (p0, O)) :: []) yes same)
                              | XO p5 ->
                                (match p5 with
                                 | XI _ -> None
                                 | XO p6 ->
                                   (match p6 with
                                    | XH ->
                                      fin b s
                                        ((&&) (atc CSpin)
                                          (op_eqb c0.cop OPeek))
                                        (CStep :: []) (fun s' ->
                                        if znz v
                                        then Nat.eqb s'.c.ck (S c0.ck)
                                        else Nat.eqb s'.c.ck c0.ck) same
                                    | _ -> None)
                                 | XH ->
                                   fin b s
                                     ((&&)
                                       ((&&)
                                         ((&&)
                                           ((&&)
                                             ((&&) (cpc_eqb c0.cp CTry)
                                               c0.cdrop)
                                             (inc x a (S (S (S (S (S (S
                                               O)))))))) x.vdue)
                                         (Nat.eqb c0.ck m0.hidx))
                                       (match c0.cret with
                                        | [] -> false
                                        | r :: l3 ->
                                          (match l3 with
                                           | [] -> zn r v
                                           | _ :: _ -> false))) [] yes
                                     (fun _ -> Some (set_vdue x false)))
                              | XH ->
                                fin b s ((&&) up (Z.eqb x.cact Z0))
                                  (Len :: []) yes (fun _ -> Some
                                  (set_call x a (S (S (S O))))))
                           | XH ->
                             fin b s
                               ((&&)
                                 ((&&) (cpc_eqb c0.cp CIdle) (inc x a (S O)))
                                 (if znz o
                                  then (match c0.cret with
                                        | [] -> false
                                        | r :: l3 ->
                                          (match l3 with
                                           | [] -> zn r v
                                           | _ :: _ -> false))
                                  else isnil c0.cret)) [] yes (fun _ -> Some
                               (set_call x Z0 O)))
                        | XH ->
                          fin b s (atp PIdle) [] yes (fun _ -> Some
                            (set_pin x (remove_nat p0 x.pin))))
                     | XH ->
                       fin b s
                         ((&&)
                           ((&&) ((&&) (ppc_eqb me.pp PIdle) up)
                             (negb (memb p0 x.pin))) (Z.leb Z0 v)) ((Push
                         (p0, (Z.to_nat v))) :: []) yes (fun _ -> Some
                         (set_pin x (p0 :: x.pin))))
                  | _ -> None)
               | _ :: _ -> None)))))

(** val accept_ev : nat -> ast -> z list -> ast option **)

let accept_ev b sx e =
  match accept_core b sx e with
  | Some a ->
    let (s', x') = a in
    (match e with
     | [] -> Some (s', x')
     | code :: l ->
       (match l with
        | [] -> Some (s', x')
        | a0 :: l0 ->
          (match l0 with
           | [] -> Some (s', x')
           | o :: l1 ->
             (match l1 with
              | [] -> Some (s', x')
              | _ :: l2 ->
                (match l2 with
                 | [] ->
                   (match word_of b (fst sx) (snd sx) code a0 with
                    | Some w ->
                      option_map (fun l3 -> (s', (set_fob x' l3)))
                        (bind_z x'.fob o w)
                    | None -> Some (s', x'))
                 | _ :: _ -> Some (s', x'))))))
  | None -> None

(** val a_final : ast -> bool **)

let a_final sx =
  let s = fst sx in
  (&&) (monitors_ok s)
    (if cpc_eqb s.c.cp CDead then Nat.eqb s.g.nalloc s.g.nfree else true)

(** val m_init : ast **)

let m_init =
  a_init (S (S (S (S (S (S (S (S (S (S (S (S (S (S (S (S (S (S (S (S (S (S (S
    (S (S (S (S (S (S (S (S (S (S (S (S (S (S (S (S (S (S (S (S (S (S (S (S
    (S (S (S (S (S (S (S (S (S (S (S (S (S (S (S (S (S
    O))))))))))))))))))))))))))))))))))))))))))))))))))))))))))))))))

(** val m_accept : ast -> z list -> ast option **)

let m_accept =
  accept_ev (S (S (S (S (S (S (S (S (S (S (S (S (S (S (S (S (S (S (S (S (S (S
    (S (S (S (S (S (S (S (S (S (S (S (S (S (S (S (S (S (S (S (S (S (S (S (S
    (S (S (S (S (S (S (S (S (S (S (S (S (S (S (S (S (S (S
    O))))))))))))))))))))))))))))))))))))))))))))))))))))))))))))))))

(** val m_final : ast -> bool **)

let m_final =
  a_final
