
val negb : bool -> bool

type nat =
| O
| S of nat

val option_map : ('a1 -> 'a2) -> 'a1 option -> 'a2 option

val snd : ('a1 * 'a2) -> 'a2

val app : 'a1 list -> 'a1 list -> 'a1 list

val add : nat -> nat -> nat

val eqb : bool -> bool -> bool

module Nat :
 sig
  val sub : nat -> nat -> nat

  val eqb : nat -> nat -> bool

  val divmod : nat -> nat -> nat -> nat -> nat * nat

  val modulo : nat -> nat -> nat

  val eq_dec : nat -> nat -> bool
 end

val remove : ('a1 -> 'a1 -> bool) -> 'a1 -> 'a1 list -> 'a1 list

val existsb : ('a1 -> bool) -> 'a1 list -> bool

val repeat : 'a1 -> nat -> 'a1 list

type positive =
| XI of positive
| XO of positive
| XH

type n =
| N0
| Npos of positive

type z =
| Z0
| Zpos of positive
| Zneg of positive

module Pos :
 sig
  val succ : positive -> positive

  val add : positive -> positive -> positive

  val add_carry : positive -> positive -> positive

  val pred_double : positive -> positive

  val pred_N : positive -> n

  val mul : positive -> positive -> positive

  val iter : ('a1 -> 'a1) -> 'a1 -> positive -> 'a1

  val div2 : positive -> positive

  val div2_up : positive -> positive

  val eqb : positive -> positive -> bool

  val testbit : positive -> n -> bool

  val iter_op : ('a1 -> 'a1 -> 'a1) -> positive -> 'a1 -> 'a1

  val to_nat : positive -> nat
 end

module N :
 sig
  val testbit : n -> n -> bool
 end

module Z :
 sig
  val double : z -> z

  val succ_double : z -> z

  val pred_double : z -> z

  val pos_sub : positive -> positive -> z

  val add : z -> z -> z

  val opp : z -> z

  val mul : z -> z -> z

  val eqb : z -> z -> bool

  val to_nat : z -> nat

  val odd : z -> bool

  val div2 : z -> z

  val testbit : z -> z -> bool

  val shiftl : z -> z -> z

  val shiftr : z -> z -> z
 end

type ag =
| AT of nat
| AC of nat

type res =
| RVal of z
| RPan of z
| RCancel

type jmode =
| MJoin
| MWait

type gstate =
| GInit
| GLive
| GFin

type place =
| LNone
| LG of nat
| LL of nat
| LH of nat
| LRun of nat
| LSlot
| LDead

type qid =
| QG of nat
| QL of nat

type jpc =
| JW0 of jmode
| JW1 of jmode
| JW2 of jmode * nat
| JW3 of jmode * nat
| JW3p of jmode * nat
| JW4 of jmode * nat
| JT1
| JT2

type pc =
| Idle
| SG of nat
| SP of nat * nat
| SW of nat
| SL of nat
| InJ of nat
| ID0 of nat
| CF of z
| CT1
| CT2
| CT3 of nat
| CRet
| PP0 of z
| PT1
| PT2
| PT3 of nat
| PD

type kpc =
| K0
| KG of nat
| KW of nat
| KRe
| KRun
| KD
| KEnd

type frame =
| FRun of nat
| FKer of nat * kpc
| FPan of nat

type cor = { spawned : bool; gst : gstate; upc : pc; cancelled : bool;
             jstate : bool; jwake : nat option; pkt : z option;
             pan : z option; jcall : (ag * jpc) option; jdone : bool;
             loc : place; bodycnt : nat; outcome : res option; ptaken : 
             bool; jret : res option }

type st = { co : (nat -> cor); gq : (nat -> nat list);
            lq : (nat -> nat list); hand : (nat -> nat list);
            stk : (nat -> frame list); slots : nat list; dead : nat list;
            tpc : (nat -> pc); tok : (nat -> bool); bjoin : (nat -> nat);
            nextb : nat; punp : nat list; rr : nat; nw : nat }

val upd : (nat -> 'a1) -> nat -> 'a1 -> nat -> 'a1

val ag_eqb : ag -> ag -> bool

val cor0 : cor

val cor_new : place -> cor

val mkc :
  bool -> gstate -> pc -> bool -> bool -> nat option -> z option -> z option
  -> (ag * jpc) option -> bool -> place -> nat -> res option -> bool -> res
  option -> cor

val c_upc : cor -> pc -> cor

val c_loc : cor -> place -> cor

val c_canc : cor -> bool -> cor

val c_jstate : cor -> bool -> cor

val c_jwake : cor -> nat option -> cor

val c_pkt : cor -> z option -> cor

val c_pan : cor -> z option -> cor

val c_jcall : cor -> (ag * jpc) option -> cor

val c_jfin : cor -> res -> cor

val c_ptaken : cor -> cor

val c_resume : cor -> place -> cor

val c_end : cor -> gstate -> pc -> res -> cor

val c_gst : cor -> gstate -> cor

val mk :
  (nat -> cor) -> (nat -> nat list) -> (nat -> nat list) -> (nat -> nat list)
  -> (nat -> frame list) -> nat list -> nat list -> (nat -> pc) -> (nat ->
  bool) -> (nat -> nat) -> nat -> nat list -> nat -> nat -> st

val s_co : st -> (nat -> cor) -> st

val s_gq : st -> (nat -> nat list) -> st

val s_lq : st -> (nat -> nat list) -> st

val s_hand : st -> (nat -> nat list) -> st

val s_stk : st -> (nat -> frame list) -> st

val s_slots : st -> nat list -> st

val s_dead : st -> nat list -> st

val s_tpc : st -> (nat -> pc) -> st

val s_tok : st -> (nat -> bool) -> st

val s_newb : st -> nat -> st

val s_punp : st -> nat list -> st

val s_rr : st -> nat -> st

val rm : nat -> nat list -> nat list

val memb : nat -> nat list -> bool

val rm1 : nat -> nat list -> nat list

val on_co : st -> nat -> (cor -> cor) -> st

val getq : st -> qid -> nat list

val setq : st -> qid -> nat list -> st

val qloc : qid -> place

val pushq : st -> qid -> nat -> st

val add_hand : st -> nat -> nat -> st

val del_hand : st -> nat -> nat -> st

val set_stk : st -> nat -> frame list -> st

val cur : st -> nat -> ag option

val apc : st -> ag -> pc

val set_apc : st -> ag -> pc -> st

val live_ag : st -> ag -> bool

val base_idle : st -> nat -> bool

type action =
| ASpawn of nat * nat * nat option * bool
| AJoin of nat * nat * jmode
| AIsDone of nat * nat
| ACancel of nat * nat
| AYield of nat
| AFinish of nat * z
| APanic of nat * z option
| AStep of nat
| AFire of nat
| KLocal of nat
| KFA of nat
| KStep of nat
| KStore of nat
| KSelfTake of nat
| KSkip of nat
| KDrop of nat
| KSubscribed of nat
| Grab of nat * qid
| Put of nat
| TakeSlot of nat * nat
| Resume of nat * nat
| Wake of nat * qid
| DoUnpark of nat * qid

val call_of : st -> ag -> nat -> jpc option

val set_call : st -> ag -> nat -> jpc -> st

val end_call : st -> nat -> st

val park_ret : st -> nat -> st

val pc_idle : pc -> bool

val take_wake : st -> nat -> (nat -> pc) -> pc -> st

val step : st -> action -> st option

val init : nat -> st

val steps : st -> action list -> st option

type aux = { started : bool; bindx : (z * nat) list; pend : (nat -> z);
             panv : (nat -> z option); dfr : (nat -> bool); ost : (nat -> z);
             owk : (nat -> z); opk : (nat -> z); opn : (nat -> z) }

type ast = st * aux

val aux0 : aux

val m_init : ast

val x_started : aux -> aux

val x_bind : aux -> (z * nat) list -> aux

val x_pend : aux -> (nat -> z) -> aux

val x_panv : aux -> (nat -> z option) -> aux

val x_dfr : aux -> (nat -> bool) -> aux

val x_ost : aux -> (nat -> z) -> aux

val x_owk : aux -> (nat -> z) -> aux

val x_opk : aux -> (nat -> z) -> aux

val x_opn : aux -> (nat -> z) -> aux

val lookup : z -> (z * nat) list -> nat option

val bound_co : nat -> (z * nat) list -> bool

val bind_obj : (nat -> z) -> nat -> z -> (nat -> z) option

val zb : z -> bool

val is_some : 'a1 option -> bool

val guard : bool -> 'a1 option -> 'a1 option

val index_of : nat -> nat list -> nat option

val settle : nat -> st -> nat -> action list

val release_act : st -> nat -> nat -> action option

val avail : nat -> st -> nat -> nat -> action list option

val resume_acts : st -> aux -> nat -> nat -> (action list * aux) option

val token_acts : st -> nat -> nat -> action list option

val top_run : st -> nat -> nat option

val top_pan : st -> nat -> nat option

val jmode_of : z -> jmode

val res_code : res -> z

val res_eqb : res option -> z -> bool

type plan = { acts : action list; post : (st -> bool); nxt : aux }

val p : action list -> (st -> bool) -> aux -> plan option

val tt_ : st -> bool

val agent_pc : st -> nat -> (ag * pc) option

val jcall_at : st -> nat -> ((ag * nat) * jpc) option

val plan_ev : st -> aux -> z list -> plan option

val accept_ev : ast -> z list -> ast option

val final_ok : ast -> bool

val m_init0 : ast

val m_accept : ast -> z list -> ast option

val m_final : ast -> bool
