
(** val negb : bool -> bool **)

let negb = function
| true -> false
| false -> true

type nat =
| O
| S of nat

(** val snd : ('a1 * 'a2) -> 'a2 **)

let snd = function
| (_, y) -> y

(** val length : 'a1 list -> nat **)

let rec length = function
| [] -> O
| _ :: l' -> S (length l')

(** val app : 'a1 list -> 'a1 list -> 'a1 list **)

let rec app l m =
  match l with
  | [] -> m
  | a0 :: l1 -> a0 :: (app l1 m)

type comparison =
| Eq
| Lt
| Gt

(** val compOpp : comparison -> comparison **)

let compOpp = function
| Eq -> Eq
| Lt -> Gt
| Gt -> Lt

(** val pred : nat -> nat **)

let pred n = match n with
| O -> n
| S u -> u

module Coq__1 = struct
 (** val add : nat -> nat -> nat **)
 let rec add n m =
   match n with
   | O -> m
   | S p0 -> S (add p0 m)
end
include Coq__1

(** val mul : nat -> nat -> nat **)

let rec mul n m =
  match n with
  | O -> O
  | S p0 -> add m (mul p0 m)

(** val sub : nat -> nat -> nat **)

let rec sub n m =
  match n with
  | O -> n
  | S k -> (match m with
            | O -> n
            | S l -> sub k l)

(** val eqb : bool -> bool -> bool **)

let eqb b1 b2 =
  if b1 then b2 else if b2 then false else true

module Nat =
 struct
  (** val eqb : nat -> nat -> bool **)

  let rec eqb n m =
    match n with
    | O -> (match m with
            | O -> true
            | S _ -> false)
    | S n' -> (match m with
               | O -> false
               | S m' -> eqb n' m')

  (** val leb : nat -> nat -> bool **)

  let rec leb n m =
    match n with
    | O -> true
    | S n' -> (match m with
               | O -> false
               | S m' -> leb n' m')

  (** val ltb : nat -> nat -> bool **)

  let ltb n m =
    leb (S n) m

  (** val even : nat -> bool **)

  let rec even = function
  | O -> true
  | S n0 -> (match n0 with
             | O -> false
             | S n' -> even n')
 end

(** val flat_map : ('a1 -> 'a2 list) -> 'a1 list -> 'a2 list **)

let rec flat_map f = function
| [] -> []
| x :: t0 -> app (f x) (flat_map f t0)

(** val existsb : ('a1 -> bool) -> 'a1 list -> bool **)

let rec existsb f = function
| [] -> false
| a0 :: l0 -> (||) (f a0) (existsb f l0)

(** val forallb : ('a1 -> bool) -> 'a1 list -> bool **)

let rec forallb f = function
| [] -> true
| a0 :: l0 -> (&&) (f a0) (forallb f l0)

(** val filter : ('a1 -> bool) -> 'a1 list -> 'a1 list **)

let rec filter f = function
| [] -> []
| x :: l0 -> if f x then x :: (filter f l0) else filter f l0

(** val find : ('a1 -> bool) -> 'a1 list -> 'a1 option **)

let rec find f = function
| [] -> None
| x :: tl -> if f x then Some x else find f tl

(** val firstn : nat -> 'a1 list -> 'a1 list **)

let rec firstn n l =
  match n with
  | O -> []
  | S n0 -> (match l with
             | [] -> []
             | a0 :: l0 -> a0 :: (firstn n0 l0))

(** val skipn : nat -> 'a1 list -> 'a1 list **)

let rec skipn n l =
  match n with
  | O -> l
  | S n0 -> (match l with
             | [] -> []
             | _ :: l0 -> skipn n0 l0)

(** val seq : nat -> nat -> nat list **)

let rec seq start = function
| O -> []
| S len0 -> start :: (seq (S start) len0)

type positive =
| XI of positive
| XO of positive
| XH

type z =
| Z0
| Zpos of positive
| Zneg of positive

module Pos =
 struct
  (** val succ : positive -> positive **)

  let rec succ = function
  | XI p0 -> XO (succ p0)
  | XO p0 -> XI p0
  | XH -> XO XH

  (** val add : positive -> positive -> positive **)

  let rec add x y =
    match x with
    | XI p0 ->
      (match y with
       | XI q -> XO (add_carry p0 q)
       | XO q -> XI (add p0 q)
       | XH -> XO (succ p0))
    | XO p0 ->
      (match y with
       | XI q -> XI (add p0 q)
       | XO q -> XO (add p0 q)
       | XH -> XI p0)
    | XH -> (match y with
             | XI q -> XO (succ q)
             | XO q -> XI q
             | XH -> XO XH)

  (** val add_carry : positive -> positive -> positive **)

  and add_carry x y =
    match x with
    | XI p0 ->
      (match y with
       | XI q -> XI (add_carry p0 q)
       | XO q -> XO (add_carry p0 q)
       | XH -> XI (succ p0))
    | XO p0 ->
      (match y with
       | XI q -> XO (add_carry p0 q)
       | XO q -> XI (add p0 q)
       | XH -> XO (succ p0))
    | XH ->
      (match y with
       | XI q -> XI (succ q)
       | XO q -> XO (succ q)
       | XH -> XI XH)

  (** val pred_double : positive -> positive **)

  let rec pred_double = function
  | XI p0 -> XI (XO p0)
  | XO p0 -> XI (pred_double p0)
  | XH -> XH

  (** val mul : positive -> positive -> positive **)

  let rec mul x y =
    match x with
    | XI p0 -> add y (XO (mul p0 y))
    | XO p0 -> XO (mul p0 y)
    | XH -> y

  (** val compare_cont : comparison -> positive -> positive -> comparison **)

  let rec compare_cont r x y =
    match x with
    | XI p0 ->
      (match y with
       | XI q -> compare_cont r p0 q
       | XO q -> compare_cont Gt p0 q
       | XH -> Gt)
    | XO p0 ->
      (match y with
       | XI q -> compare_cont Lt p0 q
       | XO q -> compare_cont r p0 q
       | XH -> Gt)
    | XH -> (match y with
             | XH -> r
             | _ -> Lt)

  (** val compare : positive -> positive -> comparison **)

  let compare =
    compare_cont Eq

  (** val eqb : positive -> positive -> bool **)

  let rec eqb p0 q =
    match p0 with
    | XI p1 -> (match q with
                | XI q0 -> eqb p1 q0
                | _ -> false)
    | XO p1 -> (match q with
                | XO q0 -> eqb p1 q0
                | _ -> false)
    | XH -> (match q with
             | XH -> true
             | _ -> false)

  (** val iter_op : ('a1 -> 'a1 -> 'a1) -> positive -> 'a1 -> 'a1 **)

  let rec iter_op op p0 a0 =
    match p0 with
    | XI p1 -> op a0 (iter_op op p1 (op a0 a0))
    | XO p1 -> iter_op op p1 (op a0 a0)
    | XH -> a0

  (** val to_nat : positive -> nat **)

  let to_nat x =
    iter_op Coq__1.add x (S O)

  (** val of_succ_nat : nat -> positive **)

  let rec of_succ_nat = function
  | O -> XH
  | S x -> succ (of_succ_nat x)
 end

module Z =
 struct
  (** val double : z -> z **)

  let double = function
  | Z0 -> Z0
  | Zpos p0 -> Zpos (XO p0)
  | Zneg p0 -> Zneg (XO p0)

  (** val succ_double : z -> z **)

  let succ_double = function
  | Z0 -> Zpos XH
  | Zpos p0 -> Zpos (XI p0)
  | Zneg p0 -> Zneg (Pos.pred_double p0)

  (** val pred_double : z -> z **)

  let pred_double = function
  | Z0 -> Zneg XH
  | Zpos p0 -> Zpos (Pos.pred_double p0)
  | Zneg p0 -> Zneg (XI p0)

  (** val pos_sub : positive -> positive -> z **)

  let rec pos_sub x y =
    match x with
    | XI p0 ->
      (match y with
       | XI q -> double (pos_sub p0 q)
       | XO q -> succ_double (pos_sub p0 q)
       | XH -> Zpos (XO p0))
    | XO p0 ->
      (match y with
       | XI q -> pred_double (pos_sub p0 q)
       | XO q -> double (pos_sub p0 q)
       | XH -> Zpos (Pos.pred_double p0))
    | XH ->
      (match y with
       | XI q -> Zneg (XO q)
       | XO q -> Zneg (Pos.pred_double q)
       | XH -> Z0)

  (** val add : z -> z -> z **)

  let add x y =
    match x with
    | Z0 -> y
    | Zpos x' ->
      (match y with
       | Z0 -> x
       | Zpos y' -> Zpos (Pos.add x' y')
       | Zneg y' -> pos_sub x' y')
    | Zneg x' ->
      (match y with
       | Z0 -> x
       | Zpos y' -> pos_sub y' x'
       | Zneg y' -> Zneg (Pos.add x' y'))

  (** val opp : z -> z **)

  let opp = function
  | Z0 -> Z0
  | Zpos x0 -> Zneg x0
  | Zneg x0 -> Zpos x0

  (** val sub : z -> z -> z **)

  let sub m n =
    add m (opp n)

  (** val mul : z -> z -> z **)

  let mul x y =
    match x with
    | Z0 -> Z0
    | Zpos x' ->
      (match y with
       | Z0 -> Z0
       | Zpos y' -> Zpos (Pos.mul x' y')
       | Zneg y' -> Zneg (Pos.mul x' y'))
    | Zneg x' ->
      (match y with
       | Z0 -> Z0
       | Zpos y' -> Zneg (Pos.mul x' y')
       | Zneg y' -> Zpos (Pos.mul x' y'))

  (** val compare : z -> z -> comparison **)

  let compare x y =
    match x with
    | Z0 -> (match y with
             | Z0 -> Eq
             | Zpos _ -> Lt
             | Zneg _ -> Gt)
    | Zpos x' -> (match y with
                  | Zpos y' -> Pos.compare x' y'
                  | _ -> Gt)
    | Zneg x' ->
      (match y with
       | Zneg y' -> compOpp (Pos.compare x' y')
       | _ -> Lt)

  (** val leb : z -> z -> bool **)

  let leb x y =
    match compare x y with
    | Gt -> false
    | _ -> true

  (** val ltb : z -> z -> bool **)

  let ltb x y =
    match compare x y with
    | Lt -> true
    | _ -> false

  (** val eqb : z -> z -> bool **)

  let eqb x y =
    match x with
    | Z0 -> (match y with
             | Z0 -> true
             | _ -> false)
    | Zpos p0 -> (match y with
                  | Zpos q -> Pos.eqb p0 q
                  | _ -> false)
    | Zneg p0 -> (match y with
                  | Zneg q -> Pos.eqb p0 q
                  | _ -> false)

  (** val to_nat : z -> nat **)

  let to_nat = function
  | Zpos p0 -> Pos.to_nat p0
  | _ -> O

  (** val of_nat : nat -> z **)

  let of_nat = function
  | O -> Z0
  | S n0 -> Zpos (Pos.of_succ_nat n0)

  (** val pos_div_eucl : positive -> z -> z * z **)

  let rec pos_div_eucl a0 b =
    match a0 with
    | XI a' ->
      let (q, r) = pos_div_eucl a' b in
      let r' = add (mul (Zpos (XO XH)) r) (Zpos XH) in
      if ltb r' b
      then ((mul (Zpos (XO XH)) q), r')
      else ((add (mul (Zpos (XO XH)) q) (Zpos XH)), (sub r' b))
    | XO a' ->
      let (q, r) = pos_div_eucl a' b in
      let r' = mul (Zpos (XO XH)) r in
      if ltb r' b
      then ((mul (Zpos (XO XH)) q), r')
      else ((add (mul (Zpos (XO XH)) q) (Zpos XH)), (sub r' b))
    | XH -> if leb (Zpos (XO XH)) b then (Z0, (Zpos XH)) else ((Zpos XH), Z0)

  (** val div_eucl : z -> z -> z * z **)

  let div_eucl a0 b =
    match a0 with
    | Z0 -> (Z0, Z0)
    | Zpos a' ->
      (match b with
       | Z0 -> (Z0, a0)
       | Zpos _ -> pos_div_eucl a' b
       | Zneg b' ->
         let (q, r) = pos_div_eucl a' (Zpos b') in
         (match r with
          | Z0 -> ((opp q), Z0)
          | _ -> ((opp (add q (Zpos XH))), (add b r))))
    | Zneg a' ->
      (match b with
       | Z0 -> (Z0, a0)
       | Zpos _ ->
         let (q, r) = pos_div_eucl a' b in
         (match r with
          | Z0 -> ((opp q), Z0)
          | _ -> ((opp (add q (Zpos XH))), (sub b r)))
       | Zneg b' -> let (q, r) = pos_div_eucl a' (Zpos b') in (q, (opp r)))

  (** val div : z -> z -> z **)

  let div a0 b =
    let (q, _) = div_eucl a0 b in q

  (** val modulo : z -> z -> z **)

  let modulo a0 b =
    let (_, r) = div_eucl a0 b in r
 end

type kind =
| Rd
| Wr
| Ac
| Co

type pc =
| Idle
| PReset
| PTry
| PYield
| Susp
| RBack
| RClr
| LRes
| LClr
| LSys
| LChk
| Dead

type spc =
| SArm
| SStore
| SChk
| SFast
| SFastT of nat
| SSetIo
| SCan
| SCan2
| SCan3 of nat
| SCan4 of nat * nat
| SDone

type selst =
| SIdle
| SEv of nat
| SEvT of nat * nat
| THnd of nat * nat
| THnd2 of nat * nat

type cnst =
| CnIdle
| Cn1
| Cn2 of nat
| Cn3 of nat * nat

type tst =
| TFree
| TArmed
| TGone

type home =
| HNone
| HSub of nat
| HSlot of nat
| HSel of nat
| HFast of nat
| HCan of nat
| HKCan of nat
| HAwake

type res =
| ROk of nat list
| RWrote of nat
| REof
| RPipe
| RTimedOut
| RCanceled
| RAcc of nat
| RConn
| RErr of nat

type cstate =
| CNone
| CProg
| CEst
| CRef of nat
| CConn

type actor = { apc : pc; afd : nat; akind : kind; acn : bool;
               ato : nat option; adat : nat list; an : nat; apara : bool;
               acanc : bool; acio : nat option; aawake : bool; atcall : 
               nat; ahome : home; alast : res option }

type sub0 = { spc_ : spc; sa : nat; sfd : nat; sto : nat option; scn : bool }

type tent = { tstate : tst; tdl : nat; tev : nat option; tmin : nat }

type pipe = { buf : nat list; wshut : bool; sent : nat list; rcvd : nat list;
              eof : bool }

type ksock = { kq : nat list; kst : cstate; ktgt : nat; kdeliv : bool;
               kest : nat list; kacc : nat list }

type st = { now : nat; p : (nat -> pipe); pend : (nat -> bool);
            flag : (nat -> bool); co : (nat -> nat option);
            tmr : (nat -> nat option); busy : (nat -> nat option);
            closed : (nat -> bool); a : (nat -> actor); sb : (nat -> sub0);
            nexts : nat; t : (nat -> tent); nextt : nat;
            sel : (nat -> selst); cn : (nat -> cnst); kn : (nat -> ksock) }

(** val upd : (nat -> 'a1) -> nat -> 'a1 -> nat -> 'a1 **)

let upd f i v j =
  if Nat.eqb j i then v else f j

type action =
| Start of nat * nat * kind * bool * nat option * nat list * nat
| Step of nat * nat
| Resume of nat
| Sub of nat * bool
| SelEvent of nat * nat
| SelTake of nat
| SelDisarm of nat * bool
| SelFire of nat * nat
| SelMark of nat
| SelHnd of nat
| CancelSet of nat
| CancelIo of nat
| CancelTake of nat
| CancelNull of nat
| Tick of nat
| Shutdown of nat
| Spurious of nat
| Close of nat
| Establish of nat
| Refuse of nat * nat
| Deliver of nat

(** val mkA :
    pc -> nat -> kind -> bool -> nat option -> nat list -> nat -> bool ->
    bool -> nat option -> bool -> nat -> home -> res option -> actor **)

let mkA pc' fd' k' cn' to' d' n' pa' ca' ci' aw' tc' h' l' =
  { apc = pc'; afd = fd'; akind = k'; acn = cn'; ato = to'; adat = d'; an =
    n'; apara = pa'; acanc = ca'; acio = ci'; aawake = aw'; atcall = tc';
    ahome = h'; alast = l' }

(** val a_pc : actor -> pc -> actor **)

let a_pc x p0 =
  mkA p0 x.afd x.akind x.acn x.ato x.adat x.an x.apara x.acanc x.acio
    x.aawake x.atcall x.ahome x.alast

(** val a_ret : actor -> res -> actor **)

let a_ret x r =
  mkA Idle x.afd x.akind x.acn x.ato x.adat x.an false x.acanc x.acio
    x.aawake x.atcall x.ahome (Some r)

(** val a_dead : actor -> actor **)

let a_dead x =
  mkA Dead x.afd x.akind x.acn x.ato x.adat x.an x.apara x.acanc x.acio
    x.aawake x.atcall x.ahome (Some RCanceled)

(** val a_susp : actor -> nat -> actor **)

let a_susp x k =
  mkA Susp x.afd x.akind x.acn x.ato x.adat x.an x.apara x.acanc x.acio
    x.aawake x.atcall (HSub k) x.alast

(** val a_home : actor -> home -> actor **)

let a_home x h =
  mkA x.apc x.afd x.akind x.acn x.ato x.adat x.an x.apara x.acanc x.acio
    x.aawake x.atcall h x.alast

(** val a_wake : actor -> actor **)

let a_wake x =
  mkA x.apc x.afd x.akind x.acn x.ato x.adat x.an x.apara x.acanc x.acio true
    x.atcall HAwake x.alast

(** val a_wake_to : actor -> actor **)

let a_wake_to x =
  mkA x.apc x.afd x.akind x.acn x.ato x.adat x.an true x.acanc x.acio true
    x.atcall HAwake x.alast

(** val a_resume : actor -> actor **)

let a_resume x =
  mkA RBack x.afd x.akind x.acn x.ato x.adat x.an x.apara x.acanc x.acio
    false x.atcall HNone x.alast

(** val a_canc : actor -> actor **)

let a_canc x =
  mkA x.apc x.afd x.akind x.acn x.ato x.adat x.an x.apara true x.acio
    x.aawake x.atcall x.ahome x.alast

(** val a_cio : actor -> nat option -> actor **)

let a_cio x c =
  mkA x.apc x.afd x.akind x.acn x.ato x.adat x.an x.apara x.acanc c x.aawake
    x.atcall x.ahome x.alast

(** val a_cio_pc : actor -> nat option -> pc -> actor **)

let a_cio_pc x c p0 =
  mkA p0 x.afd x.akind x.acn x.ato x.adat x.an x.apara x.acanc c x.aawake
    x.atcall x.ahome x.alast

(** val s_pc : sub0 -> spc -> sub0 **)

let s_pc x p0 =
  { spc_ = p0; sa = x.sa; sfd = x.sfd; sto = x.sto; scn = x.scn }

(** val t_null : tent -> bool -> tent **)

let t_null x unl =
  { tstate = (if unl then TGone else x.tstate); tdl = x.tdl; tev = None;
    tmin = x.tmin }

(** val k_st : ksock -> cstate -> ksock **)

let k_st x c =
  { kq = x.kq; kst = c; ktgt = x.ktgt; kdeliv = x.kdeliv; kest = x.kest;
    kacc = x.kacc }

(** val k_start : ksock -> cstate -> nat -> bool -> ksock **)

let k_start x c l d =
  { kq = x.kq; kst = c; ktgt = l; kdeliv = d; kest = x.kest; kacc = x.kacc }

(** val k_deliv : ksock -> ksock **)

let k_deliv x =
  { kq = x.kq; kst = x.kst; ktgt = x.ktgt; kdeliv = true; kest = x.kest;
    kacc = x.kacc }

(** val k_push : ksock -> nat -> ksock **)

let k_push x c =
  { kq = (app x.kq (c :: [])); kst = x.kst; ktgt = x.ktgt; kdeliv = x.kdeliv;
    kest = (app x.kest (c :: [])); kacc = x.kacc }

(** val k_pop : ksock -> nat -> nat list -> ksock **)

let k_pop x c q =
  { kq = q; kst = x.kst; ktgt = x.ktgt; kdeliv = x.kdeliv; kest = x.kest;
    kacc = (app x.kacc (c :: [])) }

(** val t_pop : tent -> tent **)

let t_pop x =
  { tstate = TGone; tdl = x.tdl; tev = x.tev; tmin = x.tmin }

(** val mk :
    nat -> (nat -> pipe) -> (nat -> bool) -> (nat -> bool) -> (nat -> nat
    option) -> (nat -> nat option) -> (nat -> nat option) -> (nat -> bool) ->
    (nat -> actor) -> (nat -> sub0) -> nat -> (nat -> tent) -> nat -> (nat ->
    selst) -> (nat -> cnst) -> (nat -> ksock) -> st **)

let mk n p0 pe fl c tm0 bu cl a0 s ns t0 nt se cn0 kn0 =
  { now = n; p = p0; pend = pe; flag = fl; co = c; tmr = tm0; busy = bu;
    closed = cl; a = a0; sb = s; nexts = ns; t = t0; nextt = nt; sel = se;
    cn = cn0; kn = kn0 }

(** val wnow : st -> nat -> st **)

let wnow s v =
  mk v s.p s.pend s.flag s.co s.tmr s.busy s.closed s.a s.sb s.nexts s.t
    s.nextt s.sel s.cn s.kn

(** val wP : st -> (nat -> pipe) -> st **)

let wP s v =
  mk s.now v s.pend s.flag s.co s.tmr s.busy s.closed s.a s.sb s.nexts s.t
    s.nextt s.sel s.cn s.kn

(** val wpend : st -> (nat -> bool) -> st **)

let wpend s v =
  mk s.now s.p v s.flag s.co s.tmr s.busy s.closed s.a s.sb s.nexts s.t
    s.nextt s.sel s.cn s.kn

(** val wflag : st -> (nat -> bool) -> st **)

let wflag s v =
  mk s.now s.p s.pend v s.co s.tmr s.busy s.closed s.a s.sb s.nexts s.t
    s.nextt s.sel s.cn s.kn

(** val wco : st -> (nat -> nat option) -> st **)

let wco s v =
  mk s.now s.p s.pend s.flag v s.tmr s.busy s.closed s.a s.sb s.nexts s.t
    s.nextt s.sel s.cn s.kn

(** val wtmr : st -> (nat -> nat option) -> st **)

let wtmr s v =
  mk s.now s.p s.pend s.flag s.co v s.busy s.closed s.a s.sb s.nexts s.t
    s.nextt s.sel s.cn s.kn

(** val wbusy : st -> (nat -> nat option) -> st **)

let wbusy s v =
  mk s.now s.p s.pend s.flag s.co s.tmr v s.closed s.a s.sb s.nexts s.t
    s.nextt s.sel s.cn s.kn

(** val wclosed : st -> (nat -> bool) -> st **)

let wclosed s v =
  mk s.now s.p s.pend s.flag s.co s.tmr s.busy v s.a s.sb s.nexts s.t s.nextt
    s.sel s.cn s.kn

(** val wA : st -> (nat -> actor) -> st **)

let wA s v =
  mk s.now s.p s.pend s.flag s.co s.tmr s.busy s.closed v s.sb s.nexts s.t
    s.nextt s.sel s.cn s.kn

(** val wS : st -> (nat -> sub0) -> st **)

let wS s v =
  mk s.now s.p s.pend s.flag s.co s.tmr s.busy s.closed s.a v s.nexts s.t
    s.nextt s.sel s.cn s.kn

(** val wnexts : st -> nat -> st **)

let wnexts s v =
  mk s.now s.p s.pend s.flag s.co s.tmr s.busy s.closed s.a s.sb v s.t
    s.nextt s.sel s.cn s.kn

(** val wT : st -> (nat -> tent) -> st **)

let wT s v =
  mk s.now s.p s.pend s.flag s.co s.tmr s.busy s.closed s.a s.sb s.nexts v
    s.nextt s.sel s.cn s.kn

(** val wnextt : st -> nat -> st **)

let wnextt s v =
  mk s.now s.p s.pend s.flag s.co s.tmr s.busy s.closed s.a s.sb s.nexts s.t
    v s.sel s.cn s.kn

(** val wSel : st -> (nat -> selst) -> st **)

let wSel s v =
  mk s.now s.p s.pend s.flag s.co s.tmr s.busy s.closed s.a s.sb s.nexts s.t
    s.nextt v s.cn s.kn

(** val wCn : st -> (nat -> cnst) -> st **)

let wCn s v =
  mk s.now s.p s.pend s.flag s.co s.tmr s.busy s.closed s.a s.sb s.nexts s.t
    s.nextt s.sel v s.kn

(** val wKn : st -> (nat -> ksock) -> st **)

let wKn s v =
  mk s.now s.p s.pend s.flag s.co s.tmr s.busy s.closed s.a s.sb s.nexts s.t
    s.nextt s.sel s.cn v

(** val idle_actor : actor **)

let idle_actor =
  mkA Idle O Rd false None [] O false false None false O HNone None

(** val init : st **)

let init =
  mk O (fun _ -> { buf = []; wshut = false; sent = []; rcvd = []; eof =
    false }) (fun _ -> false) (fun _ -> false) (fun _ -> None) (fun _ ->
    None) (fun _ -> None) (fun _ -> false) (fun _ -> idle_actor) (fun _ ->
    { spc_ = SDone; sa = O; sfd = O; sto = None; scn = false }) O (fun _ ->
    { tstate = TFree; tdl = O; tev = None; tmin = O }) O (fun _ -> SIdle)
    (fun _ -> CnIdle) (fun _ -> { kq = []; kst = CNone; ktgt = O; kdeliv =
    false; kest = []; kacc = [] })

(** val pipe_of : (nat -> nat) -> kind -> nat -> nat **)

let pipe_of peer k f =
  match k with
  | Rd -> peer f
  | _ -> f

(** val enqueue : (nat -> ksock) -> nat -> nat -> nat -> ksock **)

let enqueue kn0 l c =
  upd kn0 l (k_push (kn0 l) c)

(** val q_edge : (nat -> ksock) -> nat -> nat option **)

let q_edge kn0 l =
  match (kn0 l).kq with
  | [] -> Some l
  | _ :: _ -> None

type sysres =
| SysDone of res * pipe * nat option
| SysAgain
| SysBad
| SysK of res * (nat -> ksock) * nat option
| SysAgainK of (nat -> ksock)

(** val syscall : nat -> (nat -> nat) -> st -> actor -> nat -> sysres **)

let syscall cap peer s x m =
  let p0 = pipe_of peer x.akind x.afd in
  let q = s.p p0 in
  (match x.akind with
   | Rd ->
     (match q.buf with
      | [] ->
        if q.wshut
        then SysDone (REof, { buf = []; wshut = true; sent = q.sent; rcvd =
               q.rcvd; eof = true }, None)
        else SysAgain
      | _ :: _ ->
        if (&&) ((&&) (Nat.leb (S O) m) (Nat.leb m x.an))
             (Nat.leb m (length q.buf))
        then SysDone ((ROk (firstn m q.buf)), { buf = (skipn m q.buf);
               wshut = q.wshut; sent = q.sent; rcvd =
               (app q.rcvd (firstn m q.buf)); eof = q.eof },
               (if (&&) (Nat.leb cap (length q.buf))
                     (Nat.ltb (sub (length q.buf) m) cap)
                then Some p0
                else None))
        else SysBad)
   | Wr ->
     if q.wshut
     then SysDone (RPipe, q, None)
     else if Nat.leb cap (length q.buf)
          then SysAgain
          else if (&&) ((&&) (Nat.leb (S O) m) (Nat.leb m (length x.adat)))
                    (Nat.leb (add (length q.buf) m) cap)
               then SysDone ((RWrote m), { buf =
                      (app q.buf (firstn m x.adat)); wshut = false; sent =
                      (app q.sent (firstn m x.adat)); rcvd = q.rcvd; eof =
                      q.eof },
                      (match q.buf with
                       | [] -> Some (peer p0)
                       | _ :: _ -> None))
               else SysBad
   | Ac ->
     (match (s.kn x.afd).kq with
      | [] -> SysAgain
      | c :: q' ->
        SysK ((RAcc c), (upd s.kn x.afd (k_pop (s.kn x.afd) c q')), None))
   | Co ->
     let f = x.afd in
     let k = s.kn f in
     (match k.kst with
      | CNone ->
        (match m with
         | O -> SysAgainK (upd s.kn f (k_start k CProg x.an false))
         | S n ->
           (match n with
            | O ->
              let kn1 = upd s.kn f (k_start k CConn x.an true) in
              SysK (RConn, (enqueue kn1 x.an f), (q_edge kn1 x.an))
            | S e -> SysK ((RErr e), s.kn, None)))
      | CProg -> SysAgain
      | CEst -> SysK (RConn, (upd s.kn f (k_st k CConn)), None)
      | CRef e -> SysK ((RErr e), (upd s.kn f (k_st k CNone)), None)
      | CConn -> SysK (RConn, s.kn, None)))

(** val set_pend : st -> nat option -> st **)

let set_pend s = function
| Some f -> wpend s (upd s.pend f true)
| None -> s

(** val finish : st -> nat -> res -> st **)

let finish s a0 r =
  let x = s.a a0 in
  wbusy (wA s (upd s.a a0 (a_ret x r))) (upd s.busy x.afd None)

(** val die : st -> nat -> st **)

let die s a0 =
  let x = s.a a0 in
  wbusy (wA s (upd s.a a0 (a_dead x))) (upd s.busy x.afd None)

(** val disarm : st -> nat -> bool -> st **)

let disarm s f unl =
  match s.tmr f with
  | Some e -> wtmr (wT s (upd s.t e (t_null (s.t e) unl))) (upd s.tmr f None)
  | None -> s

(** val wake : st -> nat -> st **)

let wake s c =
  wA s (upd s.a c (a_wake (s.a c)))

(** val is_done : spc -> bool **)

let is_done = function
| SDone -> true
| _ -> false

(** val not_thnd : selst -> nat -> bool **)

let not_thnd x f =
  match x with
  | THnd (f', _) -> negb (Nat.eqb f' f)
  | THnd2 (f', _) -> negb (Nat.eqb f' f)
  | _ -> true

(** val calm_ok : (nat -> nat) -> bool -> st -> nat -> nat -> bool **)

let calm_ok selof calm s a0 f =
  (||) (negb calm)
    ((&&)
      (forallb (fun k ->
        (||) (negb ((||) (Nat.eqb (s.sb k).sfd f) (Nat.eqb (s.sb k).sa a0)))
          (is_done (s.sb k).spc_)) (seq O s.nexts))
      (not_thnd (s.sel (selof f)) f))

(** val wake_to : st -> nat -> st **)

let wake_to s c =
  wA s (upd s.a c (a_wake_to (s.a c)))

(** val step :
    nat -> (nat -> nat) -> (nat -> nat) -> bool -> bool -> bool -> st ->
    action -> st option **)

let step cap peer selof fixB fixD calm s = function
| Start (a0, f, k, cn0, to0, l, n) ->
  let x = s.a a0 in
  (match x.apc with
   | Idle ->
     (match s.busy f with
      | Some _ -> None
      | None ->
        if (||) (s.closed f)
             (match k with
              | Rd -> Nat.eqb n O
              | Wr -> (match l with
                       | [] -> true
                       | _ :: _ -> false)
              | _ -> false)
        then None
        else Some
               (wbusy
                 (wA s
                   (upd s.a a0
                     (mkA (match k with
                           | Co -> PTry
                           | _ -> PReset) f k cn0 to0 l n x.apara x.acanc
                       x.acio x.aawake s.now x.ahome x.alast)))
                 (upd s.busy f (Some a0))))
   | _ -> None)
| Step (a0, m) ->
  let x = s.a a0 in
  (match x.apc with
   | PReset ->
     Some (wflag (wA s (upd s.a a0 (a_pc x PTry))) (upd s.flag x.afd false))
   | PTry ->
     (match syscall cap peer s x m with
      | SysDone (r, p', ev) ->
        Some
          (set_pend
            (wP (finish s a0 r) (upd s.p (pipe_of peer x.akind x.afd) p')) ev)
      | SysAgain -> Some (wA s (upd s.a a0 (a_pc x PYield)))
      | SysBad -> None
      | SysK (r, kn', ev) -> Some (set_pend (wKn (finish s a0 r) kn') ev)
      | SysAgainK kn' -> Some (wKn (wA s (upd s.a a0 (a_pc x PYield))) kn'))
   | PYield ->
     if x.acanc
     then Some (die s a0)
     else if negb (calm_ok selof calm s a0 x.afd)
          then None
          else Some
                 (wnexts
                   (wS (wA s (upd s.a a0 (a_susp x s.nexts)))
                     (upd s.sb s.nexts { spc_ =
                       (match x.ato with
                        | Some _ -> SArm
                        | None -> SStore); sa = a0; sfd = x.afd; sto = x.ato;
                       scn = x.acn })) (S s.nexts))
   | RBack ->
     if x.acanc
     then Some (die s a0)
     else Some (wA s (upd s.a a0 (a_pc x RClr)))
   | RClr -> Some (wA s (upd s.a a0 (a_cio_pc x None LRes)))
   | LRes ->
     if x.apara
     then Some (finish s a0 RTimedOut)
     else Some (wA s (upd s.a a0 (a_pc x LClr)))
   | LClr ->
     Some (wflag (wA s (upd s.a a0 (a_pc x LSys))) (upd s.flag x.afd false))
   | LSys ->
     (match syscall cap peer s x m with
      | SysDone (r, p', ev) ->
        Some
          (set_pend
            (wP (finish s a0 r) (upd s.p (pipe_of peer x.akind x.afd) p')) ev)
      | SysAgain -> Some (wA s (upd s.a a0 (a_pc x LChk)))
      | SysBad -> None
      | SysK (r, kn', ev) -> Some (set_pend (wKn (finish s a0 r) kn') ev)
      | SysAgainK kn' -> Some (wKn (wA s (upd s.a a0 (a_pc x LChk))) kn'))
   | LChk ->
     Some (wA s (upd s.a a0 (a_pc x (if s.flag x.afd then LRes else PYield))))
   | _ -> None)
| Resume a0 ->
  let x = s.a a0 in
  (match x.apc with
   | Susp -> if x.aawake then Some (wA s (upd s.a a0 (a_resume x))) else None
   | _ -> None)
| Sub (k, unl) ->
  if Nat.ltb k s.nexts
  then let y = s.sb k in
       let f = y.sfd in
       let a0 = y.sa in
       (match y.spc_ with
        | SArm ->
          (match y.sto with
           | Some d ->
             Some
               (wnextt
                 (wtmr
                   (wT (wS s (upd s.sb k (s_pc y SStore)))
                     (upd s.t s.nextt { tstate = TArmed; tdl = (add s.now d);
                       tev = (Some f); tmin = (add (s.a a0).atcall d) }))
                   (upd s.tmr f (Some s.nextt))) (S s.nextt))
           | None -> None)
        | SStore ->
          Some
            (wA
              (wco (wS s (upd s.sb k (s_pc y SChk))) (upd s.co f (Some a0)))
              (upd s.a a0 (a_home (s.a a0) (HSlot f))))
        | SChk ->
          Some
            (wS s
              (upd s.sb k
                (s_pc y
                  (if s.flag f then SFast else if y.scn then SSetIo else SDone))))
        | SFast ->
          (match s.co f with
           | Some c ->
             Some
               (wA
                 (wco (wS s (upd s.sb k (s_pc y (SFastT c))))
                   (upd s.co f None)) (upd s.a c (a_home (s.a c) (HFast k))))
           | None -> Some (wS s (upd s.sb k (s_pc y SDone))))
        | SFastT c ->
          Some (wake (disarm (wS s (upd s.sb k (s_pc y SDone))) f unl) c)
        | SSetIo ->
          Some
            (wA (wS s (upd s.sb k (s_pc y SCan)))
              (upd s.a a0 (a_cio (s.a a0) (Some f))))
        | SCan ->
          Some
            (wS s
              (upd s.sb k (s_pc y (if (s.a a0).acanc then SCan2 else SDone))))
        | SCan2 ->
          (match (s.a a0).acio with
           | Some f' ->
             Some
               (wA (wS s (upd s.sb k (s_pc y (SCan3 f'))))
                 (upd s.a a0 (a_cio (s.a a0) None)))
           | None -> Some (wS s (upd s.sb k (s_pc y SDone))))
        | SCan3 f' ->
          (match s.co f' with
           | Some c ->
             Some
               (wA
                 (wco (wS s (upd s.sb k (s_pc y (SCan4 (f', c)))))
                   (upd s.co f' None)) (upd s.a c (a_home (s.a c) (HKCan k))))
           | None -> Some (wS s (upd s.sb k (s_pc y SDone))))
        | SCan4 (f', c) ->
          Some
            (wake
              (let s0 = wS s (upd s.sb k (s_pc y SDone)) in
               if fixD then disarm s0 f' false else s0) c)
        | SDone -> None)
  else None
| SelEvent (g, f) ->
  (match s.sel g with
   | SIdle ->
     if (&&) (s.pend f) (Nat.eqb (selof f) g)
     then Some
            (wSel (wflag (wpend s (upd s.pend f false)) (upd s.flag f true))
              (upd s.sel g (SEv f)))
     else None
   | _ -> None)
| SelTake g ->
  (match s.sel g with
   | SEv f ->
     (match s.co f with
      | Some c ->
        Some
          (wA (wco (wSel s (upd s.sel g (SEvT (f, c)))) (upd s.co f None))
            (upd s.a c (a_home (s.a c) (HSel g))))
      | None -> Some (wSel s (upd s.sel g SIdle)))
   | _ -> None)
| SelDisarm (g, unl) ->
  (match s.sel g with
   | SEvT (f, c) -> Some (wake (disarm (wSel s (upd s.sel g SIdle)) f unl) c)
   | _ -> None)
| SelFire (g, e) ->
  (match s.sel g with
   | SIdle ->
     let t0 = s.t e in
     (match t0.tstate with
      | TArmed ->
        if Nat.leb t0.tdl s.now
        then (match t0.tev with
              | Some f ->
                if Nat.eqb (selof f) g
                then if fixB
                     then Some
                            (wSel (wT s (upd s.t e (t_pop t0)))
                              (upd s.sel g (THnd (f, e))))
                     else Some
                            (wSel
                              (wtmr (wT s (upd s.t e (t_pop t0)))
                                (upd s.tmr f None))
                              (upd s.sel g (THnd2 (f, e))))
                else None
              | None -> Some (wT s (upd s.t e (t_pop t0))))
        else None
      | _ -> None)
   | _ -> None)
| SelMark g ->
  (match s.sel g with
   | THnd (f, e) ->
     Some (wSel (wflag s (upd s.flag f true)) (upd s.sel g (THnd2 (f, e))))
   | _ -> None)
| SelHnd g ->
  (match s.sel g with
   | THnd2 (f, _) ->
     (match s.co f with
      | Some c ->
        Some
          (wake_to
            (let s0 = wco (wSel s (upd s.sel g SIdle)) (upd s.co f None) in
             if fixB then disarm s0 f true else s0) c)
      | None -> Some (wSel s (upd s.sel g SIdle)))
   | _ -> None)
| CancelSet a0 ->
  (match s.cn a0 with
   | CnIdle ->
     Some (wCn (wA s (upd s.a a0 (a_canc (s.a a0)))) (upd s.cn a0 Cn1))
   | _ -> None)
| CancelIo a0 ->
  (match s.cn a0 with
   | Cn1 ->
     (match (s.a a0).acio with
      | Some f ->
        Some
          (wCn (wA s (upd s.a a0 (a_cio (s.a a0) None)))
            (upd s.cn a0 (Cn2 f)))
      | None -> Some (wCn s (upd s.cn a0 CnIdle)))
   | _ -> None)
| CancelTake a0 ->
  (match s.cn a0 with
   | Cn2 f ->
     (match s.co f with
      | Some c ->
        Some
          (wA (wco (wCn s (upd s.cn a0 (Cn3 (f, c)))) (upd s.co f None))
            (upd s.a c (a_home (s.a c) (HCan a0))))
      | None -> Some (wCn s (upd s.cn a0 CnIdle)))
   | _ -> None)
| CancelNull a0 ->
  (match s.cn a0 with
   | Cn3 (f, c) ->
     Some
       (wake
         (let s0 = wCn s (upd s.cn a0 CnIdle) in
          if fixD then disarm s0 f false else s0) c)
   | _ -> None)
| Tick d -> Some (wnow s (add s.now d))
| Shutdown f ->
  let q = s.p f in
  Some
  (wpend
    (wP s
      (upd s.p f { buf = q.buf; wshut = true; sent = q.sent; rcvd = q.rcvd;
        eof = q.eof })) (upd s.pend (peer f) true))
| Spurious f -> Some (wpend s (upd s.pend f true))
| Close f ->
  (match s.busy f with
   | Some _ -> None
   | None ->
     if s.closed f
     then None
     else Some (wclosed (disarm s f false) (upd s.closed f true)))
| Establish f ->
  (match (s.kn f).kst with
   | CProg ->
     Some
       (wpend (wKn s (upd s.kn f (k_st (s.kn f) CEst))) (upd s.pend f true))
   | _ -> None)
| Refuse (f, e) ->
  (match (s.kn f).kst with
   | CProg ->
     Some
       (wpend (wKn s (upd s.kn f (k_st (s.kn f) (CRef e))))
         (upd s.pend f true))
   | _ -> None)
| Deliver f ->
  if (&&) (negb (s.kn f).kdeliv)
       (match (s.kn f).kst with
        | CEst -> true
        | CConn -> true
        | _ -> false)
  then let kn1 = upd s.kn f (k_deliv (s.kn f)) in
       Some
       (set_pend (wKn s (enqueue kn1 (s.kn f).ktgt f))
         (q_edge kn1 (s.kn f).ktgt))
  else None

(** val peerv : nat -> nat **)

let peerv f =
  if Nat.even f then S f else pred f

(** val selv : nat -> nat **)

let selv f =
  f

type tmode =
| MNone
| MRun of nat
| MKer of nat
| MKerX
| MProxy of nat
| MProxyP
| MRunP of nat

type aux = { tm : (nat -> tmode); cmap : (z * nat) list; nco : nat;
             oflag : (z * nat) list; oco : (z * nat) list; preflag : 
             z list; selthr : (nat -> nat option);
             selcur : (nat -> nat option); selpre : (nat -> z option);
             fds : nat list; dgr : (nat -> bool); amap : (nat -> nat option);
             cpend : (nat -> nat option); ctgt : (nat -> nat option);
             precan : nat list; cnull : (nat -> nat option); seen : nat list;
             dang : nat list; tsent : nat list; prox : nat list }

type ast = { ms : st; ax : aux; acap : nat; fresh : bool }

(** val aux0 : aux **)

let aux0 =
  { tm = (fun _ -> MNone); cmap = []; nco = O; oflag = []; oco = [];
    preflag = []; selthr = (fun _ -> None); selcur = (fun _ -> None);
    selpre = (fun _ -> None); fds = []; dgr = (fun _ -> false); amap =
    (fun _ -> None); cpend = (fun _ -> None); ctgt = (fun _ -> None);
    precan = []; cnull = (fun _ -> None); seen = []; dang = []; tsent = [];
    prox = [] }

(** val capv : nat **)

let capv =
  mul (S (S (S (S (S (S (S (S (S (S (S (S (S (S (S (S (S (S (S (S (S (S (S (S
    (S (S (S (S (S (S (S (S (S (S (S (S (S (S (S (S (S (S (S (S (S (S (S (S
    (S (S (S (S (S (S (S (S (S (S (S (S (S (S (S (S (S (S (S (S (S (S (S (S
    (S (S (S (S (S (S (S (S (S (S (S (S (S (S (S (S (S (S (S (S (S (S (S (S
    (S (S (S (S
    O))))))))))))))))))))))))))))))))))))))))))))))))))))))))))))))))))))))))))))))))))))))))))))))))))))
    (S (S (S (S (S (S (S (S (S (S (S (S (S (S (S (S (S (S (S (S (S (S (S (S
    (S (S (S (S (S (S (S (S (S (S (S (S (S (S (S (S (S (S (S (S (S (S (S (S
    (S (S (S (S (S (S (S (S (S (S (S (S (S (S (S (S (S (S (S (S (S (S (S (S
    (S (S (S (S (S (S (S (S (S (S (S (S (S (S (S (S (S (S (S (S (S (S (S (S
    (S (S (S (S (S (S (S (S (S (S (S (S (S (S (S (S (S (S (S (S (S (S (S (S
    (S (S (S (S (S (S (S (S (S (S (S (S (S (S (S (S (S (S (S (S (S (S (S (S
    (S (S (S (S (S (S (S (S (S (S (S (S (S (S (S (S (S (S (S (S (S (S (S (S
    (S (S (S (S (S (S (S (S (S (S (S (S (S (S (S (S (S (S (S (S (S (S (S (S
    (S (S (S (S (S (S (S (S (S (S (S (S (S (S (S (S (S (S (S (S (S (S (S (S
    (S (S (S (S (S (S (S (S (S (S (S (S (S (S (S (S (S (S (S (S (S (S (S (S
    (S (S (S (S (S (S (S (S (S (S (S (S (S (S (S (S (S (S (S (S (S (S (S (S
    (S (S (S (S (S (S (S (S (S (S (S (S (S (S (S (S (S (S (S (S (S (S (S (S
    (S (S (S (S (S (S (S (S (S (S (S (S (S (S (S (S (S (S (S (S (S (S (S (S
    (S (S (S (S (S (S (S (S (S (S (S (S (S (S (S (S (S (S (S (S (S (S (S (S
    (S (S (S (S (S (S (S (S (S (S (S (S (S (S (S (S (S (S (S (S (S (S (S (S
    (S (S (S (S (S (S (S (S (S (S (S (S (S (S (S (S (S (S (S (S (S (S (S (S
    (S (S (S (S (S (S (S (S (S (S (S (S (S (S (S (S (S (S (S (S (S (S (S (S
    (S (S (S (S (S (S (S (S (S (S (S (S (S (S (S (S (S (S (S (S (S (S (S (S
    (S (S (S (S (S (S (S (S (S (S (S (S (S (S (S (S (S (S (S (S (S (S (S (S
    (S (S (S (S (S (S (S (S (S (S (S (S (S (S (S (S (S (S (S (S (S (S (S (S
    (S (S (S (S (S (S (S (S (S (S (S (S (S (S (S (S (S (S (S (S (S (S (S (S
    (S (S (S (S (S (S (S (S (S (S (S (S (S (S (S (S (S (S (S (S (S (S (S (S
    (S (S (S (S (S (S (S (S (S (S (S (S (S (S (S (S (S (S (S (S (S (S (S (S
    (S (S (S (S (S (S (S (S (S (S (S (S (S (S (S (S (S (S (S (S (S (S (S (S
    (S (S (S (S (S (S (S (S (S (S (S (S (S (S (S (S (S (S (S (S (S (S (S (S
    (S (S (S (S (S (S (S (S (S (S (S (S (S (S (S (S (S (S (S (S (S (S (S (S
    (S (S (S (S (S (S (S (S (S (S (S (S (S (S (S (S (S (S (S (S (S (S (S (S
    (S (S (S (S (S (S (S (S (S (S (S (S (S (S (S (S (S (S (S (S (S (S (S (S
    (S (S (S (S (S (S (S (S (S (S (S (S (S (S (S (S (S (S (S (S (S (S (S (S
    (S (S (S (S (S (S (S (S (S (S (S (S (S (S (S (S (S (S (S (S (S (S (S (S
    (S (S (S (S (S (S (S (S (S (S (S (S (S (S (S (S (S (S (S (S (S (S (S (S
    (S (S (S (S (S (S (S (S (S (S (S (S (S (S (S (S (S (S (S (S (S (S (S (S
    (S (S (S (S (S (S (S (S (S (S (S (S (S (S (S (S (S (S (S (S (S (S (S (S
    (S (S (S (S (S (S (S (S (S (S (S (S (S (S (S (S (S (S (S (S (S (S (S (S
    (S (S (S (S (S (S (S (S (S (S (S (S (S (S (S (S (S (S (S (S (S (S (S (S
    (S (S (S (S (S (S (S (S (S (S (S (S (S (S (S (S (S (S (S (S (S (S (S (S
    (S (S (S (S (S (S (S (S (S (S (S (S (S (S (S (S (S (S (S (S (S (S (S (S
    (S (S (S (S (S (S (S (S (S (S (S (S (S (S (S (S (S (S (S (S (S (S (S (S
    (S (S (S (S (S (S (S (S (S (S (S (S (S (S (S (S (S (S (S (S (S (S (S (S
    (S (S (S (S (S (S (S (S (S (S (S (S (S (S (S (S (S (S (S (S (S (S (S (S
    (S (S (S (S (S (S (S (S (S (S (S (S (S (S (S (S (S (S (S (S (S (S (S (S
    (S (S (S (S (S (S (S (S (S (S (S (S (S (S (S (S
    O))))))))))))))))))))))))))))))))))))))))))))))))))))))))))))))))))))))))))))))))))))))))))))))))))))))))))))))))))))))))))))))))))))))))))))))))))))))))))))))))))))))))))))))))))))))))))))))))))))))))))))))))))))))))))))))))))))))))))))))))))))))))))))))))))))))))))))))))))))))))))))))))))))))))))))))))))))))))))))))))))))))))))))))))))))))))))))))))))))))))))))))))))))))))))))))))))))))))))))))))))))))))))))))))))))))))))))))))))))))))))))))))))))))))))))))))))))))))))))))))))))))))))))))))))))))))))))))))))))))))))))))))))))))))))))))))))))))))))))))))))))))))))))))))))))))))))))))))))))))))))))))))))))))))))))))))))))))))))))))))))))))))))))))))))))))))))))))))))))))))))))))))))))))))))))))))))))))))))))))))))))))))))))))))))))))))))))))))))))))))))))))))))))))))))))))))))))))))))))))))))))))))))))))))))))))))))))))))))))))))))))))))))))))))))))))))))))))))))))))))))))))))))))))))))))))))))))))))))))))))))))))))))))))))))))))))))))))))))))))))))))))))))))))))))))))))))))))))))))))))

(** val ainit : ast **)

let ainit =
  { ms = init; ax = aux0; acap = capv; fresh = true }

(** val set_tm : aux -> (nat -> tmode) -> aux **)

let set_tm x v =
  { tm = v; cmap = x.cmap; nco = x.nco; oflag = x.oflag; oco = x.oco;
    preflag = x.preflag; selthr = x.selthr; selcur = x.selcur; selpre =
    x.selpre; fds = x.fds; dgr = x.dgr; amap = x.amap; cpend = x.cpend;
    ctgt = x.ctgt; precan = x.precan; cnull = x.cnull; seen = x.seen; dang =
    x.dang; tsent = x.tsent; prox = x.prox }

(** val set_cmap : aux -> (z * nat) list -> nat -> aux **)

let set_cmap x v n =
  { tm = x.tm; cmap = v; nco = n; oflag = x.oflag; oco = x.oco; preflag =
    x.preflag; selthr = x.selthr; selcur = x.selcur; selpre = x.selpre; fds =
    x.fds; dgr = x.dgr; amap = x.amap; cpend = x.cpend; ctgt = x.ctgt;
    precan = x.precan; cnull = x.cnull; seen = x.seen; dang = x.dang; tsent =
    x.tsent; prox = x.prox }

(** val set_oflag : aux -> (z * nat) list -> z list -> aux **)

let set_oflag x v p0 =
  { tm = x.tm; cmap = x.cmap; nco = x.nco; oflag = v; oco = x.oco; preflag =
    p0; selthr = x.selthr; selcur = x.selcur; selpre = x.selpre; fds = x.fds;
    dgr = x.dgr; amap = x.amap; cpend = x.cpend; ctgt = x.ctgt; precan =
    x.precan; cnull = x.cnull; seen = x.seen; dang = x.dang; tsent = x.tsent;
    prox = x.prox }

(** val set_oco : aux -> (z * nat) list -> aux **)

let set_oco x v =
  { tm = x.tm; cmap = x.cmap; nco = x.nco; oflag = x.oflag; oco = v;
    preflag = x.preflag; selthr = x.selthr; selcur = x.selcur; selpre =
    x.selpre; fds = x.fds; dgr = x.dgr; amap = x.amap; cpend = x.cpend;
    ctgt = x.ctgt; precan = x.precan; cnull = x.cnull; seen = x.seen; dang =
    x.dang; tsent = x.tsent; prox = x.prox }

(** val set_sel :
    aux -> (nat -> nat option) -> (nat -> nat option) -> (nat -> z option) ->
    aux **)

let set_sel x v c p0 =
  { tm = x.tm; cmap = x.cmap; nco = x.nco; oflag = x.oflag; oco = x.oco;
    preflag = x.preflag; selthr = v; selcur = c; selpre = p0; fds = x.fds;
    dgr = x.dgr; amap = x.amap; cpend = x.cpend; ctgt = x.ctgt; precan =
    x.precan; cnull = x.cnull; seen = x.seen; dang = x.dang; tsent = x.tsent;
    prox = x.prox }

(** val set_fds : aux -> nat list -> (nat -> bool) -> nat list -> aux **)

let set_fds x v d s =
  { tm = x.tm; cmap = x.cmap; nco = x.nco; oflag = x.oflag; oco = x.oco;
    preflag = x.preflag; selthr = x.selthr; selcur = x.selcur; selpre =
    x.selpre; fds = v; dgr = d; amap = x.amap; cpend = x.cpend; ctgt =
    x.ctgt; precan = x.precan; cnull = x.cnull; seen = s; dang = x.dang;
    tsent = x.tsent; prox = x.prox }

(** val set_cnull : aux -> (nat -> nat option) -> aux **)

let set_cnull x v =
  { tm = x.tm; cmap = x.cmap; nco = x.nco; oflag = x.oflag; oco = x.oco;
    preflag = x.preflag; selthr = x.selthr; selcur = x.selcur; selpre =
    x.selpre; fds = x.fds; dgr = x.dgr; amap = x.amap; cpend = x.cpend;
    ctgt = x.ctgt; precan = x.precan; cnull = v; seen = x.seen; dang =
    x.dang; tsent = x.tsent; prox = x.prox }

(** val set_dang : aux -> nat list -> aux **)

let set_dang x v =
  { tm = x.tm; cmap = x.cmap; nco = x.nco; oflag = x.oflag; oco = x.oco;
    preflag = x.preflag; selthr = x.selthr; selcur = x.selcur; selpre =
    x.selpre; fds = x.fds; dgr = x.dgr; amap = x.amap; cpend = x.cpend;
    ctgt = x.ctgt; precan = x.precan; cnull = x.cnull; seen = x.seen; dang =
    v; tsent = x.tsent; prox = x.prox }

(** val set_thr : aux -> nat list -> nat list -> aux **)

let set_thr x ts pr =
  { tm = x.tm; cmap = x.cmap; nco = x.nco; oflag = x.oflag; oco = x.oco;
    preflag = x.preflag; selthr = x.selthr; selcur = x.selcur; selpre =
    x.selpre; fds = x.fds; dgr = x.dgr; amap = x.amap; cpend = x.cpend;
    ctgt = x.ctgt; precan = x.precan; cnull = x.cnull; seen = x.seen; dang =
    x.dang; tsent = ts; prox = pr }

(** val set_can :
    aux -> (nat -> nat option) -> (nat -> nat option) -> (nat -> nat option)
    -> nat list -> aux **)

let set_can x am cp ct pc0 =
  { tm = x.tm; cmap = x.cmap; nco = x.nco; oflag = x.oflag; oco = x.oco;
    preflag = x.preflag; selthr = x.selthr; selcur = x.selcur; selpre =
    x.selpre; fds = x.fds; dgr = x.dgr; amap = am; cpend = cp; ctgt = ct;
    precan = pc0; cnull = x.cnull; seen = x.seen; dang = x.dang; tsent =
    x.tsent; prox = x.prox }

(** val pcn : pc -> nat **)

let pcn = function
| Idle -> O
| PReset -> S O
| PTry -> S (S O)
| PYield -> S (S (S O))
| Susp -> S (S (S (S O)))
| RBack -> S (S (S (S (S O))))
| RClr -> S (S (S (S (S (S O)))))
| LRes -> S (S (S (S (S (S (S O))))))
| LClr -> S (S (S (S (S (S (S (S O)))))))
| LSys -> S (S (S (S (S (S (S (S (S O))))))))
| LChk -> S (S (S (S (S (S (S (S (S (S O)))))))))
| Dead -> S (S (S (S (S (S (S (S (S (S (S O))))))))))

(** val pc_eqb : pc -> pc -> bool **)

let pc_eqb p0 q =
  Nat.eqb (pcn p0) (pcn q)

(** val outside : pc -> bool **)

let outside = function
| Idle -> true
| Dead -> true
| _ -> false

(** val znz : z -> bool **)

let znz v =
  negb (Z.eqb v Z0)

(** val is_some : 'a1 option -> bool **)

let is_some = function
| Some _ -> true
| None -> false

(** val kind_eqb : kind -> kind -> bool **)

let kind_eqb a0 b =
  match a0 with
  | Rd -> (match b with
           | Rd -> true
           | _ -> false)
  | Wr -> (match b with
           | Wr -> true
           | _ -> false)
  | Ac -> (match b with
           | Ac -> true
           | _ -> false)
  | Co -> (match b with
           | Co -> true
           | _ -> false)

(** val zassoc : (z * nat) list -> z -> nat option **)

let rec zassoc l k =
  match l with
  | [] -> None
  | p0 :: r -> let (k', v) = p0 in if Z.eqb k k' then Some v else zassoc r k

(** val zmem : z list -> z -> bool **)

let zmem l k =
  existsb (Z.eqb k) l

(** val nmem : nat list -> nat -> bool **)

let nmem l k =
  existsb (Nat.eqb k) l

(** val list_eqb : nat list -> nat list -> bool **)

let rec list_eqb a0 b =
  match a0 with
  | [] -> (match b with
           | [] -> true
           | _ :: _ -> false)
  | x :: a' ->
    (match b with
     | [] -> false
     | y :: b' -> (&&) (Nat.eqb x y) (list_eqb a' b'))

(** val res_ok : res option -> nat list -> bool **)

let res_ok o l =
  match o with
  | Some r -> (match r with
               | ROk l' -> list_eqb l l'
               | _ -> false)
  | None -> false

(** val bindo :
    (nat -> bool) -> (z * nat) list -> z -> nat -> (z * nat) list option **)

let bindo dead m o f =
  match zassoc m o with
  | Some f' ->
    if Nat.eqb f f'
    then Some m
    else if dead f' then Some ((o, f) :: m) else None
  | None -> Some ((o, f) :: m)

(** val unbound : (nat -> bool) -> (z * nat) list -> z -> bool **)

let unbound dead m o =
  match zassoc m o with
  | Some g -> dead g
  | None -> true

(** val bindthr :
    (nat -> nat option) -> nat -> nat -> (nat -> nat option) option **)

let bindthr m f t0 =
  match m f with
  | Some t' -> if Nat.eqb t0 t' then Some m else None
  | None -> Some (upd m f (Some t0))

type plan = ((action list * (st -> bool)) * aux) option

(** val ok : aux -> plan **)

let ok x =
  Some (([], (fun _ -> true)), x)

(** val acts : aux -> action list -> plan **)

let acts x l =
  Some ((l, (fun _ -> true)), x)

(** val actsp : aux -> action list -> (st -> bool) -> plan **)

let actsp x l p0 =
  Some ((l, p0), x)

(** val obs : aux -> bool -> plan **)

let obs x = function
| true -> ok x
| false -> None

(** val chk : bool -> plan -> plan **)

let chk b p0 =
  if b then p0 else None

(** val cur : aux -> nat -> nat **)

let cur x t0 =
  match x.tm t0 with
  | MRun a0 -> a0
  | MRunP a0 -> a0
  | _ -> mul (S (S O)) t0

(** val flush : st -> aux -> nat -> action list **)

let flush m x t0 =
  flat_map (fun f ->
    match x.selthr f with
    | Some t' ->
      (match m.sel f with
       | SEvT (_, _) ->
         if Nat.eqb t0 t' then (SelDisarm (f, false)) :: [] else []
       | _ -> [])
    | None -> []) x.fds

(** val flush_for : st -> nat -> action list **)

let flush_for m a0 =
  match (m.a a0).ahome with
  | HSel g ->
    (match m.sel g with
     | SEvT (_, c) ->
       if Nat.eqb c a0 then (SelDisarm (g, false)) :: [] else []
     | _ -> [])
  | HCan b ->
    (match m.cn b with
     | Cn3 (_, c) -> if Nat.eqb c a0 then (CancelNull b) :: [] else []
     | _ -> [])
  | HKCan k ->
    (match (m.sb k).spc_ with
     | SCan4 (_, c) -> if Nat.eqb c a0 then (Sub (k, false)) :: [] else []
     | _ -> [])
  | _ -> []

(** val pick_timer : st -> nat -> nat -> nat option -> nat option **)

let rec pick_timer m f n best =
  match n with
  | O -> best
  | S n' ->
    let t0 = m.t n' in
    let best' =
      match t0.tstate with
      | TArmed ->
        (match t0.tev with
         | Some f' ->
           if Nat.eqb f f'
           then (match best with
                 | Some b ->
                   if Nat.leb t0.tdl (m.t b).tdl then Some n' else best
                 | None -> Some n')
           else best
         | None -> best)
      | _ -> best
    in
    pick_timer m f n' best'

(** val undang : st -> aux -> nat -> action list **)

let undang m x f =
  if nmem x.dang f
  then (match m.sel f with
        | SEv _ ->
          (match m.co f with
           | Some _ -> []
           | None -> (SelTake f) :: [])
        | _ -> [])
  else []

(** val undang_x : st -> aux -> nat -> aux **)

let undang_x m x f =
  if nmem x.dang f
  then (match m.sel f with
        | SEv _ ->
          (match m.co f with
           | Some _ -> x
           | None -> set_dang x (filter (fun g -> negb (Nat.eqb g f)) x.dang))
        | _ -> x)
  else x

(** val deliver : st -> nat -> action list **)

let deliver m c =
  if (m.kn c).kdeliv
  then []
  else app (match (m.kn c).kst with
            | CProg -> (Establish c) :: []
            | _ -> []) ((Deliver c) :: [])

(** val eINPROGRESS_ : z **)

let eINPROGRESS_ =
  Z.add (Zpos (XO (XO (XO (XO (XO (XO (XO (XO (XO (XO (XO (XO (XO (XO (XO (XO
    (XO (XO (XO (XO (XO (XO (XO (XO (XO (XO (XO (XO (XO (XO (XO (XO
    XH))))))))))))))))))))))))))))))))) (Zpos (XI (XI (XO (XO (XI (XI
    XH)))))))

(** val eALREADY_ : z **)

let eALREADY_ =
  Z.add (Zpos (XO (XO (XO (XO (XO (XO (XO (XO (XO (XO (XO (XO (XO (XO (XO (XO
    (XO (XO (XO (XO (XO (XO (XO (XO (XO (XO (XO (XO (XO (XO (XO (XO
    XH))))))))))))))))))))))))))))))))) (Zpos (XO (XI (XO (XO (XI (XI
    XH)))))))

(** val eISCONN_ : z **)

let eISCONN_ =
  Z.add (Zpos (XO (XO (XO (XO (XO (XO (XO (XO (XO (XO (XO (XO (XO (XO (XO (XO
    (XO (XO (XO (XO (XO (XO (XO (XO (XO (XO (XO (XO (XO (XO (XO (XO
    XH))))))))))))))))))))))))))))))))) (Zpos (XO (XI (XO (XI (XO (XI
    XH)))))))

(** val eAGAIN_ : z **)

let eAGAIN_ =
  Z.add (Zpos (XO (XO (XO (XO (XO (XO (XO (XO (XO (XO (XO (XO (XO (XO (XO (XO
    (XO (XO (XO (XO (XO (XO (XO (XO (XO (XO (XO (XO (XO (XO (XO (XO
    XH))))))))))))))))))))))))))))))))) (Zpos (XI (XI (XO XH))))

(** val is_err : z -> bool **)

let is_err v =
  Z.leb (Zpos (XO (XO (XO (XO (XO (XO (XO (XO (XO (XO (XO (XO (XO (XO (XO (XO
    (XO (XO (XO (XO (XO (XO (XO (XO (XO (XO (XO (XO (XO (XO (XO (XO
    XH))))))))))))))))))))))))))))))))) v

(** val mstep : bool -> nat -> st -> action -> st option **)

let mstep calm cap =
  step cap peerv selv true true calm

(** val mkplan : bool -> ast -> z list -> plan **)

let mkplan calm s e =
  let m = s.ms in
  let x = s.ax in
  (match e with
   | [] -> None
   | code :: l ->
     (match l with
      | [] -> None
      | zt :: l0 ->
        (match l0 with
         | [] -> None
         | obj :: l1 ->
           (match l1 with
            | [] -> None
            | v :: l2 ->
              (match l2 with
               | [] ->
                 let t0 = Z.to_nat zt in
                 let a0 = cur x t0 in
                 let r = m.a a0 in
                 let p0 = r.apc in
                 let f = r.afd in
                 let at_ = fun q -> pc_eqb p0 q in
                 (match code with
                  | Zpos p1 ->
                    (match p1 with
                     | XI p2 ->
                       (match p2 with
                        | XI p3 ->
                          (match p3 with
                           | XI p4 ->
                             (match p4 with
                              | XI p5 ->
                                (match p5 with
                                 | XH ->
                                   (match x.tm t0 with
                                    | MKer k ->
                                      (match (m.sb k).spc_ with
                                       | SCan2 ->
                                         chk
                                           (eqb (znz v)
                                             (is_some (m.a (m.sb k).sa).acio))
                                           (acts x ((Sub (k, false)) :: []))
                                       | _ -> None)
                                    | _ ->
                                      (match x.ctgt t0 with
                                       | Some c ->
                                         (match m.cn c with
                                          | Cn1 ->
                                            chk
                                              (eqb (znz v)
                                                (is_some (m.a c).acio))
                                              (acts x ((CancelIo c) :: []))
                                          | _ -> None)
                                       | None -> ok x))
                                 | _ -> None)
                              | XO p5 ->
                                (match p5 with
                                 | XH ->
                                   (match x.tm t0 with
                                    | MKer k ->
                                      (match bindo m.closed x.oco obj
                                               (m.sb k).sfd with
                                       | Some oc ->
                                         (match (m.sb k).spc_ with
                                          | SStore ->
                                            acts (set_oco x oc) ((Sub (k,
                                              false)) :: [])
                                          | _ -> None)
                                       | None -> None)
                                    | _ -> None)
                                 | _ -> None)
                              | XH -> None)
                           | XO p4 ->
                             (match p4 with
                              | XI p5 ->
                                (match p5 with
                                 | XI _ -> None
                                 | XO p6 ->
                                   (match p6 with
                                    | XH ->
                                      (match x.selcur t0 with
                                       | Some f' ->
                                         (match m.sel f' with
                                          | SEv _ ->
                                            (match bindo m.closed x.oco obj f' with
                                             | Some oc ->
                                               chk
                                                 ((&&) (negb (znz v))
                                                   (negb (is_some (m.co f'))))
                                                 (acts (set_oco x oc)
                                                   ((SelTake f') :: []))
                                             | None -> None)
                                          | THnd2 (_, _) ->
                                            (match bindo m.closed x.oco obj f' with
                                             | Some oc ->
                                               chk
                                                 (eqb (znz v)
                                                   (is_some (m.co f')))
                                                 (acts (set_oco x oc)
                                                   ((SelHnd f') :: []))
                                             | None -> None)
                                          | _ -> None)
                                       | None -> None)
                                    | _ -> None)
                                 | XH ->
                                   (match x.tm t0 with
                                    | MNone ->
                                      if at_ PYield
                                      then chk
                                             (eqb (Z.eqb v (Zpos XH)) r.acanc)
                                             (acts x ((Step (a0, O)) :: []))
                                      else obs x (outside p0)
                                    | MRun c ->
                                      if at_ PYield
                                      then chk
                                             (eqb (Z.eqb v (Zpos XH)) r.acanc)
                                             (acts x ((Step (a0, O)) :: []))
                                      else obs
                                             (set_tm x
                                               (upd x.tm t0 (MRunP c)))
                                             (outside p0)
                                    | MKer k ->
                                      (match (m.sb k).spc_ with
                                       | SCan ->
                                         chk
                                           (eqb (Z.eqb v (Zpos XH))
                                             (m.a (m.sb k).sa).acanc)
                                           (acts x ((Sub (k, false)) :: []))
                                       | _ -> None)
                                    | MKerX -> ok x
                                    | MRunP _ ->
                                      if at_ PYield
                                      then chk
                                             (eqb (Z.eqb v (Zpos XH)) r.acanc)
                                             (acts x ((Step (a0, O)) :: []))
                                      else obs x (outside p0)
                                    | _ -> ok (set_tm x (upd x.tm t0 MProxyP))))
                              | _ -> None)
                           | XH ->
                             let f' =
                               Z.to_nat
                                 (Z.modulo obj (Zpos (XO (XO (XO (XO (XO (XO
                                   (XO (XO XH))))))))))
                             in
                             let op =
                               Z.modulo
                                 (Z.div obj (Zpos (XO (XO (XO (XO (XO (XO (XO
                                   (XO XH)))))))))) (Zpos (XO (XO (XO (XO (XO
                                 (XO (XO (XO XH)))))))))
                             in
                             let dg = x.dgr f' in
                             (match op with
                              | Z0 ->
                                if (&&)
                                     ((&&) ((||) (at_ PTry) (at_ LSys))
                                       (Nat.eqb f f')) (kind_eqb r.akind Rd)
                                then if Z.eqb v eAGAIN_
                                     then actsp x ((Step (a0, O)) :: [])
                                            (fun m' ->
                                            (||)
                                              (pc_eqb (m'.a a0).apc PYield)
                                              (pc_eqb (m'.a a0).apc LChk))
                                     else if is_err v
                                          then actsp x ((Step (a0, O)) :: [])
                                                 (fun m' ->
                                                 match (m'.a a0).alast with
                                                 | Some r0 ->
                                                   (match r0 with
                                                    | REof ->
                                                      outside (m'.a a0).apc
                                                    | _ -> false)
                                                 | None -> false)
                                          else if dg
                                               then actsp x ((Step (a0, (S
                                                      O))) :: []) (fun m' ->
                                                      match (m'.a a0).alast with
                                                      | Some r0 ->
                                                        (match r0 with
                                                         | ROk l3 ->
                                                           (match l3 with
                                                            | [] -> false
                                                            | _ :: l4 ->
                                                              (match l4 with
                                                               | [] ->
                                                                 outside
                                                                   (m'.a a0).apc
                                                               | _ :: _ ->
                                                                 false))
                                                         | _ -> false)
                                                      | None -> false)
                                               else if Z.eqb v Z0
                                                    then actsp x ((Step (a0,
                                                           O)) :: [])
                                                           (fun m' ->
                                                           match (m'.a a0).alast with
                                                           | Some r0 ->
                                                             (match r0 with
                                                              | REof ->
                                                                outside
                                                                  (m'.a a0).apc
                                                              | _ -> false)
                                                           | None -> false)
                                                    else actsp x ((Step (a0,
                                                           (Z.to_nat v))) :: [])
                                                           (fun m' ->
                                                           match (m'.a a0).alast with
                                                           | Some r0 ->
                                                             (match r0 with
                                                              | ROk l3 ->
                                                                (&&)
                                                                  (Nat.eqb
                                                                    (length
                                                                    l3)
                                                                    (Z.to_nat
                                                                    v))
                                                                  (outside
                                                                    (m'.a a0).apc)
                                                              | _ -> false)
                                                           | None -> false)
                                else None
                              | Zpos p4 ->
                                (match p4 with
                                 | XI p5 ->
                                   (match p5 with
                                    | XI p6 ->
                                      (match p6 with
                                       | XH ->
                                         acts x
                                           (if (||) (m.closed f')
                                                 (is_some (m.busy f'))
                                            then []
                                            else (Close f') :: [])
                                       | _ -> None)
                                    | XO p6 ->
                                      (match p6 with
                                       | XH ->
                                         if (&&)
                                              ((&&)
                                                ((||) (at_ PTry) (at_ LSys))
                                                (Nat.eqb f f'))
                                              (kind_eqb r.akind Ac)
                                         then if Z.eqb v eAGAIN_
                                              then actsp x ((Step (a0,
                                                     O)) :: []) (fun m' ->
                                                     (||)
                                                       (pc_eqb (m'.a a0).apc
                                                         PYield)
                                                       (pc_eqb (m'.a a0).apc
                                                         LChk))
                                              else if is_err v
                                                   then None
                                                   else let c = Z.to_nat v in
                                                        chk
                                                          ((||)
                                                            (Nat.eqb
                                                              (m.kn c).ktgt
                                                              f')
                                                            (negb
                                                              (m.kn c).kdeliv))
                                                          (actsp x
                                                            (app
                                                              (deliver m c)
                                                              ((Step (a0,
                                                              O)) :: []))
                                                            (fun m' ->
                                                            match (m'.a a0).alast with
                                                            | Some r0 ->
                                                              (match r0 with
                                                               | RAcc c' ->
                                                                 (&&)
                                                                   (Nat.eqb c
                                                                    c')
                                                                   (outside
                                                                    (m'.a a0).apc)
                                                               | _ -> false)
                                                            | None -> false))
                                         else None
                                       | _ -> None)
                                    | XH ->
                                      acts x
                                        (if (m.p f').wshut
                                         then []
                                         else (Shutdown f') :: []))
                                 | XO p5 ->
                                   (match p5 with
                                    | XI p6 ->
                                      (match p6 with
                                       | XH ->
                                         if (&&)
                                              ((&&)
                                                ((||) (at_ PTry) (at_ LSys))
                                                (Nat.eqb f f'))
                                              (kind_eqb r.akind Co)
                                         then let conn = fun m' ->
                                                match (m'.a a0).alast with
                                                | Some r0 ->
                                                  (match r0 with
                                                   | RConn ->
                                                     outside (m'.a a0).apc
                                                   | _ -> false)
                                                | None -> false
                                              in
                                              let again = fun m' ->
                                                (&&)
                                                  ((||)
                                                    (pc_eqb (m'.a a0).apc
                                                      PYield)
                                                    (pc_eqb (m'.a a0).apc
                                                      LChk))
                                                  (match (m'.kn f').kst with
                                                   | CProg -> true
                                                   | _ -> false)
                                              in
                                              (match (m.kn f').kst with
                                               | CNone ->
                                                 if Z.eqb v Z0
                                                 then actsp x ((Step (a0, (S
                                                        O))) :: []) conn
                                                 else if Z.eqb v eINPROGRESS_
                                                      then actsp x ((Step
                                                             (a0, O)) :: [])
                                                             again
                                                      else if (&&)
                                                                ((&&)
                                                                  (is_err v)
                                                                  (negb
                                                                    (Z.eqb v
                                                                    eALREADY_)))
                                                                (negb
                                                                  (Z.eqb v
                                                                    eISCONN_))
                                                           then let e0 =
                                                                  Z.to_nat
                                                                    (Z.sub v
                                                                    (Zpos (XO
                                                                    (XO (XO
                                                                    (XO (XO
                                                                    (XO (XO
                                                                    (XO (XO
                                                                    (XO (XO
                                                                    (XO (XO
                                                                    (XO (XO
                                                                    (XO (XO
                                                                    (XO (XO
                                                                    (XO (XO
                                                                    (XO (XO
                                                                    (XO (XO
                                                                    (XO (XO
                                                                    (XO (XO
                                                                    (XO (XO
                                                                    (XO
                                                                    XH))))))))))))))))))))))))))))))))))
                                                                in
                                                                actsp x
                                                                  ((Step (a0,
                                                                  (S (S
                                                                  e0)))) :: [])
                                                                  (fun m' ->
                                                                  match 
                                                                  (m'.a a0).alast with
                                                                  | Some r0 ->
                                                                    (match r0 with
                                                                    | RErr e' ->
                                                                    (&&)
                                                                    (Nat.eqb
                                                                    e0 e')
                                                                    (outside
                                                                    (m'.a a0).apc)
                                                                    | _ ->
                                                                    false)
                                                                  | None ->
                                                                    false)
                                                           else None
                                               | CProg ->
                                                 if Z.eqb v eALREADY_
                                                 then actsp x ((Step (a0,
                                                        O)) :: []) again
                                                 else if (||) (Z.eqb v Z0)
                                                           (Z.eqb v eISCONN_)
                                                      then actsp x
                                                             ((Establish
                                                             f') :: ((Step
                                                             (a0, O)) :: []))
                                                             conn
                                                      else if (&&) (is_err v)
                                                                (negb
                                                                  (Z.eqb v
                                                                    eINPROGRESS_))
                                                           then let e0 =
                                                                  Z.to_nat
                                                                    (Z.sub v
                                                                    (Zpos (XO
                                                                    (XO (XO
                                                                    (XO (XO
                                                                    (XO (XO
                                                                    (XO (XO
                                                                    (XO (XO
                                                                    (XO (XO
                                                                    (XO (XO
                                                                    (XO (XO
                                                                    (XO (XO
                                                                    (XO (XO
                                                                    (XO (XO
                                                                    (XO (XO
                                                                    (XO (XO
                                                                    (XO (XO
                                                                    (XO (XO
                                                                    (XO
                                                                    XH))))))))))))))))))))))))))))))))))
                                                                in
                                                                actsp x
                                                                  ((Refuse
                                                                  (f',
                                                                  e0)) :: ((Step
                                                                  (a0,
                                                                  O)) :: []))
                                                                  (fun m' ->
                                                                  match 
                                                                  (m'.a a0).alast with
                                                                  | Some r0 ->
                                                                    (match r0 with
                                                                    | RErr e' ->
                                                                    (&&)
                                                                    (Nat.eqb
                                                                    e0 e')
                                                                    (outside
                                                                    (m'.a a0).apc)
                                                                    | _ ->
                                                                    false)
                                                                  | None ->
                                                                    false)
                                                           else None
                                               | CRef e0 ->
                                                 if Z.eqb v
                                                      (Z.add (Zpos (XO (XO
                                                        (XO (XO (XO (XO (XO
                                                        (XO (XO (XO (XO (XO
                                                        (XO (XO (XO (XO (XO
                                                        (XO (XO (XO (XO (XO
                                                        (XO (XO (XO (XO (XO
                                                        (XO (XO (XO (XO (XO
                                                        XH)))))))))))))))))))))))))))))))))
                                                        (Z.of_nat e0))
                                                 then actsp x ((Step (a0,
                                                        O)) :: []) (fun m' ->
                                                        match (m'.a a0).alast with
                                                        | Some r0 ->
                                                          (match r0 with
                                                           | RErr e' ->
                                                             (&&)
                                                               (Nat.eqb e0 e')
                                                               (outside
                                                                 (m'.a a0).apc)
                                                           | _ -> false)
                                                        | None -> false)
                                                 else None
                                               | _ ->
                                                 if (||) (Z.eqb v Z0)
                                                      (Z.eqb v eISCONN_)
                                                 then actsp x ((Step (a0,
                                                        O)) :: []) conn
                                                 else None)
                                         else None
                                       | _ -> None)
                                    | XO p6 ->
                                      (match p6 with
                                       | XH ->
                                         acts x
                                           (app
                                             (if (&&)
                                                   (Z.eqb op (Zpos (XO XH)))
                                                   (negb (m.p f').wshut)
                                              then (Shutdown f') :: []
                                              else [])
                                             (if (||) (m.closed f')
                                                   (is_some (m.busy f'))
                                              then []
                                              else (Close f') :: []))
                                       | _ -> None)
                                    | XH ->
                                      acts x
                                        (app
                                          (if (&&) (Z.eqb op (Zpos (XO XH)))
                                                (negb (m.p f').wshut)
                                           then (Shutdown f') :: []
                                           else [])
                                          (if (||) (m.closed f')
                                                (is_some (m.busy f'))
                                           then []
                                           else (Close f') :: [])))
                                 | XH ->
                                   if (&&)
                                        ((&&) ((||) (at_ PTry) (at_ LSys))
                                          (Nat.eqb f f'))
                                        (kind_eqb r.akind Wr)
                                   then if Z.eqb v eAGAIN_
                                        then actsp x ((Step (a0, O)) :: [])
                                               (fun m' ->
                                               (||)
                                                 (pc_eqb (m'.a a0).apc PYield)
                                                 (pc_eqb (m'.a a0).apc LChk))
                                        else if is_err v
                                             then actsp x
                                                    (app
                                                      (if (m.p f').wshut
                                                       then []
                                                       else (Shutdown
                                                              f') :: [])
                                                      ((Step (a0, O)) :: []))
                                                    (fun m' ->
                                                    match (m'.a a0).alast with
                                                    | Some r0 ->
                                                      (match r0 with
                                                       | RPipe ->
                                                         (&&)
                                                           (m'.closed
                                                             (peerv f'))
                                                           (outside
                                                             (m'.a a0).apc)
                                                       | _ -> false)
                                                    | None -> false)
                                             else actsp x ((Step (a0,
                                                    (if dg
                                                     then S O
                                                     else Z.to_nat v))) :: [])
                                                    (fun m' ->
                                                    match (m'.a a0).alast with
                                                    | Some r0 ->
                                                      (match r0 with
                                                       | RWrote n ->
                                                         (&&)
                                                           (Nat.eqb n
                                                             (if dg
                                                              then S O
                                                              else Z.to_nat v))
                                                           (outside
                                                             (m'.a a0).apc)
                                                       | _ -> false)
                                                    | None -> false)
                                   else None)
                              | Zneg _ -> None))
                        | XO p3 ->
                          (match p3 with
                           | XI p4 ->
                             (match p4 with
                              | XI p5 ->
                                (match p5 with
                                 | XH ->
                                   (match x.tm t0 with
                                    | MKer _ -> ok x
                                    | MKerX -> ok x
                                    | _ ->
                                      if at_ RClr
                                      then chk (eqb (znz v) (is_some r.acio))
                                             (acts x ((Step (a0, O)) :: []))
                                      else obs x (outside p0))
                                 | _ -> None)
                              | XO p5 ->
                                (match p5 with
                                 | XH ->
                                   if at_ LRes
                                   then actsp x ((Step (a0, O)) :: ((Step
                                          (a0, O)) :: [])) (fun m' ->
                                          pc_eqb (m'.a a0).apc LSys)
                                   else None
                                 | _ -> None)
                              | XH -> None)
                           | XO p4 ->
                             (match p4 with
                              | XI p5 ->
                                (match p5 with
                                 | XI _ -> None
                                 | XO p6 ->
                                   (match p6 with
                                    | XH ->
                                      (match x.selcur t0 with
                                       | Some f' ->
                                         (match m.sel f' with
                                          | SIdle -> ok x
                                          | SEv _ ->
                                            (match bindo m.closed x.oco obj f' with
                                             | Some oc ->
                                               chk
                                                 (eqb (znz v)
                                                   (is_some (m.co f')))
                                                 (acts (set_oco x oc)
                                                   ((SelTake f') :: []))
                                             | None -> None)
                                          | _ -> None)
                                       | None ->
                                         (match x.selpre t0 with
                                          | Some w ->
                                            (match zassoc x.oco obj with
                                             | Some f' ->
                                               if m.closed f'
                                               then ok
                                                      (set_sel x x.selthr
                                                        x.selcur
                                                        (upd x.selpre t0 None))
                                               else (match bindo m.closed
                                                             x.oflag w f' with
                                                     | Some ofl ->
                                                       (match bindthr
                                                                x.selthr f' t0 with
                                                        | Some sth ->
                                                          (match m.sel f' with
                                                           | SIdle ->
                                                             chk
                                                               (eqb (znz v)
                                                                 (is_some
                                                                   (m.co f')))
                                                               (acts
                                                                 (set_sel
                                                                   (set_oflag
                                                                    x ofl
                                                                    (filter
                                                                    (fun o ->
                                                                    negb
                                                                    (Z.eqb o
                                                                    w))
                                                                    x.preflag))
                                                                   sth
                                                                   (upd
                                                                    x.selcur
                                                                    t0 (Some
                                                                    f'))
                                                                   (upd
                                                                    x.selpre
                                                                    t0 None))
                                                                 (app
                                                                   (flush m x
                                                                    t0)
                                                                   (app
                                                                    (if 
                                                                    m.pend f'
                                                                    then []
                                                                    else 
                                                                    (Spurious
                                                                    f') :: [])
                                                                    ((SelEvent
                                                                    (f',
                                                                    f')) :: ((SelTake
                                                                    f') :: [])))))
                                                           | _ -> None)
                                                        | None -> None)
                                                     | None -> None)
                                             | None ->
                                               ok
                                                 (set_sel x x.selthr x.selcur
                                                   (upd x.selpre t0 None)))
                                          | None ->
                                            ok
                                              (set_sel x x.selthr x.selcur
                                                (upd x.selpre t0 None))))
                                    | _ -> None)
                                 | XH ->
                                   (match x.tm t0 with
                                    | MKer k ->
                                      (match (m.sb k).spc_ with
                                       | SFast ->
                                         let f' = (m.sb k).sfd in
                                         let dg =
                                           (&&) (nmem x.dang f')
                                             (match m.sel f' with
                                              | SEv _ -> true
                                              | _ -> false)
                                         in
                                         chk
                                           (eqb (znz v) (is_some (m.co f')))
                                           (acts
                                             (if dg
                                              then set_dang x
                                                     (filter (fun g ->
                                                       negb (Nat.eqb g f'))
                                                       x.dang)
                                              else x)
                                             (app ((Sub (k, false)) :: [])
                                               (if dg
                                                then (SelTake f') :: []
                                                else [])))
                                       | _ -> None)
                                    | _ -> None))
                              | XO p5 ->
                                (match p5 with
                                 | XO p6 ->
                                   (match p6 with
                                    | XH ->
                                      (match x.tm t0 with
                                       | MNone ->
                                         if at_ RBack
                                         then chk
                                                ((&&) (eqb (znz v) r.apara)
                                                  (negb r.acanc))
                                                (acts x ((Step (a0,
                                                  O)) :: ((Step (a0,
                                                  O)) :: [])))
                                         else None
                                       | _ -> None)
                                    | _ -> None)
                                 | _ -> None)
                              | XH ->
                                let k = Z.to_nat obj in
                                let x' =
                                  set_can x (upd x.amap k (Some a0)) x.cpend
                                    x.ctgt x.precan
                                in
                                if nmem x.precan k
                                then acts x' ((CancelSet a0) :: ((CancelIo
                                       a0) :: []))
                                else ok x')
                           | XH ->
                             let n = Z.to_nat v in
                             let x0 =
                               set_fds x x.fds x.dgr
                                 (if nmem x.seen a0
                                  then x.seen
                                  else a0 :: x.seen)
                             in
                             if Nat.ltb m.now n
                             then acts x0 ((Tick (sub n m.now)) :: [])
                             else obs x0 (Nat.eqb m.now n))
                        | XH ->
                          let x' = set_tm x (upd x.tm t0 MNone) in
                          (match x.tm t0 with
                           | MKer k ->
                             actsp
                               (match (m.sb k).spc_ with
                                | SCan4 (f', _) ->
                                  set_cnull x' (upd x'.cnull f' (m.tmr f'))
                                | _ -> x')
                               (match (m.sb k).spc_ with
                                | SCan4 (_, _) -> (Sub (k, false)) :: []
                                | _ -> []) (fun m' -> is_done (m'.sb k).spc_)
                           | _ -> ok x'))
                     | XO p2 ->
                       (match p2 with
                        | XI p3 ->
                          (match p3 with
                           | XI p4 ->
                             (match p4 with
                              | XI p5 ->
                                (match p5 with
                                 | XH ->
                                   (match x.tm t0 with
                                    | MKer k ->
                                      obs x
                                        (match (m.sb k).spc_ with
                                         | SCan2 -> true
                                         | _ -> false)
                                    | _ ->
                                      (match x.cpend t0 with
                                       | Some k ->
                                         (match x.amap k with
                                          | Some c ->
                                            acts
                                              (set_can x x.amap
                                                (upd x.cpend t0 None)
                                                (upd x.ctgt t0 (Some c))
                                                x.precan) ((CancelSet
                                              c) :: [])
                                          | None ->
                                            ok
                                              (set_can x x.amap
                                                (upd x.cpend t0 None)
                                                (upd x.ctgt t0 None)
                                                (k :: x.precan)))
                                       | None ->
                                         ok
                                           (set_can x x.amap x.cpend
                                             (upd x.ctgt t0 None) x.precan)))
                                 | _ -> None)
                              | XO p5 ->
                                (match p5 with
                                 | XH ->
                                   if at_ LChk
                                   then chk (eqb (znz v) (m.flag f))
                                          (acts x ((Step (a0, O)) :: []))
                                   else None
                                 | _ -> None)
                              | XH -> None)
                           | XO p4 ->
                             (match p4 with
                              | XI p5 ->
                                (match p5 with
                                 | XI _ -> None
                                 | XO p6 ->
                                   (match p6 with
                                    | XH ->
                                      (match zassoc x.oflag obj with
                                       | Some f' ->
                                         if m.closed f'
                                         then (match find (fun f'0 ->
                                                       (&&)
                                                         ((&&)
                                                           (negb
                                                             (m.closed f'0))
                                                           (negb
                                                             (existsb
                                                               (fun p7 ->
                                                               Nat.eqb
                                                                 (snd p7) f'0)
                                                               x.oflag)))
                                                         (is_some
                                                           (pick_timer m f'0
                                                             m.nextt None)))
                                                       x.fds with
                                               | Some f'0 ->
                                                 (match bindo m.closed
                                                          x.oflag obj f'0 with
                                                  | Some ofl ->
                                                    let p7 = (f'0,
                                                      (set_oflag x ofl
                                                        (filter (fun o ->
                                                          negb (Z.eqb o obj))
                                                          x.preflag)))
                                                    in
                                                    let (f'1, x0) = p7 in
                                                    (match bindthr x0.selthr
                                                             f'1 t0 with
                                                     | Some sth ->
                                                       (match pick_timer m
                                                                f'1 m.nextt
                                                                None with
                                                        | Some e0 ->
                                                          chk
                                                            (eqb (znz v)
                                                              (m.flag f'1))
                                                            (acts
                                                              (set_sel x0 sth
                                                                (upd
                                                                  x0.selcur
                                                                  t0 (Some
                                                                  f'1))
                                                                (upd
                                                                  x0.selpre
                                                                  t0 None))
                                                              (app
                                                                (flush m x0
                                                                  t0)
                                                                (app
                                                                  (if 
                                                                    Nat.ltb
                                                                    m.now
                                                                    (m.t e0).tdl
                                                                   then 
                                                                    (Tick
                                                                    (sub
                                                                    (m.t e0).tdl
                                                                    m.now)) :: []
                                                                   else [])
                                                                  ((SelFire
                                                                  (f'1,
                                                                  e0)) :: ((SelMark
                                                                  f'1) :: [])))))
                                                        | None ->
                                                          (match x0.cnull f'1 with
                                                           | Some e0 ->
                                                             (match (m.t e0).tstate with
                                                              | TArmed ->
                                                                (match 
                                                                 (m.t e0).tev with
                                                                 | Some _ ->
                                                                   None
                                                                 | None ->
                                                                   chk
                                                                    ((&&)
                                                                    (eqb
                                                                    (znz v)
                                                                    (m.flag
                                                                    f'1))
                                                                    (negb
                                                                    calm))
                                                                    (acts
                                                                    (set_cnull
                                                                    (set_sel
                                                                    x0 sth
                                                                    (upd
                                                                    x0.selcur
                                                                    t0 (Some
                                                                    f'1))
                                                                    (upd
                                                                    x0.selpre
                                                                    t0 None))
                                                                    (upd
                                                                    x0.cnull
                                                                    f'1 None))
                                                                    (app
                                                                    (flush m
                                                                    x0 t0)
                                                                    (app
                                                                    (if 
                                                                    Nat.ltb
                                                                    m.now
                                                                    (m.t e0).tdl
                                                                    then 
                                                                    (Tick
                                                                    (sub
                                                                    (m.t e0).tdl
                                                                    m.now)) :: []
                                                                    else [])
                                                                    (app
                                                                    ((SelFire
                                                                    (f'1,
                                                                    e0)) :: ((Spurious
                                                                    f'1) :: ((SelEvent
                                                                    (f'1,
                                                                    f'1)) :: [])))
                                                                    (if 
                                                                    m.pend f'1
                                                                    then 
                                                                    (Spurious
                                                                    f'1) :: []
                                                                    else []))))))
                                                              | _ -> None)
                                                           | None -> None))
                                                     | None -> None)
                                                  | None -> None)
                                               | None -> None)
                                         else let p7 = (f', x) in
                                              let (f'0, x0) = p7 in
                                              (match bindthr x0.selthr f'0 t0 with
                                               | Some sth ->
                                                 (match pick_timer m f'0
                                                          m.nextt None with
                                                  | Some e0 ->
                                                    chk
                                                      (eqb (znz v)
                                                        (m.flag f'0))
                                                      (acts
                                                        (set_sel x0 sth
                                                          (upd x0.selcur t0
                                                            (Some f'0))
                                                          (upd x0.selpre t0
                                                            None))
                                                        (app (flush m x0 t0)
                                                          (app
                                                            (if Nat.ltb m.now
                                                                  (m.t e0).tdl
                                                             then (Tick
                                                                    (sub
                                                                    (m.t e0).tdl
                                                                    m.now)) :: []
                                                             else [])
                                                            ((SelFire (f'0,
                                                            e0)) :: ((SelMark
                                                            f'0) :: [])))))
                                                  | None ->
                                                    (match x0.cnull f'0 with
                                                     | Some e0 ->
                                                       (match (m.t e0).tstate with
                                                        | TArmed ->
                                                          (match (m.t e0).tev with
                                                           | Some _ -> None
                                                           | None ->
                                                             chk
                                                               ((&&)
                                                                 (eqb 
                                                                   (znz v)
                                                                   (m.flag
                                                                    f'0))
                                                                 (negb calm))
                                                               (acts
                                                                 (set_cnull
                                                                   (set_sel
                                                                    x0 sth
                                                                    (upd
                                                                    x0.selcur
                                                                    t0 (Some
                                                                    f'0))
                                                                    (upd
                                                                    x0.selpre
                                                                    t0 None))
                                                                   (upd
                                                                    x0.cnull
                                                                    f'0 None))
                                                                 (app
                                                                   (flush m
                                                                    x0 t0)
                                                                   (app
                                                                    (if 
                                                                    Nat.ltb
                                                                    m.now
                                                                    (m.t e0).tdl
                                                                    then 
                                                                    (Tick
                                                                    (sub
                                                                    (m.t e0).tdl
                                                                    m.now)) :: []
                                                                    else [])
                                                                    (app
                                                                    ((SelFire
                                                                    (f'0,
                                                                    e0)) :: ((Spurious
                                                                    f'0) :: ((SelEvent
                                                                    (f'0,
                                                                    f'0)) :: [])))
                                                                    (if 
                                                                    m.pend f'0
                                                                    then 
                                                                    (Spurious
                                                                    f'0) :: []
                                                                    else []))))))
                                                        | _ -> None)
                                                     | None -> None))
                                               | None -> None)
                                       | None ->
                                         (match find (fun f' ->
                                                  (&&)
                                                    ((&&)
                                                      (negb (m.closed f'))
                                                      (negb
                                                        (existsb (fun p7 ->
                                                          Nat.eqb (snd p7) f')
                                                          x.oflag)))
                                                    (is_some
                                                      (pick_timer m f'
                                                        m.nextt None))) x.fds with
                                          | Some f' ->
                                            (match bindo m.closed x.oflag obj
                                                     f' with
                                             | Some ofl ->
                                               let p7 = (f',
                                                 (set_oflag x ofl
                                                   (filter (fun o ->
                                                     negb (Z.eqb o obj))
                                                     x.preflag)))
                                               in
                                               let (f'0, x0) = p7 in
                                               (match bindthr x0.selthr f'0 t0 with
                                                | Some sth ->
                                                  (match pick_timer m f'0
                                                           m.nextt None with
                                                   | Some e0 ->
                                                     chk
                                                       (eqb (znz v)
                                                         (m.flag f'0))
                                                       (acts
                                                         (set_sel x0 sth
                                                           (upd x0.selcur t0
                                                             (Some f'0))
                                                           (upd x0.selpre t0
                                                             None))
                                                         (app (flush m x0 t0)
                                                           (app
                                                             (if Nat.ltb
                                                                   m.now
                                                                   (m.t e0).tdl
                                                              then (Tick
                                                                    (sub
                                                                    (m.t e0).tdl
                                                                    m.now)) :: []
                                                              else [])
                                                             ((SelFire (f'0,
                                                             e0)) :: ((SelMark
                                                             f'0) :: [])))))
                                                   | None ->
                                                     (match x0.cnull f'0 with
                                                      | Some e0 ->
                                                        (match (m.t e0).tstate with
                                                         | TArmed ->
                                                           (match (m.t e0).tev with
                                                            | Some _ -> None
                                                            | None ->
                                                              chk
                                                                ((&&)
                                                                  (eqb
                                                                    (znz v)
                                                                    (m.flag
                                                                    f'0))
                                                                  (negb calm))
                                                                (acts
                                                                  (set_cnull
                                                                    (set_sel
                                                                    x0 sth
                                                                    (upd
                                                                    x0.selcur
                                                                    t0 (Some
                                                                    f'0))
                                                                    (upd
                                                                    x0.selpre
                                                                    t0 None))
                                                                    (upd
                                                                    x0.cnull
                                                                    f'0 None))
                                                                  (app
                                                                    (flush m
                                                                    x0 t0)
                                                                    (app
                                                                    (if 
                                                                    Nat.ltb
                                                                    m.now
                                                                    (m.t e0).tdl
                                                                    then 
                                                                    (Tick
                                                                    (sub
                                                                    (m.t e0).tdl
                                                                    m.now)) :: []
                                                                    else [])
                                                                    (app
                                                                    ((SelFire
                                                                    (f'0,
                                                                    e0)) :: ((Spurious
                                                                    f'0) :: ((SelEvent
                                                                    (f'0,
                                                                    f'0)) :: [])))
                                                                    (if 
                                                                    m.pend f'0
                                                                    then 
                                                                    (Spurious
                                                                    f'0) :: []
                                                                    else []))))))
                                                         | _ -> None)
                                                      | None -> None))
                                                | None -> None)
                                             | None -> None)
                                          | None -> None))
                                    | _ -> None)
                                 | XH ->
                                   (match x.tm t0 with
                                    | MKer k ->
                                      (match (m.sb k).spc_ with
                                       | SSetIo ->
                                         acts x ((Sub (k, false)) :: [])
                                       | _ -> None)
                                    | _ -> None))
                              | XO p5 ->
                                (match p5 with
                                 | XI p6 ->
                                   (match p6 with
                                    | XH ->
                                      (match x.tm t0 with
                                       | MNone ->
                                         if at_ PYield
                                         then chk (negb r.acanc)
                                                (acts
                                                  (set_thr x (a0 :: x.tsent)
                                                    x.prox) ((Step (a0,
                                                  O)) :: []))
                                         else ok x
                                       | _ -> ok x)
                                    | _ -> None)
                                 | _ -> None)
                              | XH ->
                                ok
                                  (set_can x x.amap
                                    (upd x.cpend t0 (Some (Z.to_nat obj)))
                                    x.ctgt x.precan))
                           | XH ->
                             let f' =
                               Z.to_nat
                                 (Z.modulo obj (Zpos (XO (XO (XO (XO (XO (XO
                                   (XO (XO XH))))))))))
                             in
                             let k =
                               if Z.eqb
                                    (Z.modulo
                                      (Z.div obj (Zpos (XO (XO (XO (XO (XO
                                        (XO (XO (XO (XO (XO (XO
                                        XH))))))))))))) (Zpos (XO XH))) (Zpos
                                    XH)
                               then Ac
                               else if Z.eqb
                                         (Z.modulo
                                           (Z.div obj (Zpos (XO (XO (XO (XO
                                             (XO (XO (XO (XO (XO (XO (XO (XO
                                             XH)))))))))))))) (Zpos (XO XH)))
                                         (Zpos XH)
                                    then Co
                                    else if Z.eqb
                                              (Z.modulo
                                                (Z.div obj (Zpos (XO (XO (XO
                                                  (XO (XO (XO (XO (XO
                                                  XH)))))))))) (Zpos (XO XH)))
                                              Z0
                                         then Rd
                                         else Wr
                             in
                             let cn0 =
                               Z.eqb
                                 (Z.modulo
                                   (Z.div obj (Zpos (XO (XO (XO (XO (XO (XO
                                     (XO (XO (XO XH))))))))))) (Zpos (XO XH)))
                                 (Zpos XH)
                             in
                             let dg =
                               Z.eqb
                                 (Z.modulo
                                   (Z.div obj (Zpos (XO (XO (XO (XO (XO (XO
                                     (XO (XO (XO (XO XH)))))))))))) (Zpos (XO
                                   XH))) (Zpos XH)
                             in
                             let to0 =
                               let z0 =
                                 Z.div v (Zpos (XO (XO (XO (XO (XO (XO (XO
                                   (XO (XO (XO (XO (XO (XO (XO (XO (XO (XO
                                   (XO (XO (XO (XO (XO (XO (XO (XO (XO (XO
                                   (XO (XO (XO (XO (XO (XO (XO (XO (XO
                                   XH)))))))))))))))))))))))))))))))))))))
                               in
                               if Z.eqb z0 Z0
                               then None
                               else Some (Z.to_nat (Z.sub z0 (Zpos XH)))
                             in
                             let off =
                               Z.to_nat
                                 (Z.modulo
                                   (Z.div v (Zpos (XO (XO (XO (XO (XO (XO (XO
                                     (XO (XO (XO (XO (XO (XO (XO (XO (XO
                                     XH)))))))))))))))))) (Zpos (XO (XO (XO
                                   (XO (XO (XO (XO (XO (XO (XO (XO (XO (XO
                                   (XO (XO (XO (XO (XO (XO (XO
                                   XH))))))))))))))))))))))
                             in
                             let n =
                               Z.to_nat
                                 (Z.modulo v (Zpos (XO (XO (XO (XO (XO (XO
                                   (XO (XO (XO (XO (XO (XO (XO (XO (XO (XO
                                   XH))))))))))))))))))
                             in
                             let l3 =
                               match k with
                               | Rd -> []
                               | Wr -> if dg then off :: [] else seq off n
                               | _ -> []
                             in
                             let n' =
                               match k with
                               | Rd -> if dg then S O else n
                               | Co -> n
                               | _ -> O
                             in
                             acts
                               (set_fds x
                                 (if nmem x.fds f' then x.fds else f' :: x.fds)
                                 (upd x.dgr f' dg)
                                 (if nmem x.seen a0
                                  then x.seen
                                  else a0 :: x.seen)) ((Start (a0, f', k,
                               cn0, to0, l3, n')) :: []))
                        | XO p3 ->
                          (match p3 with
                           | XI p4 ->
                             (match p4 with
                              | XI p5 ->
                                (match p5 with
                                 | XH ->
                                   (match x.tm t0 with
                                    | MKer _ -> ok x
                                    | MKerX -> ok x
                                    | _ ->
                                      if at_ RBack
                                      then chk
                                             (eqb (Z.eqb v (Zpos XH)) r.acanc)
                                             (acts x ((Step (a0, O)) :: []))
                                      else obs x (outside p0))
                                 | _ -> None)
                              | XO p5 ->
                                (match p5 with
                                 | XH ->
                                   if at_ PReset
                                   then (match bindo m.closed x.oflag obj f with
                                         | Some ofl ->
                                           let pre =
                                             (&&)
                                               ((&&) (zmem x.preflag obj)
                                                 (unbound m.closed x.oflag
                                                   obj)) (znz v)
                                           in
                                           let x1 =
                                             set_oflag x ofl
                                               (if pre
                                                then filter (fun o ->
                                                       negb (Z.eqb o obj))
                                                       x.preflag
                                                else x.preflag)
                                           in
                                           let late =
                                             find (fun t' ->
                                               match x.selpre t' with
                                               | Some o -> Z.eqb o obj
                                               | None -> false)
                                               (seq O (S (S (S (S (S (S (S (S
                                                 (S (S (S (S (S (S (S (S (S
                                                 (S (S (S (S (S (S (S (S (S
                                                 (S (S (S (S (S (S (S (S (S
                                                 (S (S (S (S (S (S (S (S (S
                                                 (S (S (S (S (S (S (S (S (S
                                                 (S (S (S (S (S (S (S (S (S
                                                 (S (S
                                                 O)))))))))))))))))))))))))))))))))))))))))))))))))))))))))))))))))
                                           in
                                           let x' =
                                             if pre
                                             then (match late with
                                                   | Some t' ->
                                                     set_sel x1
                                                       (upd x1.selthr f (Some
                                                         t'))
                                                       (upd x1.selcur t'
                                                         (Some f))
                                                       (upd x1.selpre t' None)
                                                   | None -> x1)
                                             else x1
                                           in
                                           chk
                                             (eqb (znz v)
                                               ((||) (m.flag f) pre))
                                             (acts x'
                                               (app
                                                 (if pre
                                                  then app ((Spurious
                                                         f) :: ((SelEvent (f,
                                                         f)) :: []))
                                                         (match late with
                                                          | Some _ -> []
                                                          | None ->
                                                            (SelTake f) :: [])
                                                  else []) ((Step (a0,
                                                 O)) :: [])))
                                         | None -> None)
                                   else None
                                 | _ -> None)
                              | XH ->
                                (match x.tm t0 with
                                 | MRun c ->
                                   ok (set_tm x (upd x.tm t0 (MRunP c)))
                                 | _ -> ok x))
                           | XO p4 ->
                             (match p4 with
                              | XI p5 ->
                                (match p5 with
                                 | XI _ -> None
                                 | XO p6 ->
                                   (match p6 with
                                    | XH ->
                                      (match zassoc x.oflag obj with
                                       | Some f' ->
                                         if m.closed f'
                                         then ok
                                                (set_sel
                                                  (set_oflag x x.oflag
                                                    (if zmem x.preflag obj
                                                     then x.preflag
                                                     else obj :: x.preflag))
                                                  x.selthr
                                                  (upd x.selcur t0 None)
                                                  (upd x.selpre t0 (Some obj)))
                                         else (match bindthr x.selthr f' t0 with
                                               | Some sth ->
                                                 chk
                                                   (eqb (znz v) (m.flag f'))
                                                   (acts
                                                     (set_sel
                                                       (undang_x m x f') sth
                                                       (upd x.selcur t0 (Some
                                                         f'))
                                                       (upd x.selpre t0 None))
                                                     (app (undang m x f')
                                                       (app (flush m x t0)
                                                         (app
                                                           (if m.pend f'
                                                            then []
                                                            else (Spurious
                                                                   f') :: [])
                                                           ((SelEvent (f',
                                                           f')) :: [])))))
                                               | None -> None)
                                       | None ->
                                         ok
                                           (set_sel
                                             (set_oflag x x.oflag
                                               (if zmem x.preflag obj
                                                then x.preflag
                                                else obj :: x.preflag))
                                             x.selthr (upd x.selcur t0 None)
                                             (upd x.selpre t0 (Some obj))))
                                    | _ -> None)
                                 | XH ->
                                   (match x.tm t0 with
                                    | MKer k ->
                                      (match (m.sb k).spc_ with
                                       | SChk ->
                                         let f' = (m.sb k).sfd in
                                         (match bindo m.closed x.oflag obj f' with
                                          | Some ofl ->
                                            let pre =
                                              (&&)
                                                ((&&)
                                                  ((&&) (zmem x.preflag obj)
                                                    (unbound m.closed x.oflag
                                                      obj)) (znz v))
                                                (match m.sel f' with
                                                 | SIdle -> true
                                                 | _ -> false)
                                            in
                                            let x1 =
                                              set_oflag x ofl
                                                (if pre
                                                 then filter (fun o ->
                                                        negb (Z.eqb o obj))
                                                        x.preflag
                                                 else x.preflag)
                                            in
                                            let late =
                                              find (fun t' ->
                                                match x.selpre t' with
                                                | Some o -> Z.eqb o obj
                                                | None -> false)
                                                (seq O (S (S (S (S (S (S (S
                                                  (S (S (S (S (S (S (S (S (S
                                                  (S (S (S (S (S (S (S (S (S
                                                  (S (S (S (S (S (S (S (S (S
                                                  (S (S (S (S (S (S (S (S (S
                                                  (S (S (S (S (S (S (S (S (S
                                                  (S (S (S (S (S (S (S (S (S
                                                  (S (S (S
                                                  O)))))))))))))))))))))))))))))))))))))))))))))))))))))))))))))))))
                                            in
                                            let x' =
                                              if pre
                                              then (match late with
                                                    | Some t' ->
                                                      set_sel x1
                                                        (upd x1.selthr f'
                                                          (Some t'))
                                                        (upd x1.selcur t'
                                                          (Some f'))
                                                        (upd x1.selpre t'
                                                          None)
                                                    | None ->
                                                      set_dang x1
                                                        (f' :: x1.dang))
                                              else x1
                                            in
                                            chk
                                              (eqb (znz v)
                                                ((||) (m.flag f') pre))
                                              (acts x'
                                                (app
                                                  (if pre
                                                   then (Spurious
                                                          f') :: ((SelEvent
                                                          (f', f')) :: [])
                                                   else []) ((Sub (k,
                                                  false)) :: [])))
                                          | None -> None)
                                       | _ -> None)
                                    | _ -> None))
                              | XO p5 ->
                                (match p5 with
                                 | XO p6 ->
                                   (match p6 with
                                    | XH ->
                                      (match x.tm t0 with
                                       | MKer k ->
                                         (match (m.sb k).spc_ with
                                          | SCan3 f' ->
                                            chk
                                              (eqb (znz v)
                                                (is_some (m.co f')))
                                              (acts x ((Sub (k,
                                                false)) :: []))
                                          | _ -> None)
                                       | _ ->
                                         (match x.ctgt t0 with
                                          | Some c ->
                                            (match m.cn c with
                                             | Cn2 f' ->
                                               chk
                                                 (eqb (znz v)
                                                   (is_some (m.co f')))
                                                 (acts x ((CancelTake
                                                   c) :: []))
                                             | _ -> None)
                                          | None -> ok x))
                                    | _ -> None)
                                 | _ -> None)
                              | XH ->
                                let f' =
                                  Z.to_nat
                                    (Z.modulo obj (Zpos (XO (XO (XO (XO (XO
                                      (XO (XO (XO XH))))))))))
                                in
                                let st_ =
                                  Z.modulo
                                    (Z.div obj (Zpos (XO (XO (XO (XO (XO (XO
                                      (XO (XO XH)))))))))) (Zpos (XO (XO (XO
                                    (XO (XO (XO (XO (XO XH)))))))))
                                in
                                let off =
                                  Z.to_nat
                                    (Z.div v (Zpos (XO (XO (XO (XO (XO (XO
                                      (XO (XO (XO (XO (XO (XO (XO (XO (XO (XO
                                      XH))))))))))))))))))
                                in
                                let n =
                                  Z.to_nat
                                    (Z.modulo v (Zpos (XO (XO (XO (XO (XO (XO
                                      (XO (XO (XO (XO (XO (XO (XO (XO (XO (XO
                                      XH))))))))))))))))))
                                in
                                let dg = x.dgr f' in
                                if negb (Nat.eqb f f')
                                then None
                                else (match st_ with
                                      | Z0 ->
                                        if at_ Idle
                                        then (match r.akind with
                                              | Rd ->
                                                obs x
                                                  (if dg
                                                   then res_ok r.alast
                                                          (off :: [])
                                                   else if Nat.eqb n O
                                                        then (match r.alast with
                                                              | Some r0 ->
                                                                (match r0 with
                                                                 | REof ->
                                                                   true
                                                                 | _ -> false)
                                                              | None -> false)
                                                        else res_ok r.alast
                                                               (seq off n))
                                              | Wr ->
                                                obs x
                                                  (match r.alast with
                                                   | Some r0 ->
                                                     (match r0 with
                                                      | RWrote n' ->
                                                        Nat.eqb n'
                                                          (if dg
                                                           then S O
                                                           else n)
                                                      | _ -> false)
                                                   | None -> false)
                                              | Ac ->
                                                obs x
                                                  (match r.alast with
                                                   | Some r0 ->
                                                     (match r0 with
                                                      | RAcc c -> Nat.eqb c n
                                                      | _ -> false)
                                                   | None -> false)
                                              | Co ->
                                                obs x
                                                  (match r.alast with
                                                   | Some r0 ->
                                                     (match r0 with
                                                      | RConn -> true
                                                      | _ -> false)
                                                   | None -> false))
                                        else None
                                      | Zpos p5 ->
                                        (match p5 with
                                         | XH ->
                                           if at_ LRes
                                           then actsp x ((Step (a0,
                                                  O)) :: []) (fun m' ->
                                                  match (m'.a a0).alast with
                                                  | Some r0 ->
                                                    (match r0 with
                                                     | RTimedOut ->
                                                       pc_eqb (m'.a a0).apc
                                                         Idle
                                                     | _ -> false)
                                                  | None -> false)
                                           else None
                                         | _ ->
                                           obs x
                                             ((&&) (at_ Idle)
                                               (match r.alast with
                                                | Some r0 ->
                                                  (match r0 with
                                                   | REof -> true
                                                   | RPipe -> true
                                                   | RErr _ -> true
                                                   | _ -> false)
                                                | None -> false)))
                                      | Zneg _ ->
                                        obs x
                                          ((&&) (at_ Idle)
                                            (match r.alast with
                                             | Some r0 ->
                                               (match r0 with
                                                | REof -> true
                                                | RPipe -> true
                                                | RErr _ -> true
                                                | _ -> false)
                                             | None -> false))))
                           | XH ->
                             obs (set_tm x (upd x.tm t0 MNone)) (outside p0))
                        | XH ->
                          (match x.tm t0 with
                           | MNone ->
                             (match x.tm t0 with
                              | MProxyP -> ok (set_tm x (upd x.tm t0 MKerX))
                              | MRunP c ->
                                obs (set_tm x (upd x.tm t0 MKerX))
                                  ((||) (outside (m.a c).apc) (nmem x.prox c))
                              | _ -> None)
                           | MRun c ->
                             let cand =
                               filter (fun a1 ->
                                 (&&) (pc_eqb (m.a a1).apc Susp)
                                   (match (m.a a1).ahome with
                                    | HSub _ -> true
                                    | _ -> false)) x.tsent
                             in
                             if (&&)
                                  ((&&) (negb (nmem x.seen c))
                                    (pc_eqb (m.a c).apc Idle))
                                  (negb (nmem x.prox c))
                             then (match cand with
                                   | [] ->
                                     let x0 =
                                       set_thr x
                                         (filter (fun a1 ->
                                           negb (Nat.eqb a1 c)) x.tsent)
                                         x.prox
                                     in
                                     let md =
                                       match (m.a c).apc with
                                       | Susp ->
                                         (match (m.a c).ahome with
                                          | HSub k -> MKer k
                                          | _ -> MKerX)
                                       | _ -> MKerX
                                     in
                                     (match md with
                                      | MKer k ->
                                        acts (set_tm x0 (upd x0.tm t0 md))
                                          (match (m.sb k).spc_ with
                                           | SArm -> (Sub (k, false)) :: []
                                           | _ -> [])
                                      | _ ->
                                        obs (set_tm x0 (upd x0.tm t0 md))
                                          ((||) (outside (m.a c).apc)
                                            (nmem x0.prox c)))
                                   | a1 :: l3 ->
                                     (match l3 with
                                      | [] ->
                                        (match find (fun p3 ->
                                                 Nat.eqb (snd p3) c) x.cmap with
                                         | Some p3 ->
                                           let (o, _) = p3 in
                                           let x0 =
                                             set_thr
                                               (set_cmap x ((o,
                                                 a1) :: x.cmap) x.nco)
                                               x.tsent (a1 :: x.prox)
                                           in
                                           let x1 =
                                             set_thr x0
                                               (filter (fun a2 ->
                                                 negb (Nat.eqb a2 a1))
                                                 x0.tsent) x0.prox
                                           in
                                           let md =
                                             match (m.a a1).apc with
                                             | Susp ->
                                               (match (m.a a1).ahome with
                                                | HSub k -> MKer k
                                                | _ -> MKerX)
                                             | _ -> MKerX
                                           in
                                           (match md with
                                            | MKer k ->
                                              acts
                                                (set_tm x1 (upd x1.tm t0 md))
                                                (match (m.sb k).spc_ with
                                                 | SArm ->
                                                   (Sub (k, false)) :: []
                                                 | _ -> [])
                                            | _ ->
                                              obs
                                                (set_tm x1 (upd x1.tm t0 md))
                                                ((||) (outside (m.a a1).apc)
                                                  (nmem x1.prox a1)))
                                         | None ->
                                           let x0 =
                                             set_thr x
                                               (filter (fun a2 ->
                                                 negb (Nat.eqb a2 c)) x.tsent)
                                               x.prox
                                           in
                                           let md =
                                             match (m.a c).apc with
                                             | Susp ->
                                               (match (m.a c).ahome with
                                                | HSub k -> MKer k
                                                | _ -> MKerX)
                                             | _ -> MKerX
                                           in
                                           (match md with
                                            | MKer k ->
                                              acts
                                                (set_tm x0 (upd x0.tm t0 md))
                                                (match (m.sb k).spc_ with
                                                 | SArm ->
                                                   (Sub (k, false)) :: []
                                                 | _ -> [])
                                            | _ ->
                                              obs
                                                (set_tm x0 (upd x0.tm t0 md))
                                                ((||) (outside (m.a c).apc)
                                                  (nmem x0.prox c))))
                                      | _ :: _ ->
                                        let x0 =
                                          set_thr x
                                            (filter (fun a2 ->
                                              negb (Nat.eqb a2 c)) x.tsent)
                                            x.prox
                                        in
                                        let md =
                                          match (m.a c).apc with
                                          | Susp ->
                                            (match (m.a c).ahome with
                                             | HSub k -> MKer k
                                             | _ -> MKerX)
                                          | _ -> MKerX
                                        in
                                        (match md with
                                         | MKer k ->
                                           acts (set_tm x0 (upd x0.tm t0 md))
                                             (match (m.sb k).spc_ with
                                              | SArm -> (Sub (k, false)) :: []
                                              | _ -> [])
                                         | _ ->
                                           obs (set_tm x0 (upd x0.tm t0 md))
                                             ((||) (outside (m.a c).apc)
                                               (nmem x0.prox c)))))
                             else let x0 =
                                    set_thr x
                                      (filter (fun a1 -> negb (Nat.eqb a1 c))
                                        x.tsent) x.prox
                                  in
                                  let md =
                                    match (m.a c).apc with
                                    | Susp ->
                                      (match (m.a c).ahome with
                                       | HSub k -> MKer k
                                       | _ -> MKerX)
                                    | _ -> MKerX
                                  in
                                  (match md with
                                   | MKer k ->
                                     acts (set_tm x0 (upd x0.tm t0 md))
                                       (match (m.sb k).spc_ with
                                        | SArm -> (Sub (k, false)) :: []
                                        | _ -> [])
                                   | _ ->
                                     obs (set_tm x0 (upd x0.tm t0 md))
                                       ((||) (outside (m.a c).apc)
                                         (nmem x0.prox c)))
                           | MProxy c ->
                             let cand =
                               filter (fun a1 ->
                                 (&&) (pc_eqb (m.a a1).apc Susp)
                                   (match (m.a a1).ahome with
                                    | HSub _ -> true
                                    | _ -> false)) x.tsent
                             in
                             if (&&)
                                  ((&&) (negb (nmem x.seen c))
                                    (pc_eqb (m.a c).apc Idle))
                                  (negb (nmem x.prox c))
                             then (match cand with
                                   | [] ->
                                     let x0 =
                                       set_thr x
                                         (filter (fun a1 ->
                                           negb (Nat.eqb a1 c)) x.tsent)
                                         x.prox
                                     in
                                     let md =
                                       match (m.a c).apc with
                                       | Susp ->
                                         (match (m.a c).ahome with
                                          | HSub k -> MKer k
                                          | _ -> MKerX)
                                       | _ -> MKerX
                                     in
                                     (match md with
                                      | MKer k ->
                                        acts (set_tm x0 (upd x0.tm t0 md))
                                          (match (m.sb k).spc_ with
                                           | SArm -> (Sub (k, false)) :: []
                                           | _ -> [])
                                      | _ ->
                                        obs (set_tm x0 (upd x0.tm t0 md))
                                          ((||) (outside (m.a c).apc)
                                            (nmem x0.prox c)))
                                   | a1 :: l3 ->
                                     (match l3 with
                                      | [] ->
                                        (match find (fun p3 ->
                                                 Nat.eqb (snd p3) c) x.cmap with
                                         | Some p3 ->
                                           let (o, _) = p3 in
                                           let x0 =
                                             set_thr
                                               (set_cmap x ((o,
                                                 a1) :: x.cmap) x.nco)
                                               x.tsent (a1 :: x.prox)
                                           in
                                           let x1 =
                                             set_thr x0
                                               (filter (fun a2 ->
                                                 negb (Nat.eqb a2 a1))
                                                 x0.tsent) x0.prox
                                           in
                                           let md =
                                             match (m.a a1).apc with
                                             | Susp ->
                                               (match (m.a a1).ahome with
                                                | HSub k -> MKer k
                                                | _ -> MKerX)
                                             | _ -> MKerX
                                           in
                                           (match md with
                                            | MKer k ->
                                              acts
                                                (set_tm x1 (upd x1.tm t0 md))
                                                (match (m.sb k).spc_ with
                                                 | SArm ->
                                                   (Sub (k, false)) :: []
                                                 | _ -> [])
                                            | _ ->
                                              obs
                                                (set_tm x1 (upd x1.tm t0 md))
                                                ((||) (outside (m.a a1).apc)
                                                  (nmem x1.prox a1)))
                                         | None ->
                                           let x0 =
                                             set_thr x
                                               (filter (fun a2 ->
                                                 negb (Nat.eqb a2 c)) x.tsent)
                                               x.prox
                                           in
                                           let md =
                                             match (m.a c).apc with
                                             | Susp ->
                                               (match (m.a c).ahome with
                                                | HSub k -> MKer k
                                                | _ -> MKerX)
                                             | _ -> MKerX
                                           in
                                           (match md with
                                            | MKer k ->
                                              acts
                                                (set_tm x0 (upd x0.tm t0 md))
                                                (match (m.sb k).spc_ with
                                                 | SArm ->
                                                   (Sub (k, false)) :: []
                                                 | _ -> [])
                                            | _ ->
                                              obs
                                                (set_tm x0 (upd x0.tm t0 md))
                                                ((||) (outside (m.a c).apc)
                                                  (nmem x0.prox c))))
                                      | _ :: _ ->
                                        let x0 =
                                          set_thr x
                                            (filter (fun a2 ->
                                              negb (Nat.eqb a2 c)) x.tsent)
                                            x.prox
                                        in
                                        let md =
                                          match (m.a c).apc with
                                          | Susp ->
                                            (match (m.a c).ahome with
                                             | HSub k -> MKer k
                                             | _ -> MKerX)
                                          | _ -> MKerX
                                        in
                                        (match md with
                                         | MKer k ->
                                           acts (set_tm x0 (upd x0.tm t0 md))
                                             (match (m.sb k).spc_ with
                                              | SArm -> (Sub (k, false)) :: []
                                              | _ -> [])
                                         | _ ->
                                           obs (set_tm x0 (upd x0.tm t0 md))
                                             ((||) (outside (m.a c).apc)
                                               (nmem x0.prox c)))))
                             else let x0 =
                                    set_thr x
                                      (filter (fun a1 -> negb (Nat.eqb a1 c))
                                        x.tsent) x.prox
                                  in
                                  let md =
                                    match (m.a c).apc with
                                    | Susp ->
                                      (match (m.a c).ahome with
                                       | HSub k -> MKer k
                                       | _ -> MKerX)
                                    | _ -> MKerX
                                  in
                                  (match md with
                                   | MKer k ->
                                     acts (set_tm x0 (upd x0.tm t0 md))
                                       (match (m.sb k).spc_ with
                                        | SArm -> (Sub (k, false)) :: []
                                        | _ -> [])
                                   | _ ->
                                     obs (set_tm x0 (upd x0.tm t0 md))
                                       ((||) (outside (m.a c).apc)
                                         (nmem x0.prox c)))
                           | _ ->
                             (match x.tm t0 with
                              | MProxyP -> ok (set_tm x (upd x.tm t0 MKerX))
                              | MRunP c ->
                                obs (set_tm x (upd x.tm t0 MKerX))
                                  ((||) (outside (m.a c).apc) (nmem x.prox c))
                              | _ -> None)))
                     | XH ->
                       let (c, x1) =
                         match zassoc x.cmap obj with
                         | Some c -> (c, x)
                         | None ->
                           let c = add (mul (S (S O)) x.nco) (S O) in
                           (c, (set_cmap x ((obj, c) :: x.cmap) (S x.nco)))
                       in
                       let x2 =
                         set_tm x1
                           (upd x1.tm t0
                             (if nmem x1.prox c then MProxy c else MRun c))
                       in
                       (match x.tm t0 with
                        | MKer k ->
                          (match (m.sb k).spc_ with
                           | SFastT c' ->
                             if Nat.eqb c c'
                             then acts x2 ((Sub (k, false)) :: ((Resume
                                    c) :: []))
                             else None
                           | _ -> None)
                        | _ ->
                          if (&&) (pc_eqb (m.a c).apc Susp)
                               (match (m.a c).ahome with
                                | HSub _ -> true
                                | _ -> false)
                          then obs x2 (nmem x.prox c)
                          else if pc_eqb (m.a c).apc Susp
                               then acts
                                      (match (m.a c).ahome with
                                       | HCan _ ->
                                         set_cnull x2
                                           (upd x2.cnull (m.a c).afd
                                             (m.tmr (m.a c).afd))
                                       | HKCan _ ->
                                         set_cnull x2
                                           (upd x2.cnull (m.a c).afd
                                             (m.tmr (m.a c).afd))
                                       | _ -> x2)
                                      (app (flush_for m c) ((Resume c) :: []))
                               else obs x2
                                      ((||) (outside (m.a c).apc)
                                        (nmem x.prox c))))
                  | _ -> None)
               | _ :: _ -> None)))))

(** val exec : bool -> nat -> st -> action list -> st option **)

let rec exec calm cap m = function
| [] -> Some m
| a0 :: r ->
  (match mstep calm cap m a0 with
   | Some m' -> exec calm cap m' r
   | None -> None)

(** val is_cap : z list -> nat option **)

let is_cap = function
| [] -> None
| z0 :: l ->
  (match z0 with
   | Zpos p0 ->
     (match p0 with
      | XI p1 ->
        (match p1 with
         | XI p2 ->
           (match p2 with
            | XO p3 ->
              (match p3 with
               | XH ->
                 (match l with
                  | [] -> None
                  | _ :: l0 ->
                    (match l0 with
                     | [] -> None
                     | n :: l1 ->
                       (match l1 with
                        | [] -> None
                        | _ :: l2 ->
                          (match l2 with
                           | [] -> Some (Z.to_nat n)
                           | _ :: _ -> None))))
               | _ -> None)
            | _ -> None)
         | _ -> None)
      | _ -> None)
   | _ -> None)

(** val accept_ev : bool -> ast -> z list -> ast option **)

let accept_ev calm s e =
  match is_cap e with
  | Some n ->
    if s.fresh
    then Some { ms = init; ax = s.ax; acap = n; fresh = true }
    else None
  | None ->
    (match mkplan calm s e with
     | Some p0 ->
       let (p1, x') = p0 in
       let (al, post) = p1 in
       (match exec calm s.acap s.ms al with
        | Some m' ->
          if post m'
          then Some { ms = m'; ax = x'; acap = s.acap; fresh = false }
          else None
        | None -> None)
     | None -> None)

(** val final_ok : ast -> bool **)

let final_ok s =
  forallb (fun a0 -> outside (s.ms.a a0).apc) s.ax.seen

(** val accept_ev_any : ast -> z list -> ast option **)

let accept_ev_any =
  accept_ev false

(** val m_init : ast **)

let m_init =
  ainit

(** val m_accept : ast -> z list -> ast option **)

let m_accept =
  accept_ev_any

(** val m_final : ast -> bool **)

let m_final =
  final_ok
