
(** val negb : bool -> bool **)

let negb = function
| true -> false
| false -> true

type nat =
| O
| S of nat

(** val fst : ('a1 * 'a2) -> 'a1 **)

let fst = function
| (x, _) -> x

(** val snd : ('a1 * 'a2) -> 'a2 **)

let snd = function
| (_, y) -> y

(** val app : 'a1 list -> 'a1 list -> 'a1 list **)

let rec app l m =
  match l with
  | [] -> m
  | a :: l1 -> a :: (app l1 m)

type comparison =
| Eq
| Lt
| Gt

(** val compOpp : comparison -> comparison **)

let compOpp = function
| Eq -> Eq
| Lt -> Gt
| Gt -> Lt

(** val pred : nat -> nat **)

let pred n = match n with
| O -> n
| S u -> u

module Coq__1 = struct
 (** val add : nat -> nat -> nat **)
 let rec add n m =
   match n with
   | O -> m
   | S p -> S (add p m)
end
include Coq__1

(** val eqb : bool -> bool -> bool **)

let eqb b1 b2 =
  if b1 then b2 else if b2 then false else true

module Nat =
 struct
  (** val eqb : nat -> nat -> bool **)

  let rec eqb n m =
    match n with
    | O -> (match m with
            | O -> true
            | S _ -> false)
    | S n' -> (match m with
               | O -> false
               | S m' -> eqb n' m')

  (** val eq_dec : nat -> nat -> bool **)

  let rec eq_dec n m =
    match n with
    | O -> (match m with
            | O -> true
            | S _ -> false)
    | S n0 -> (match m with
               | O -> false
               | S n1 -> eq_dec n0 n1)
 end

(** val remove : ('a1 -> 'a1 -> bool) -> 'a1 -> 'a1 list -> 'a1 list **)

let rec remove eq_dec0 x = function
| [] -> []
| y :: tl ->
  if eq_dec0 x y then remove eq_dec0 x tl else y :: (remove eq_dec0 x tl)

(** val map : ('a1 -> 'a2) -> 'a1 list -> 'a2 list **)

let rec map f = function
| [] -> []
| a :: t -> (f a) :: (map f t)

type positive =
| XI of positive
| XO of positive
| XH

type z =
| Z0
| Zpos of positive
| Zneg of positive

module Pos =
 struct
  (** val succ : positive -> positive **)

  let rec succ = function
  | XI p -> XO (succ p)
  | XO p -> XI p
  | XH -> XO XH

  (** val add : positive -> positive -> positive **)

  let rec add x y =
    match x with
    | XI p ->
      (match y with
       | XI q0 -> XO (add_carry p q0)
       | XO q0 -> XI (add p q0)
       | XH -> XO (succ p))
    | XO p ->
      (match y with
       | XI q0 -> XI (add p q0)
       | XO q0 -> XO (add p q0)
       | XH -> XI p)
    | XH -> (match y with
             | XI q0 -> XO (succ q0)
             | XO q0 -> XI q0
             | XH -> XO XH)

  (** val add_carry : positive -> positive -> positive **)

  and add_carry x y =
    match x with
    | XI p ->
      (match y with
       | XI q0 -> XI (add_carry p q0)
       | XO q0 -> XO (add_carry p q0)
       | XH -> XI (succ p))
    | XO p ->
      (match y with
       | XI q0 -> XO (add_carry p q0)
       | XO q0 -> XI (add p q0)
       | XH -> XO (succ p))
    | XH ->
      (match y with
       | XI q0 -> XI (succ q0)
       | XO q0 -> XO (succ q0)
       | XH -> XI XH)

  (** val pred_double : positive -> positive **)

  let rec pred_double = function
  | XI p -> XI (XO p)
  | XO p -> XI (pred_double p)
  | XH -> XH

  (** val mul : positive -> positive -> positive **)

  let rec mul x y =
    match x with
    | XI p -> add y (XO (mul p y))
    | XO p -> XO (mul p y)
    | XH -> y

  (** val iter : ('a1 -> 'a1) -> 'a1 -> positive -> 'a1 **)

  let rec iter f x = function
  | XI n' -> f (iter f (iter f x n') n')
  | XO n' -> iter f (iter f x n') n'
  | XH -> f x

  (** val div2 : positive -> positive **)

  let div2 = function
  | XI p0 -> p0
  | XO p0 -> p0
  | XH -> XH

  (** val div2_up : positive -> positive **)

  let div2_up = function
  | XI p0 -> succ p0
  | XO p0 -> p0
  | XH -> XH

  (** val compare_cont : comparison -> positive -> positive -> comparison **)

  let rec compare_cont r x y =
    match x with
    | XI p ->
      (match y with
       | XI q0 -> compare_cont r p q0
       | XO q0 -> compare_cont Gt p q0
       | XH -> Gt)
    | XO p ->
      (match y with
       | XI q0 -> compare_cont Lt p q0
       | XO q0 -> compare_cont r p q0
       | XH -> Gt)
    | XH -> (match y with
             | XH -> r
             | _ -> Lt)

  (** val compare : positive -> positive -> comparison **)

  let compare =
    compare_cont Eq

  (** val eqb : positive -> positive -> bool **)

  let rec eqb p q0 =
    match p with
    | XI p0 -> (match q0 with
                | XI q1 -> eqb p0 q1
                | _ -> false)
    | XO p0 -> (match q0 with
                | XO q1 -> eqb p0 q1
                | _ -> false)
    | XH -> (match q0 with
             | XH -> true
             | _ -> false)

  (** val iter_op : ('a1 -> 'a1 -> 'a1) -> positive -> 'a1 -> 'a1 **)

  let rec iter_op op p a =
    match p with
    | XI p0 -> op a (iter_op op p0 (op a a))
    | XO p0 -> iter_op op p0 (op a a)
    | XH -> a

  (** val to_nat : positive -> nat **)

  let to_nat x =
    iter_op Coq__1.add x (S O)

  (** val of_succ_nat : nat -> positive **)

  let rec of_succ_nat = function
  | O -> XH
  | S x -> succ (of_succ_nat x)
 end

module Z =
 struct
  (** val double : z -> z **)

  let double = function
  | Z0 -> Z0
  | Zpos p -> Zpos (XO p)
  | Zneg p -> Zneg (XO p)

  (** val succ_double : z -> z **)

  let succ_double = function
  | Z0 -> Zpos XH
  | Zpos p -> Zpos (XI p)
  | Zneg p -> Zneg (Pos.pred_double p)

  (** val pred_double : z -> z **)

  let pred_double = function
  | Z0 -> Zneg XH
  | Zpos p -> Zpos (Pos.pred_double p)
  | Zneg p -> Zneg (XI p)

  (** val pos_sub : positive -> positive -> z **)

  let rec pos_sub x y =
    match x with
    | XI p ->
      (match y with
       | XI q0 -> double (pos_sub p q0)
       | XO q0 -> succ_double (pos_sub p q0)
       | XH -> Zpos (XO p))
    | XO p ->
      (match y with
       | XI q0 -> pred_double (pos_sub p q0)
       | XO q0 -> double (pos_sub p q0)
       | XH -> Zpos (Pos.pred_double p))
    | XH ->
      (match y with
       | XI q0 -> Zneg (XO q0)
       | XO q0 -> Zneg (Pos.pred_double q0)
       | XH -> Z0)

  (** val add : z -> z -> z **)

  let add x y =
    match x with
    | Z0 -> y
    | Zpos x' ->
      (match y with
       | Z0 -> x
       | Zpos y' -> Zpos (Pos.add x' y')
       | Zneg y' -> pos_sub x' y')
    | Zneg x' ->
      (match y with
       | Z0 -> x
       | Zpos y' -> pos_sub y' x'
       | Zneg y' -> Zneg (Pos.add x' y'))

  (** val opp : z -> z **)

  let opp = function
  | Z0 -> Z0
  | Zpos x0 -> Zneg x0
  | Zneg x0 -> Zpos x0

  (** val sub : z -> z -> z **)

  let sub m n =
    add m (opp n)

  (** val mul : z -> z -> z **)

  let mul x y =
    match x with
    | Z0 -> Z0
    | Zpos x' ->
      (match y with
       | Z0 -> Z0
       | Zpos y' -> Zpos (Pos.mul x' y')
       | Zneg y' -> Zneg (Pos.mul x' y'))
    | Zneg x' ->
      (match y with
       | Z0 -> Z0
       | Zpos y' -> Zneg (Pos.mul x' y')
       | Zneg y' -> Zpos (Pos.mul x' y'))

  (** val compare : z -> z -> comparison **)

  let compare x y =
    match x with
    | Z0 -> (match y with
             | Z0 -> Eq
             | Zpos _ -> Lt
             | Zneg _ -> Gt)
    | Zpos x' -> (match y with
                  | Zpos y' -> Pos.compare x' y'
                  | _ -> Gt)
    | Zneg x' ->
      (match y with
       | Zneg y' -> compOpp (Pos.compare x' y')
       | _ -> Lt)

  (** val leb : z -> z -> bool **)

  let leb x y =
    match compare x y with
    | Gt -> false
    | _ -> true

  (** val ltb : z -> z -> bool **)

  let ltb x y =
    match compare x y with
    | Lt -> true
    | _ -> false

  (** val eqb : z -> z -> bool **)

  let eqb x y =
    match x with
    | Z0 -> (match y with
             | Z0 -> true
             | _ -> false)
    | Zpos p -> (match y with
                 | Zpos q0 -> Pos.eqb p q0
                 | _ -> false)
    | Zneg p -> (match y with
                 | Zneg q0 -> Pos.eqb p q0
                 | _ -> false)

  (** val max : z -> z -> z **)

  let max n m =
    match compare n m with
    | Lt -> m
    | _ -> n

  (** val to_nat : z -> nat **)

  let to_nat = function
  | Zpos p -> Pos.to_nat p
  | _ -> O

  (** val of_nat : nat -> z **)

  let of_nat = function
  | O -> Z0
  | S n0 -> Zpos (Pos.of_succ_nat n0)

  (** val div2 : z -> z **)

  let div2 = function
  | Z0 -> Z0
  | Zpos p -> (match p with
               | XH -> Z0
               | _ -> Zpos (Pos.div2 p))
  | Zneg p -> Zneg (Pos.div2_up p)

  (** val shiftl : z -> z -> z **)

  let shiftl a = function
  | Z0 -> a
  | Zpos p -> Pos.iter (mul (Zpos (XO XH))) a p
  | Zneg p -> Pos.iter div2 a p

  (** val shiftr : z -> z -> z **)

  let shiftr a n =
    shiftl a (opp n)
 end

type val0 = nat * nat

type rpc =
| YIdle
| Y0
| Y1
| Y0b
| W0
| WB
| Y2
| Y3s
| Y4s
| Y3n
| Y4n
| XA
| X0
| X1
| RPanic

type tctx =
| CTry
| CFirst

type res =
| RNone
| ROk of val0
| REmpty
| RDisc
| RTimeout
| RCancel

type spc =
| SIdle
| M0
| M1
| M2
| MA
| MS
| G0
| G1

type hst =
| Unborn
| Alive
| Dead

type rrec = { rp : rpc; rc : tctx; rtimed : bool; rgr : bool; rv : val0;
              rres : res; rst : hst; rdead : bool; rto : nat }

type srec = { sp : spc; sst : hst; sres : bool; sdead : bool; sn : nat;
              sto : nat }

type st = { q : val0 list; sv : nat; wq : nat list; txp : nat; rxp : 
            nat; rv0 : (nat -> rrec); sd : (nat -> srec); sent : val0 list;
            rlog : (nat * val0) list; drpd : val0 list; hold : nat list;
            pend : nat list; rep : nat list; dropper : nat option;
            livet : nat list; liver : nat list; freed : bool }

(** val upd : (nat -> 'a1) -> nat -> 'a1 -> nat -> 'a1 **)

let upd f i v j =
  if Nat.eqb j i then v else f j

(** val rm : nat -> nat list -> nat list **)

let rm =
  remove Nat.eq_dec

(** val is0 : nat -> bool **)

let is0 n =
  Nat.eqb n O

(** val mk :
    val0 list -> nat -> nat list -> nat -> nat -> (nat -> rrec) -> (nat ->
    srec) -> val0 list -> (nat * val0) list -> val0 list -> nat list -> nat
    list -> nat list -> nat option -> nat list -> nat list -> bool -> st **)

let mk q' v w t x r s' se rl dr ho pe re dp lt lr fr =
  { q = q'; sv = v; wq = w; txp = t; rxp = x; rv0 = r; sd = s'; sent = se;
    rlog = rl; drpd = dr; hold = ho; pend = pe; rep = re; dropper = dp;
    livet = lt; liver = lr; freed = fr }

(** val r_pc : rrec -> rpc -> rrec **)

let r_pc x p =
  { rp = p; rc = x.rc; rtimed = x.rtimed; rgr = x.rgr; rv = x.rv; rres =
    x.rres; rst = x.rst; rdead = x.rdead; rto = x.rto }

(** val r_ret : rrec -> res -> rrec **)

let r_ret x r =
  { rp = YIdle; rc = x.rc; rtimed = x.rtimed; rgr = x.rgr; rv = x.rv; rres =
    r; rst = x.rst; rdead = x.rdead; rto = x.rto }

(** val r_call : rrec -> rpc -> tctx -> bool -> bool -> nat -> rrec **)

let r_call x p c t d o =
  { rp = p; rc = c; rtimed = t; rgr = false; rv = x.rv; rres = RNone; rst =
    x.rst; rdead = d; rto = o }

(** val r_val : rrec -> rpc -> val0 -> rrec **)

let r_val x p v =
  { rp = p; rc = x.rc; rtimed = x.rtimed; rgr = x.rgr; rv = v; rres = x.rres;
    rst = x.rst; rdead = x.rdead; rto = x.rto }

(** val r_gr : rrec -> rpc -> bool -> rrec **)

let r_gr x p g =
  { rp = p; rc = x.rc; rtimed = x.rtimed; rgr = g; rv = x.rv; rres = x.rres;
    rst = x.rst; rdead = x.rdead; rto = x.rto }

(** val r_st : rrec -> rpc -> hst -> rrec **)

let r_st x p h =
  { rp = p; rc = x.rc; rtimed = x.rtimed; rgr = x.rgr; rv = x.rv; rres =
    RNone; rst = h; rdead = false; rto = x.rto }

(** val s_pc : srec -> spc -> srec **)

let s_pc y p =
  { sp = p; sst = y.sst; sres = y.sres; sdead = y.sdead; sn = y.sn; sto =
    y.sto }

(** val s_call : srec -> spc -> bool -> nat -> srec **)

let s_call y p d o =
  { sp = p; sst = y.sst; sres = y.sres; sdead = d; sn = y.sn; sto = o }

(** val s_res : srec -> spc -> bool -> srec **)

let s_res y p r =
  { sp = p; sst = y.sst; sres = r; sdead = y.sdead; sn = y.sn; sto = y.sto }

(** val s_pushed : srec -> srec **)

let s_pushed y =
  { sp = M2; sst = y.sst; sres = true; sdead = y.sdead; sn = (S y.sn); sto =
    y.sto }

(** val s_st : srec -> spc -> hst -> srec **)

let s_st y p h =
  { sp = p; sst = h; sres = y.sres; sdead = y.sdead; sn = y.sn; sto = y.sto }

(** val post_sv : st -> nat **)

let post_sv s =
  match s.wq with
  | [] -> S s.sv
  | _ :: _ -> s.sv

(** val post_wq : st -> nat list **)

let post_wq s =
  match s.wq with
  | [] -> []
  | _ :: w' -> w'

(** val post_Rv : st -> (nat -> rrec) -> nat -> rrec **)

let post_Rv s rvm =
  match s.wq with
  | [] -> rvm
  | w :: _ -> upd rvm w (r_gr (rvm w) (rvm w).rp true)

(** val post_hold : st -> nat list -> nat list **)

let post_hold s h =
  match s.wq with
  | [] -> h
  | w :: _ -> w :: h

type action =
| TryRecv of nat
| Recv of nat * bool
| CloneRx of nat * nat
| DropRx of nat
| RStep of nat
| Fire of nat * bool
| Send of nat
| CloneTx of nat * nat
| DropTx of nat
| SStep of nat
| Free

(** val r_ready : rrec -> bool **)

let r_ready x =
  match x.rp with
  | YIdle -> (match x.rst with
              | Alive -> true
              | _ -> false)
  | _ -> false

(** val s_ready : srec -> bool **)

let s_ready y =
  match y.sp with
  | SIdle -> (match y.sst with
              | Alive -> true
              | _ -> false)
  | _ -> false

(** val step : bool -> bool -> bool -> st -> action -> st option **)

let step fix7 fix7b fix7c s = function
| TryRecv r ->
  let x = s.rv0 r in
  if r_ready x
  then Some
         (mk s.q s.sv s.wq s.txp s.rxp
           (upd s.rv0 r (r_call x Y0 CTry false (is0 s.txp) x.rto)) s.sd
           s.sent s.rlog s.drpd s.hold s.pend s.rep s.dropper s.livet s.liver
           s.freed)
  else None
| Recv (r, timed) ->
  let x = s.rv0 r in
  if r_ready x
  then Some
         (mk s.q s.sv s.wq s.txp s.rxp
           (upd s.rv0 r (r_call x Y0 CFirst timed (is0 s.txp) x.rto)) s.sd
           s.sent s.rlog s.drpd s.hold s.pend s.rep s.dropper s.livet s.liver
           s.freed)
  else None
| CloneRx (r, r2) ->
  let x = s.rv0 r in
  if (&&) (r_ready x) (match (s.rv0 r2).rst with
                       | Unborn -> true
                       | _ -> false)
  then Some
         (mk s.q s.sv s.wq s.txp s.rxp
           (upd s.rv0 r (r_call x XA CTry false false r2)) s.sd s.sent s.rlog
           s.drpd s.hold s.pend s.rep s.dropper s.livet s.liver s.freed)
  else None
| DropRx r ->
  let x = s.rv0 r in
  if r_ready x
  then Some
         (mk s.q s.sv s.wq s.txp s.rxp
           (upd s.rv0 r (r_call x X0 CTry false false x.rto)) s.sd s.sent
           s.rlog s.drpd s.hold s.pend s.rep s.dropper s.livet s.liver
           s.freed)
  else None
| RStep r ->
  let x = s.rv0 r in
  (match x.rp with
   | Y0 ->
     (match s.sv with
      | O ->
        Some
          (mk s.q s.sv s.wq s.txp s.rxp (upd s.rv0 r (r_pc x Y1)) s.sd s.sent
            s.rlog s.drpd s.hold s.pend s.rep s.dropper s.livet s.liver
            s.freed)
      | S n ->
        Some
          (mk s.q n s.wq s.txp s.rxp (upd s.rv0 r (r_pc x Y2)) s.sd s.sent
            s.rlog s.drpd (r :: s.hold) s.pend s.rep s.dropper s.livet
            s.liver s.freed))
   | Y1 ->
     if is0 s.txp
     then Some
            (mk s.q s.sv s.wq s.txp s.rxp
              (upd s.rv0 r (if fix7c then r_pc x Y0b else r_ret x RDisc))
              s.sd s.sent s.rlog s.drpd s.hold s.pend s.rep s.dropper s.livet
              s.liver s.freed)
     else Some
            (mk s.q s.sv s.wq s.txp s.rxp
              (upd s.rv0 r
                (match x.rc with
                 | CTry -> r_ret x REmpty
                 | CFirst -> r_pc x W0)) s.sd s.sent s.rlog s.drpd s.hold
              s.pend s.rep s.dropper s.livet s.liver s.freed)
   | Y0b ->
     (match s.sv with
      | O ->
        Some
          (mk s.q s.sv s.wq s.txp s.rxp (upd s.rv0 r (r_ret x RDisc)) s.sd
            s.sent s.rlog s.drpd s.hold s.pend s.rep s.dropper s.livet
            s.liver s.freed)
      | S n ->
        Some
          (mk s.q n s.wq s.txp s.rxp (upd s.rv0 r (r_pc x Y2)) s.sd s.sent
            s.rlog s.drpd (r :: s.hold) s.pend s.rep s.dropper s.livet
            s.liver s.freed))
   | W0 ->
     (match s.sv with
      | O ->
        Some
          (mk s.q s.sv (app s.wq (r :: [])) s.txp s.rxp
            (upd s.rv0 r (r_gr x WB false)) s.sd s.sent s.rlog s.drpd s.hold
            s.pend s.rep s.dropper s.livet s.liver s.freed)
      | S n ->
        Some
          (mk s.q n s.wq s.txp s.rxp (upd s.rv0 r (r_pc x Y2)) s.sd s.sent
            s.rlog s.drpd (r :: s.hold) s.pend s.rep s.dropper s.livet
            s.liver s.freed))
   | WB ->
     if x.rgr
     then Some
            (mk s.q s.sv s.wq s.txp s.rxp (upd s.rv0 r (r_gr x Y2 false))
              s.sd s.sent s.rlog s.drpd s.hold s.pend s.rep s.dropper s.livet
              s.liver s.freed)
     else None
   | Y2 ->
     (match s.q with
      | [] ->
        Some
          (mk s.q s.sv s.wq s.txp s.rxp (upd s.rv0 r (r_pc x Y3n)) s.sd
            s.sent s.rlog s.drpd (rm r s.hold) s.pend (r :: s.rep) s.dropper
            s.livet s.liver s.freed)
      | v :: q' ->
        if fix7b
        then Some
               (mk q' s.sv s.wq s.txp s.rxp (upd s.rv0 r (r_val x Y3s v))
                 s.sd s.sent (app s.rlog ((r, v) :: [])) s.drpd (rm r s.hold)
                 s.pend (r :: s.rep) s.dropper s.livet s.liver s.freed)
        else Some
               (mk q' s.sv s.wq s.txp s.rxp
                 (upd s.rv0 r (r_ret (r_val x Y2 v) (ROk v))) s.sd s.sent
                 (app s.rlog ((r, v) :: [])) s.drpd (rm r s.hold) s.pend
                 s.rep s.dropper s.livet s.liver s.freed))
   | Y3s ->
     if is0 s.txp
     then Some
            (mk s.q s.sv s.wq s.txp s.rxp (upd s.rv0 r (r_pc x Y4s)) s.sd
              s.sent s.rlog s.drpd s.hold s.pend s.rep s.dropper s.livet
              s.liver s.freed)
     else Some
            (mk s.q s.sv s.wq s.txp s.rxp (upd s.rv0 r (r_ret x (ROk x.rv)))
              s.sd s.sent s.rlog s.drpd s.hold s.pend (rm r s.rep) s.dropper
              s.livet s.liver s.freed)
   | Y4s ->
     let rvm = upd s.rv0 r (r_ret x (ROk x.rv)) in
     Some
     (mk s.q (post_sv s) (post_wq s) s.txp s.rxp (post_Rv s rvm) s.sd s.sent
       s.rlog s.drpd (post_hold s s.hold) s.pend (rm r s.rep) s.dropper
       s.livet s.liver s.freed)
   | Y3n ->
     if is0 s.txp
     then if fix7
          then Some
                 (mk s.q s.sv s.wq s.txp s.rxp (upd s.rv0 r (r_pc x Y4n))
                   s.sd s.sent s.rlog s.drpd s.hold s.pend s.rep s.dropper
                   s.livet s.liver s.freed)
          else Some
                 (mk s.q s.sv s.wq s.txp s.rxp (upd s.rv0 r (r_ret x RDisc))
                   s.sd s.sent s.rlog s.drpd s.hold s.pend (rm r s.rep)
                   s.dropper s.livet s.liver s.freed)
     else Some
            (mk s.q s.sv s.wq s.txp s.rxp (upd s.rv0 r (r_pc x RPanic)) s.sd
              s.sent s.rlog s.drpd s.hold s.pend (rm r s.rep) s.dropper
              s.livet s.liver s.freed)
   | Y4n ->
     let rvm = upd s.rv0 r (r_ret x RDisc) in
     Some
     (mk s.q (post_sv s) (post_wq s) s.txp s.rxp (post_Rv s rvm) s.sd s.sent
       s.rlog s.drpd (post_hold s s.hold) s.pend (rm r s.rep) s.dropper
       s.livet s.liver s.freed)
   | XA ->
     (match (s.rv0 x.rto).rst with
      | Unborn ->
        Some
          (mk s.q s.sv s.wq s.txp (S s.rxp)
            (upd (upd s.rv0 r (r_st x YIdle x.rst)) x.rto
              (r_st (s.rv0 x.rto) YIdle Alive)) s.sd s.sent s.rlog s.drpd
            s.hold s.pend s.rep s.dropper s.livet (x.rto :: s.liver) s.freed)
      | _ -> None)
   | X0 ->
     (match s.rxp with
      | O -> None
      | S n ->
        Some
          (mk s.q s.sv s.wq s.txp n
            (upd s.rv0 r (r_st x (if is0 n then X1 else YIdle) Dead)) s.sd
            s.sent s.rlog s.drpd s.hold s.pend s.rep s.dropper s.livet
            (rm r s.liver) s.freed))
   | X1 ->
     (match s.q with
      | [] ->
        Some
          (mk s.q s.sv s.wq s.txp s.rxp (upd s.rv0 r (r_st x YIdle x.rst))
            s.sd s.sent s.rlog s.drpd s.hold s.pend s.rep s.dropper s.livet
            s.liver s.freed)
      | v :: q' ->
        Some
          (mk q' s.sv s.wq s.txp s.rxp s.rv0 s.sd s.sent s.rlog
            (app s.drpd (v :: [])) s.hold s.pend s.rep s.dropper s.livet
            s.liver s.freed))
   | _ -> None)
| Fire (r, c) ->
  let x = s.rv0 r in
  (match x.rp with
   | WB ->
     if (||) c x.rtimed
     then if x.rgr
          then let rvm =
                 upd s.rv0 r (r_ret x (if c then RCancel else RTimeout))
               in
               Some
               (mk s.q (post_sv s) (post_wq s) s.txp s.rxp (post_Rv s rvm)
                 s.sd s.sent s.rlog s.drpd (post_hold s (rm r s.hold)) s.pend
                 s.rep s.dropper s.livet s.liver s.freed)
          else Some
                 (mk s.q s.sv (rm r s.wq) s.txp s.rxp
                   (upd s.rv0 r (r_ret x (if c then RCancel else RTimeout)))
                   s.sd s.sent s.rlog s.drpd s.hold s.pend s.rep s.dropper
                   s.livet s.liver s.freed)
     else None
   | _ -> None)
| Send a ->
  let y = s.sd a in
  if s_ready y
  then Some
         (mk s.q s.sv s.wq s.txp s.rxp s.rv0
           (upd s.sd a (s_call y M0 (is0 s.rxp) y.sto)) s.sent s.rlog s.drpd
           s.hold s.pend s.rep s.dropper s.livet s.liver s.freed)
  else None
| CloneTx (a, b) ->
  let y = s.sd a in
  if (&&) (s_ready y) (match (s.sd b).sst with
                       | Unborn -> true
                       | _ -> false)
  then Some
         (mk s.q s.sv s.wq s.txp s.rxp s.rv0
           (upd s.sd a (s_call y MA false b)) s.sent s.rlog s.drpd s.hold
           s.pend s.rep s.dropper s.livet s.liver s.freed)
  else None
| DropTx a ->
  let y = s.sd a in
  if s_ready y
  then Some
         (mk s.q s.sv s.wq s.txp s.rxp s.rv0
           (upd s.sd a (s_call y MS false y.sto)) s.sent s.rlog s.drpd s.hold
           s.pend s.rep s.dropper s.livet s.liver s.freed)
  else None
| SStep a ->
  let y = s.sd a in
  (match y.sp with
   | SIdle -> None
   | M0 ->
     if is0 s.rxp
     then Some
            (mk s.q s.sv s.wq s.txp s.rxp s.rv0
              (upd s.sd a (s_res y SIdle false)) s.sent s.rlog s.drpd s.hold
              s.pend s.rep s.dropper s.livet s.liver s.freed)
     else Some
            (mk s.q s.sv s.wq s.txp s.rxp s.rv0 (upd s.sd a (s_pc y M1))
              s.sent s.rlog s.drpd s.hold s.pend s.rep s.dropper s.livet
              s.liver s.freed)
   | M1 ->
     let v = (a, y.sn) in
     Some
     (mk (app s.q (v :: [])) s.sv s.wq s.txp s.rxp s.rv0
       (upd s.sd a (s_pushed y)) (app s.sent (v :: [])) s.rlog s.drpd s.hold
       (a :: s.pend) s.rep s.dropper s.livet s.liver s.freed)
   | M2 ->
     Some
       (mk s.q (post_sv s) (post_wq s) s.txp s.rxp (post_Rv s s.rv0)
         (upd s.sd a (s_pc y SIdle)) s.sent s.rlog s.drpd
         (post_hold s s.hold) (rm a s.pend) s.rep s.dropper s.livet s.liver
         s.freed)
   | MA ->
     (match (s.sd y.sto).sst with
      | Unborn ->
        Some
          (mk s.q s.sv s.wq (S s.txp) s.rxp s.rv0
            (upd (upd s.sd a (s_pc y SIdle)) y.sto
              (s_st (s.sd y.sto) SIdle Alive)) s.sent s.rlog s.drpd s.hold
            s.pend s.rep s.dropper (y.sto :: s.livet) s.liver s.freed)
      | _ -> None)
   | MS ->
     (match s.txp with
      | O -> None
      | S n ->
        Some
          (mk s.q s.sv s.wq n s.rxp s.rv0
            (upd s.sd a (s_st y (if is0 n then G0 else SIdle) Dead)) s.sent
            s.rlog s.drpd s.hold s.pend s.rep
            (if is0 n then Some a else s.dropper) (rm a s.livet) s.liver
            s.freed))
   | G0 ->
     if is0 s.sv
     then Some
            (mk s.q s.sv s.wq s.txp s.rxp s.rv0 (upd s.sd a (s_pc y G1))
              s.sent s.rlog s.drpd s.hold s.pend s.rep s.dropper s.livet
              s.liver s.freed)
     else Some
            (mk s.q s.sv s.wq s.txp s.rxp s.rv0 (upd s.sd a (s_pc y SIdle))
              s.sent s.rlog s.drpd s.hold s.pend s.rep None s.livet s.liver
              s.freed)
   | G1 ->
     Some
       (mk s.q (post_sv s) (post_wq s) s.txp s.rxp (post_Rv s s.rv0)
         (upd s.sd a (s_pc y G0)) s.sent s.rlog s.drpd (post_hold s s.hold)
         s.pend s.rep s.dropper s.livet s.liver s.freed))
| Free ->
  if (&&) ((&&) (is0 s.txp) (is0 s.rxp)) (negb s.freed)
  then Some
         (mk [] s.sv s.wq s.txp s.rxp s.rv0 s.sd s.sent s.rlog
           (app s.drpd s.q) s.hold s.pend s.rep s.dropper s.livet s.liver
           true)
  else None

(** val rrec0 : hst -> rrec **)

let rrec0 h =
  { rp = YIdle; rc = CTry; rtimed = false; rgr = false; rv = (O, O); rres =
    RNone; rst = h; rdead = false; rto = O }

(** val srec0 : hst -> srec **)

let srec0 h =
  { sp = SIdle; sst = h; sres = false; sdead = false; sn = O; sto = O }

(** val init : st **)

let init =
  mk [] O [] (S O) (S O) (fun r ->
    rrec0 (if Nat.eqb r O then Alive else Unborn)) (fun a ->
    srec0 (if Nat.eqb a O then Alive else Unborn)) [] [] [] [] [] [] None
    (O :: []) (O :: []) false

type aux = { started : bool; rof : (nat -> nat); hof : (nat -> nat) }

(** val aux0 : aux **)

let aux0 =
  { started = false; rof = (fun _ -> O); hof = (fun _ -> O) }

type ast = st * aux

(** val a_init : ast **)

let a_init =
  (init, aux0)

(** val set_rof : aux -> nat -> nat -> aux **)

let set_rof x a r =
  { started = x.started; rof = (upd x.rof a r); hof = x.hof }

(** val set_hof : aux -> nat -> nat -> aux **)

let set_hof x a h =
  { started = x.started; rof = x.rof; hof = (upd x.hof a h) }

(** val rpc_eqb : rpc -> rpc -> bool **)

let rpc_eqb x y =
  match x with
  | YIdle -> (match y with
              | YIdle -> true
              | _ -> false)
  | Y0 -> (match y with
           | Y0 -> true
           | _ -> false)
  | Y1 -> (match y with
           | Y1 -> true
           | _ -> false)
  | Y0b -> (match y with
            | Y0b -> true
            | _ -> false)
  | W0 -> (match y with
           | W0 -> true
           | _ -> false)
  | WB -> (match y with
           | WB -> true
           | _ -> false)
  | Y2 -> (match y with
           | Y2 -> true
           | _ -> false)
  | Y3s -> (match y with
            | Y3s -> true
            | _ -> false)
  | Y4s -> (match y with
            | Y4s -> true
            | _ -> false)
  | Y3n -> (match y with
            | Y3n -> true
            | _ -> false)
  | Y4n -> (match y with
            | Y4n -> true
            | _ -> false)
  | XA -> (match y with
           | XA -> true
           | _ -> false)
  | X0 -> (match y with
           | X0 -> true
           | _ -> false)
  | X1 -> (match y with
           | X1 -> true
           | _ -> false)
  | RPanic -> (match y with
               | RPanic -> true
               | _ -> false)

(** val spc_eqb : spc -> spc -> bool **)

let spc_eqb x y =
  match x with
  | SIdle -> (match y with
              | SIdle -> true
              | _ -> false)
  | M0 -> (match y with
           | M0 -> true
           | _ -> false)
  | M1 -> (match y with
           | M1 -> true
           | _ -> false)
  | M2 -> (match y with
           | M2 -> true
           | _ -> false)
  | MA -> (match y with
           | MA -> true
           | _ -> false)
  | MS -> (match y with
           | MS -> true
           | _ -> false)
  | G0 -> (match y with
           | G0 -> true
           | _ -> false)
  | G1 -> (match y with
           | G1 -> true
           | _ -> false)

(** val zb : z -> bool **)

let zb v =
  negb (Z.eqb v Z0)

(** val sgn : z -> z **)

let sgn w =
  if Z.ltb w (Zpos (XO (XO (XO (XO (XO (XO (XO (XO (XO (XO (XO (XO (XO (XO
       (XO (XO (XO (XO (XO (XO (XO (XO (XO (XO (XO (XO (XO (XO (XO (XO (XO
       (XO (XO (XO (XO (XO (XO (XO (XO (XO (XO (XO (XO (XO (XO (XO (XO (XO
       (XO (XO (XO (XO (XO (XO (XO (XO (XO (XO (XO (XO (XO (XO (XO
       XH))))))))))))))))))))))))))))))))))))))))))))))))))))))))))))))))
  then w
  else Z.sub w (Zpos (XO (XO (XO (XO (XO (XO (XO (XO (XO (XO (XO (XO (XO (XO
         (XO (XO (XO (XO (XO (XO (XO (XO (XO (XO (XO (XO (XO (XO (XO (XO (XO
         (XO (XO (XO (XO (XO (XO (XO (XO (XO (XO (XO (XO (XO (XO (XO (XO (XO
         (XO (XO (XO (XO (XO (XO (XO (XO (XO (XO (XO (XO (XO (XO (XO (XO
         XH)))))))))))))))))))))))))))))))))))))))))))))))))))))))))))))))))

(** val isnil : 'a1 list -> bool **)

let isnil = function
| [] -> true
| _ :: _ -> false

(** val res_is : res -> z -> z -> bool **)

let res_is r k v =
  match r with
  | ROk v0 ->
    let (h, i) = v0 in
    (&&) (Z.eqb k Z0)
      (Z.eqb v
        (Z.add
          (Z.mul (Z.of_nat h) (Zpos (XO (XO (XO (XI (XO (XI (XI (XI (XI
            XH))))))))))) (Z.of_nat i)))
  | REmpty -> Z.eqb k (Zpos XH)
  | RDisc -> Z.eqb k (Zpos (XO XH))
  | _ -> false

(** val hst_dead : hst -> bool **)

let hst_dead = function
| Dead -> true
| _ -> false

type plan = { acts : action list; post : (st -> bool); nxt : (st -> aux) }

(** val steps : st -> action list -> st option **)

let rec steps s = function
| [] -> Some s
| a :: l' ->
  (match step true true true s a with
   | Some s' -> steps s' l'
   | None -> None)

(** val guard : bool -> plan option -> plan option **)

let guard b p =
  if b then p else None

(** val ok : action list -> aux -> plan option **)

let ok l x =
  Some { acts = l; post = (fun _ -> true); nxt = (fun _ -> x) }

(** val okp : action list -> (st -> bool) -> aux -> plan option **)

let okp l c x =
  Some { acts = l; post = c; nxt = (fun _ -> x) }

(** val skip : aux -> plan option **)

let skip x =
  ok [] x

(** val at_r : st -> nat -> rpc -> bool **)

let at_r s r p =
  rpc_eqb (s.rv0 r).rp p

(** val at_s : st -> nat -> spc -> bool **)

let at_s s h p =
  spc_eqb (s.sd h).sp p

(** val svz : st -> z **)

let svz s =
  Z.of_nat s.sv

(** val wake : st -> nat -> action list **)

let wake s r =
  if at_r s r WB then (RStep r) :: [] else []

(** val plan_ev : st -> aux -> z list -> plan option **)

let plan_ev s x = function
| [] -> None
| code :: l ->
  (match l with
   | [] -> None
   | za :: l0 ->
     (match l0 with
      | [] -> None
      | o :: l1 ->
        (match l1 with
         | [] -> None
         | v :: l2 ->
           (match l2 with
            | [] ->
              let a = Z.to_nat za in
              let inr = negb (Nat.eqb (x.rof a) O) in
              let r = pred (x.rof a) in
              let ins = negb (Nat.eqb (x.hof a) O) in
              let h = pred (x.hof a) in
              let free = (&&) (negb inr) (negb ins) in
              (match code with
               | Zpos p ->
                 (match p with
                  | XI p0 ->
                    (match p0 with
                     | XI p1 ->
                       (match p1 with
                        | XI p2 ->
                          (match p2 with
                           | XI p3 ->
                             (match p3 with
                              | XH ->
                                guard
                                  ((&&) ((&&) inr (at_r s r XA))
                                    (Z.eqb (Z.of_nat s.rxp) v))
                                  (ok ((RStep r) :: []) x)
                              | _ -> None)
                           | XO p3 ->
                             (match p3 with
                              | XH ->
                                guard
                                  ((&&) ((&&) inr (at_r s r Y3s))
                                    (Z.eqb (Z.of_nat s.txp) v))
                                  (ok ((RStep r) :: []) x)
                              | _ -> None)
                           | XH ->
                             guard
                               ((&&) ((&&) inr (at_r s r YIdle))
                                 (hst_dead (s.rv0 r).rst))
                               (skip (set_rof x a O)))
                        | XO p2 ->
                          (match p2 with
                           | XI p3 ->
                             (match p3 with
                              | XI _ -> None
                              | XO p4 ->
                                (match p4 with
                                 | XH ->
                                   guard
                                     ((&&)
                                       ((&&) ((&&) inr (at_r s r W0))
                                         (Z.leb (sgn v) Z0))
                                       (Z.eqb (svz s) Z0))
                                     (okp ((RStep r) :: []) (fun s' ->
                                       at_r s' r WB) x)
                                 | _ -> None)
                              | XH ->
                                guard
                                  ((&&) ((&&) inr (at_r s r Y3s))
                                    (Z.eqb (Z.of_nat s.txp) v))
                                  (ok ((RStep r) :: []) x))
                           | XO p3 ->
                             (match p3 with
                              | XO p4 ->
                                (match p4 with
                                 | XH ->
                                   guard ((&&) s.freed (Z.eqb v Z0)) (skip x)
                                 | _ -> None)
                              | _ -> None)
                           | XH ->
                             guard
                               ((&&) ((&&) inr (at_r s r YIdle))
                                 (res_is (s.rv0 r).rres o v))
                               (skip (set_rof x a O)))
                        | XH ->
                          guard
                            ((&&)
                              ((&&) ((&&) ins (Nat.eqb h (Z.to_nat o)))
                                (at_s s h SIdle)) (hst_dead (s.sd h).sst))
                            (skip (set_hof x a O)))
                     | XO p1 ->
                       (match p1 with
                        | XI p2 ->
                          (match p2 with
                           | XI p3 ->
                             (match p3 with
                              | XI _ -> None
                              | XO p4 ->
                                (match p4 with
                                 | XH -> guard (zb v) (skip x)
                                 | _ -> None)
                              | XH ->
                                guard
                                  ((&&) ((&&) ins (at_s s h MA))
                                    (Z.eqb (Z.of_nat s.txp) v))
                                  (ok ((SStep h) :: []) x))
                           | XO p3 ->
                             (match p3 with
                              | XH ->
                                guard ((&&) ((&&) ins (at_s s h M1)) (zb v))
                                  (ok ((SStep h) :: []) x)
                              | _ -> None)
                           | XH -> None)
                        | XO p2 ->
                          (match p2 with
                           | XI p3 ->
                             (match p3 with
                              | XI _ -> None
                              | XO p4 ->
                                (match p4 with
                                 | XH ->
                                   guard
                                     ((&&) ((&&) inr (zb v))
                                       ((||)
                                         ((||) (at_r s r Y0) (at_r s r Y0b))
                                         (at_r s r W0)))
                                     (okp ((RStep r) :: []) (fun s' ->
                                       at_r s' r Y2) x)
                                 | _ -> None)
                              | XH ->
                                guard
                                  ((&&) ((&&) inr (at_r s r Y1))
                                    (Z.eqb (Z.of_nat s.txp) v))
                                  (ok ((RStep r) :: []) x))
                           | XO p3 ->
                             (match p3 with
                              | XI _ -> None
                              | XO p4 ->
                                (match p4 with
                                 | XH ->
                                   guard
                                     ((&&) ((&&) inr (at_r s r X1))
                                       (eqb (negb (isnil s.q)) (zb v)))
                                     (ok ((RStep r) :: []) x)
                                 | _ -> None)
                              | XH ->
                                guard ((&&) inr (at_r s r YIdle))
                                  (skip (set_rof x a O)))
                           | XH ->
                             guard
                               ((&&) ((&&) inr (at_r s r YIdle))
                                 (res_is (s.rv0 r).rres o v))
                               (skip (set_rof x a O)))
                        | XH ->
                          guard
                            ((&&) ((&&) ins (Nat.eqb h (Z.to_nat o)))
                              (at_s s h SIdle)) (skip (set_hof x a O)))
                     | XH ->
                       guard
                         ((&&)
                           ((&&) ((&&) ins (Nat.eqb h (Z.to_nat o)))
                             (at_s s h SIdle)) (eqb (s.sd h).sres (zb v)))
                         (skip (set_hof x a O)))
                  | XO p0 ->
                    (match p0 with
                     | XI p1 ->
                       (match p1 with
                        | XI p2 ->
                          (match p2 with
                           | XI p3 ->
                             (match p3 with
                              | XI _ -> None
                              | XO p4 ->
                                (match p4 with
                                 | XH ->
                                   guard
                                     ((&&) ((&&) ins (at_s s h G0))
                                       (Z.eqb (svz s) (Z.max (sgn v) Z0)))
                                     (ok ((SStep h) :: []) x)
                                 | _ -> None)
                              | XH ->
                                guard
                                  ((&&) ((&&) ins (at_s s h MS))
                                    (Z.eqb (Z.of_nat s.txp) v))
                                  (ok ((SStep h) :: []) x))
                           | XO p3 ->
                             (match p3 with
                              | XH ->
                                guard inr
                                  (match steps s (wake s r) with
                                   | Some s1 ->
                                     guard
                                       ((&&) (at_r s1 r Y2)
                                         (eqb (negb (isnil s1.q)) (zb v)))
                                       (ok (app (wake s r) ((RStep r) :: []))
                                         x)
                                   | None -> None)
                              | _ -> None)
                           | XH ->
                             let rr = Z.to_nat (Z.shiftr o (Zpos XH)) in
                             guard free
                               (ok ((DropRx rr) :: []) (set_rof x a (S rr))))
                        | XO p2 ->
                          (match p2 with
                           | XI p3 ->
                             (match p3 with
                              | XI _ -> None
                              | XO p4 ->
                                (match p4 with
                                 | XH ->
                                   guard ((&&) inr (at_r s r W0)) (skip x)
                                 | _ -> None)
                              | XH ->
                                guard inr
                                  (match steps s (wake s r) with
                                   | Some s1 ->
                                     guard
                                       ((&&) (at_r s1 r Y2)
                                         (eqb (negb (isnil s1.q)) (zb v)))
                                       (ok (app (wake s r) ((RStep r) :: []))
                                         x)
                                   | None -> None))
                           | XO p3 ->
                             (match p3 with
                              | XO p4 ->
                                (match p4 with
                                 | XH ->
                                   guard (Z.eqb v Z0) (ok (Free :: []) x)
                                 | _ -> None)
                              | _ -> None)
                           | XH ->
                             let rr = Z.to_nat (Z.shiftr o (Zpos XH)) in
                             guard free
                               (ok ((Recv (rr, false)) :: [])
                                 (set_rof x a (S rr))))
                        | XH ->
                          let hh = Z.to_nat o in
                          guard free
                            (ok ((DropTx hh) :: []) (set_hof x a (S hh))))
                     | XO p1 ->
                       (match p1 with
                        | XI p2 ->
                          (match p2 with
                           | XI p3 ->
                             (match p3 with
                              | XI _ -> None
                              | XO p4 ->
                                (match p4 with
                                 | XH ->
                                   let waiter = negb (isnil s.wq) in
                                   guard
                                     ((&&) (eqb (Z.ltb (sgn v) Z0) waiter)
                                       ((||) waiter (Z.eqb (svz s) (sgn v))))
                                     (if inr
                                      then guard
                                             ((||) (at_r s r Y4s)
                                               (at_r s r Y4n))
                                             (ok ((RStep r) :: []) x)
                                      else guard
                                             ((&&) ins
                                               ((||) (at_s s h M2)
                                                 (at_s s h G1)))
                                             (ok ((SStep h) :: []) x))
                                 | _ -> None)
                              | XH ->
                                guard
                                  ((&&) ((&&) inr (at_r s r Y3n))
                                    (Z.eqb (Z.of_nat s.txp) v))
                                  (okp ((RStep r) :: []) (fun s' ->
                                    negb (at_r s' r RPanic)) x))
                           | XO p3 ->
                             (match p3 with
                              | XH ->
                                guard
                                  ((&&) ((&&) ins (at_s s h M0))
                                    (Z.eqb (Z.of_nat s.rxp) v))
                                  (ok ((SStep h) :: []) x)
                              | _ -> None)
                           | XH -> None)
                        | XO p2 ->
                          (match p2 with
                           | XI p3 ->
                             (match p3 with
                              | XI _ -> None
                              | XO p4 ->
                                (match p4 with
                                 | XH ->
                                   guard inr
                                     (if at_r s r Y0
                                      then if Z.leb (sgn v) Z0
                                           then guard (Z.eqb (svz s) Z0)
                                                  (okp ((RStep r) :: [])
                                                    (fun s' -> at_r s' r Y1)
                                                    x)
                                           else guard (Z.eqb (svz s) (sgn v))
                                                  (skip x)
                                      else if at_r s r Y0b
                                           then if Z.leb (sgn v) Z0
                                                then guard (Z.eqb (svz s) Z0)
                                                       (okp ((RStep r) :: [])
                                                         (fun s' ->
                                                         at_r s' r YIdle) x)
                                                else guard
                                                       (Z.eqb (svz s) (sgn v))
                                                       (skip x)
                                           else guard
                                                  ((&&) (at_r s r W0)
                                                    (Z.eqb (svz s)
                                                      (Z.max (sgn v) Z0)))
                                                  (skip x))
                                 | _ -> None)
                              | XH ->
                                guard
                                  ((&&) ((&&) inr (at_r s r Y3n))
                                    (Z.eqb (Z.of_nat s.txp) v))
                                  (okp ((RStep r) :: []) (fun s' ->
                                    negb (at_r s' r RPanic)) x))
                           | XO p3 ->
                             (match p3 with
                              | XI _ -> None
                              | XO p4 ->
                                (match p4 with
                                 | XH ->
                                   guard
                                     ((&&) ((&&) inr (at_r s r X0))
                                       (Z.eqb (Z.of_nat s.rxp) v))
                                     (ok ((RStep r) :: []) x)
                                 | _ -> None)
                              | XH ->
                                let rr = Z.to_nat o in
                                guard free
                                  (ok ((CloneRx (rr, (Z.to_nat v))) :: [])
                                    (set_rof x a (S rr))))
                           | XH ->
                             let rr = Z.to_nat (Z.shiftr o (Zpos XH)) in
                             guard free
                               (ok ((TryRecv rr) :: []) (set_rof x a (S rr))))
                        | XH ->
                          let hh = Z.to_nat o in
                          guard free
                            (ok ((CloneTx (hh, (Z.to_nat v))) :: [])
                              (set_hof x a (S hh))))
                     | XH ->
                       let hh = Z.to_nat o in
                       guard ((&&) free (Nat.eqb (s.sd hh).sn (Z.to_nat v)))
                         (ok ((Send hh) :: []) (set_hof x a (S hh))))
                  | XH -> None)
               | _ -> None)
            | _ :: _ -> None))))

(** val accept_ev : ast -> z list -> ast option **)

let accept_ev sx e =
  let (s, x) = sx in
  if x.started
  then (match plan_ev s x e with
        | Some p ->
          (match steps s p.acts with
           | Some s' -> if p.post s' then Some (s', (p.nxt s')) else None
           | None -> None)
        | None -> None)
  else (match e with
        | [] -> Some sx
        | z0 :: l ->
          (match z0 with
           | Zpos p ->
             (match p with
              | XH ->
                (match l with
                 | [] -> Some sx
                 | _ :: l0 ->
                   (match l0 with
                    | [] -> Some sx
                    | _ :: l1 ->
                      (match l1 with
                       | [] -> Some sx
                       | _ :: l2 ->
                         (match l2 with
                          | [] ->
                            Some (s, { started = true; rof = x.rof; hof =
                              x.hof })
                          | _ :: _ -> Some sx))))
              | _ -> Some sx)
           | _ -> Some sx))

(** val vals_eqb : val0 list -> val0 list -> bool **)

let rec vals_eqb l1 l2 =
  match l1 with
  | [] -> (match l2 with
           | [] -> true
           | _ :: _ -> false)
  | v :: t1 ->
    let (a, b) = v in
    (match l2 with
     | [] -> false
     | v0 :: t2 ->
       let (c, d) = v0 in
       (&&) ((&&) (Nat.eqb a c) (Nat.eqb b d)) (vals_eqb t1 t2))

(** val monitors_ok : ast -> bool **)

let monitors_ok sx =
  let s = fst sx in vals_eqb s.sent (app (map snd s.rlog) (app s.drpd s.q))

(** val m_init : ast **)

let m_init =
  a_init

(** val m_accept : ast -> z list -> ast option **)

let m_accept =
  accept_ev

(** val m_final : ast -> bool **)

let m_final =
  monitors_ok
