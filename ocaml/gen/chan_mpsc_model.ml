
(** val negb : bool -> bool **)

let negb = function
| true -> false
| false -> true

type nat =
| O
| S of nat

(** val option_map : ('a1 -> 'a2) -> 'a1 option -> 'a2 option **)

let option_map f = function
| Some a -> Some (f a)
| None -> None

(** val fst : ('a1 * 'a2) -> 'a1 **)

let fst = function
| (x, _) -> x

(** val snd : ('a1 * 'a2) -> 'a2 **)

let snd = function
| (_, y) -> y

(** val app : 'a1 list -> 'a1 list -> 'a1 list **)

let rec app l m =
  match l with
  | [] -> m
  | a :: l1 -> a :: (app l1 m)

type comparison =
| Eq
| Lt
| Gt

(** val pred : nat -> nat **)

let pred n0 = match n0 with
| O -> n0
| S u -> u

module Coq__1 = struct
 (** val add : nat -> nat -> nat **)
 let rec add n0 m =
   match n0 with
   | O -> m
   | S p -> S (add p m)
end
include Coq__1

(** val eqb : bool -> bool -> bool **)

let eqb b1 b2 =
  if b1 then b2 else if b2 then false else true

module Nat =
 struct
  (** val eqb : nat -> nat -> bool **)

  let rec eqb n0 m =
    match n0 with
    | O -> (match m with
            | O -> true
            | S _ -> false)
    | S n' -> (match m with
               | O -> false
               | S m' -> eqb n' m')

  (** val eq_dec : nat -> nat -> bool **)

  let rec eq_dec n0 m =
    match n0 with
    | O -> (match m with
            | O -> true
            | S _ -> false)
    | S n1 -> (match m with
               | O -> false
               | S n2 -> eq_dec n1 n2)
 end

(** val remove : ('a1 -> 'a1 -> bool) -> 'a1 -> 'a1 list -> 'a1 list **)

let rec remove eq_dec0 x = function
| [] -> []
| y :: tl ->
  if eq_dec0 x y then remove eq_dec0 x tl else y :: (remove eq_dec0 x tl)

(** val flat_map : ('a1 -> 'a2 list) -> 'a1 list -> 'a2 list **)

let rec flat_map f = function
| [] -> []
| x :: t -> app (f x) (flat_map f t)

(** val existsb : ('a1 -> bool) -> 'a1 list -> bool **)

let rec existsb f = function
| [] -> false
| a :: l0 -> (||) (f a) (existsb f l0)

(** val firstn : nat -> 'a1 list -> 'a1 list **)

let rec firstn n0 l =
  match n0 with
  | O -> []
  | S n1 -> (match l with
             | [] -> []
             | a :: l0 -> a :: (firstn n1 l0))

type positive =
| XI of positive
| XO of positive
| XH

type n =
| N0
| Npos of positive

type z =
| Z0
| Zpos of positive
| Zneg of positive

module Pos =
 struct
  type mask =
  | IsNul
  | IsPos of positive
  | IsNeg
 end

module Coq_Pos =
 struct
  (** val succ : positive -> positive **)

  let rec succ = function
  | XI p -> XO (succ p)
  | XO p -> XI p
  | XH -> XO XH

  (** val add : positive -> positive -> positive **)

  let rec add x y =
    match x with
    | XI p ->
      (match y with
       | XI q0 -> XO (add_carry p q0)
       | XO q0 -> XI (add p q0)
       | XH -> XO (succ p))
    | XO p ->
      (match y with
       | XI q0 -> XI (add p q0)
       | XO q0 -> XO (add p q0)
       | XH -> XI p)
    | XH -> (match y with
             | XI q0 -> XO (succ q0)
             | XO q0 -> XI q0
             | XH -> XO XH)

  (** val add_carry : positive -> positive -> positive **)

  and add_carry x y =
    match x with
    | XI p ->
      (match y with
       | XI q0 -> XI (add_carry p q0)
       | XO q0 -> XO (add_carry p q0)
       | XH -> XI (succ p))
    | XO p ->
      (match y with
       | XI q0 -> XO (add_carry p q0)
       | XO q0 -> XI (add p q0)
       | XH -> XO (succ p))
    | XH ->
      (match y with
       | XI q0 -> XI (succ q0)
       | XO q0 -> XO (succ q0)
       | XH -> XI XH)

  (** val pred_double : positive -> positive **)

  let rec pred_double = function
  | XI p -> XI (XO p)
  | XO p -> XI (pred_double p)
  | XH -> XH

  type mask = Pos.mask =
  | IsNul
  | IsPos of positive
  | IsNeg

  (** val succ_double_mask : mask -> mask **)

  let succ_double_mask = function
  | IsNul -> IsPos XH
  | IsPos p -> IsPos (XI p)
  | IsNeg -> IsNeg

  (** val double_mask : mask -> mask **)

  let double_mask = function
  | IsPos p -> IsPos (XO p)
  | x0 -> x0

  (** val double_pred_mask : positive -> mask **)

  let double_pred_mask = function
  | XI p -> IsPos (XO (XO p))
  | XO p -> IsPos (XO (pred_double p))
  | XH -> IsNul

  (** val sub_mask : positive -> positive -> mask **)

  let rec sub_mask x y =
    match x with
    | XI p ->
      (match y with
       | XI q0 -> double_mask (sub_mask p q0)
       | XO q0 -> succ_double_mask (sub_mask p q0)
       | XH -> IsPos (XO p))
    | XO p ->
      (match y with
       | XI q0 -> succ_double_mask (sub_mask_carry p q0)
       | XO q0 -> double_mask (sub_mask p q0)
       | XH -> IsPos (pred_double p))
    | XH -> (match y with
             | XH -> IsNul
             | _ -> IsNeg)

  (** val sub_mask_carry : positive -> positive -> mask **)

  and sub_mask_carry x y =
    match x with
    | XI p ->
      (match y with
       | XI q0 -> succ_double_mask (sub_mask_carry p q0)
       | XO q0 -> double_mask (sub_mask p q0)
       | XH -> IsPos (pred_double p))
    | XO p ->
      (match y with
       | XI q0 -> double_mask (sub_mask_carry p q0)
       | XO q0 -> succ_double_mask (sub_mask_carry p q0)
       | XH -> double_pred_mask p)
    | XH -> IsNeg

  (** val mul : positive -> positive -> positive **)

  let rec mul x y =
    match x with
    | XI p -> add y (XO (mul p y))
    | XO p -> XO (mul p y)
    | XH -> y

  (** val compare_cont : comparison -> positive -> positive -> comparison **)

  let rec compare_cont r0 x y =
    match x with
    | XI p ->
      (match y with
       | XI q0 -> compare_cont r0 p q0
       | XO q0 -> compare_cont Gt p q0
       | XH -> Gt)
    | XO p ->
      (match y with
       | XI q0 -> compare_cont Lt p q0
       | XO q0 -> compare_cont r0 p q0
       | XH -> Gt)
    | XH -> (match y with
             | XH -> r0
             | _ -> Lt)

  (** val compare : positive -> positive -> comparison **)

  let compare =
    compare_cont Eq

  (** val eqb : positive -> positive -> bool **)

  let rec eqb p q0 =
    match p with
    | XI p0 -> (match q0 with
                | XI q1 -> eqb p0 q1
                | _ -> false)
    | XO p0 -> (match q0 with
                | XO q1 -> eqb p0 q1
                | _ -> false)
    | XH -> (match q0 with
             | XH -> true
             | _ -> false)

  (** val iter_op : ('a1 -> 'a1 -> 'a1) -> positive -> 'a1 -> 'a1 **)

  let rec iter_op op p a =
    match p with
    | XI p0 -> op a (iter_op op p0 (op a a))
    | XO p0 -> iter_op op p0 (op a a)
    | XH -> a

  (** val to_nat : positive -> nat **)

  let to_nat x =
    iter_op Coq__1.add x (S O)

  (** val of_succ_nat : nat -> positive **)

  let rec of_succ_nat = function
  | O -> XH
  | S x -> succ (of_succ_nat x)
 end

module N =
 struct
  (** val add : n -> n -> n **)

  let add n0 m =
    match n0 with
    | N0 -> m
    | Npos p -> (match m with
                 | N0 -> n0
                 | Npos q0 -> Npos (Coq_Pos.add p q0))

  (** val sub : n -> n -> n **)

  let sub n0 m =
    match n0 with
    | N0 -> N0
    | Npos n' ->
      (match m with
       | N0 -> n0
       | Npos m' ->
         (match Coq_Pos.sub_mask n' m' with
          | Coq_Pos.IsPos p -> Npos p
          | _ -> N0))

  (** val compare : n -> n -> comparison **)

  let compare n0 m =
    match n0 with
    | N0 -> (match m with
             | N0 -> Eq
             | Npos _ -> Lt)
    | Npos n' -> (match m with
                  | N0 -> Gt
                  | Npos m' -> Coq_Pos.compare n' m')

  (** val leb : n -> n -> bool **)

  let leb x y =
    match compare x y with
    | Gt -> false
    | _ -> true

  (** val ltb : n -> n -> bool **)

  let ltb x y =
    match compare x y with
    | Lt -> true
    | _ -> false
 end

module Z =
 struct
  (** val double : z -> z **)

  let double = function
  | Z0 -> Z0
  | Zpos p -> Zpos (XO p)
  | Zneg p -> Zneg (XO p)

  (** val succ_double : z -> z **)

  let succ_double = function
  | Z0 -> Zpos XH
  | Zpos p -> Zpos (XI p)
  | Zneg p -> Zneg (Coq_Pos.pred_double p)

  (** val pred_double : z -> z **)

  let pred_double = function
  | Z0 -> Zneg XH
  | Zpos p -> Zpos (Coq_Pos.pred_double p)
  | Zneg p -> Zneg (XI p)

  (** val pos_sub : positive -> positive -> z **)

  let rec pos_sub x y =
    match x with
    | XI p ->
      (match y with
       | XI q0 -> double (pos_sub p q0)
       | XO q0 -> succ_double (pos_sub p q0)
       | XH -> Zpos (XO p))
    | XO p ->
      (match y with
       | XI q0 -> pred_double (pos_sub p q0)
       | XO q0 -> double (pos_sub p q0)
       | XH -> Zpos (Coq_Pos.pred_double p))
    | XH ->
      (match y with
       | XI q0 -> Zneg (XO q0)
       | XO q0 -> Zneg (Coq_Pos.pred_double q0)
       | XH -> Z0)

  (** val add : z -> z -> z **)

  let add x y =
    match x with
    | Z0 -> y
    | Zpos x' ->
      (match y with
       | Z0 -> x
       | Zpos y' -> Zpos (Coq_Pos.add x' y')
       | Zneg y' -> pos_sub x' y')
    | Zneg x' ->
      (match y with
       | Z0 -> x
       | Zpos y' -> pos_sub y' x'
       | Zneg y' -> Zneg (Coq_Pos.add x' y'))

  (** val mul : z -> z -> z **)

  let mul x y =
    match x with
    | Z0 -> Z0
    | Zpos x' ->
      (match y with
       | Z0 -> Z0
       | Zpos y' -> Zpos (Coq_Pos.mul x' y')
       | Zneg y' -> Zneg (Coq_Pos.mul x' y'))
    | Zneg x' ->
      (match y with
       | Z0 -> Z0
       | Zpos y' -> Zneg (Coq_Pos.mul x' y')
       | Zneg y' -> Zpos (Coq_Pos.mul x' y'))

  (** val eqb : z -> z -> bool **)

  let eqb x y =
    match x with
    | Z0 -> (match y with
             | Z0 -> true
             | _ -> false)
    | Zpos p -> (match y with
                 | Zpos q0 -> Coq_Pos.eqb p q0
                 | _ -> false)
    | Zneg p -> (match y with
                 | Zneg q0 -> Coq_Pos.eqb p q0
                 | _ -> false)

  (** val to_nat : z -> nat **)

  let to_nat = function
  | Zpos p -> Coq_Pos.to_nat p
  | _ -> O

  (** val to_N : z -> n **)

  let to_N = function
  | Zpos p -> Npos p
  | _ -> N0

  (** val of_nat : nat -> z **)

  let of_nat = function
  | O -> Z0
  | S n1 -> Zpos (Coq_Pos.of_succ_nat n1)
 end

type val0 = nat * nat

type rpc =
| RIdle
| RStore
| RPop1
| RChk
| RPop2
| RClear
| RPark
| RWait
| RDeadline
| RPd0
| RPd1

type tctx =
| CTry
| CFirst
| CReg
| CFin

type api =
| ATry
| ARecv
| ATimed
| ADrop

type res =
| RNone
| ROk of val0
| REmpty
| RDisc
| RTimeout
| RCancel

type rsn =
| RU
| RT
| RC

type spc =
| SIdle
| SChk
| SPush
| STake
| SUnpark
| SAdd
| SSub

type hst =
| Unborn
| Alive
| Dead

type rcvr = { rp : rpc; rc : tctx; rapi : api; rb : nat; rco : bool;
              rres : res; rdata : res; ralive : bool; rdead : bool }

type sndr = { sp : spc; sw : nat; sto : nat; sst : hst; sres : bool;
              sdead : bool; sn : nat }

type blk = { tok : bool; parked : bool; reason : rsn option }

type st = { q : val0 list; slot : nat option; chans : nat; pdrop : bool;
            nextb : nat; r : rcvr; sd : (nat -> sndr); bk : (nat -> blk);
            sent : val0 list; rcvd : val0 list; drpd : val0 list;
            live : nat list; freed : bool }

(** val upd : (nat -> 'a1) -> nat -> 'a1 -> nat -> 'a1 **)

let upd f i v j =
  if Nat.eqb j i then v else f j

(** val mk :
    val0 list -> nat option -> nat -> bool -> nat -> rcvr -> (nat -> sndr) ->
    (nat -> blk) -> val0 list -> val0 list -> val0 list -> nat list -> bool
    -> st **)

let mk q' sl c p n0 r0 s' b se rv dr li fr =
  { q = q'; slot = sl; chans = c; pdrop = p; nextb = n0; r = r0; sd = s';
    bk = b; sent = se; rcvd = rv; drpd = dr; live = li; freed = fr }

(** val fresh : blk **)

let fresh =
  { tok = false; parked = false; reason = None }

(** val rm : nat -> nat list -> nat list **)

let rm =
  remove Nat.eq_dec

(** val r_set : rcvr -> rpc -> tctx -> rcvr **)

let r_set x p c =
  { rp = p; rc = c; rapi = x.rapi; rb = x.rb; rco = x.rco; rres = x.rres;
    rdata = x.rdata; ralive = x.ralive; rdead = x.rdead }

(** val r_ret : rcvr -> res -> rcvr **)

let r_ret x r0 =
  { rp = RIdle; rc = x.rc; rapi = x.rapi; rb = x.rb; rco = x.rco; rres = r0;
    rdata = x.rdata; ralive = x.ralive; rdead = x.rdead }

(** val r_data : rcvr -> res -> rcvr **)

let r_data x d =
  match x.rc with
  | CReg ->
    { rp = RClear; rc = x.rc; rapi = x.rapi; rb = x.rb; rco = x.rco; rres =
      x.rres; rdata = d; ralive = x.ralive; rdead = x.rdead }
  | _ -> r_ret x d

(** val r_empty : rcvr -> rcvr **)

let r_empty x =
  match x.rc with
  | CTry -> r_ret x REmpty
  | CFirst -> r_set x RStore CFirst
  | CReg -> r_set x RPark CReg
  | CFin ->
    (match x.rapi with
     | ATimed -> r_set x RDeadline CFin
     | _ -> r_set x RStore CFin)

(** val r_start : rcvr -> api -> bool -> rpc -> tctx -> bool -> rcvr **)

let r_start x ap co p c d =
  { rp = p; rc = c; rapi = ap; rb = x.rb; rco = co; rres = RNone; rdata =
    RNone; ralive = x.ralive; rdead = d }

(** val r_reg : rcvr -> nat -> rcvr **)

let r_reg x b =
  { rp = RPop1; rc = CReg; rapi = x.rapi; rb = b; rco = x.rco; rres = x.rres;
    rdata = x.rdata; ralive = x.ralive; rdead = x.rdead }

(** val r_gone : rcvr -> rcvr **)

let r_gone x =
  { rp = RIdle; rc = x.rc; rapi = x.rapi; rb = x.rb; rco = x.rco; rres =
    RNone; rdata = x.rdata; ralive = false; rdead = false }

(** val s_pc : sndr -> spc -> sndr **)

let s_pc y p =
  { sp = p; sw = y.sw; sto = y.sto; sst = y.sst; sres = y.sres; sdead =
    y.sdead; sn = y.sn }

(** val s_call : sndr -> spc -> nat -> bool -> sndr **)

let s_call y p t d =
  { sp = p; sw = y.sw; sto = t; sst = y.sst; sres = y.sres; sdead = d; sn =
    y.sn }

(** val s_res : sndr -> spc -> bool -> sndr **)

let s_res y p r0 =
  { sp = p; sw = y.sw; sto = y.sto; sst = y.sst; sres = r0; sdead = y.sdead;
    sn = y.sn }

(** val s_pushed : sndr -> sndr **)

let s_pushed y =
  { sp = STake; sw = y.sw; sto = y.sto; sst = y.sst; sres = true; sdead =
    y.sdead; sn = (S y.sn) }

(** val s_took : sndr -> nat -> sndr **)

let s_took y b =
  { sp = SUnpark; sw = b; sto = y.sto; sst = y.sst; sres = y.sres; sdead =
    y.sdead; sn = y.sn }

(** val s_st : sndr -> spc -> hst -> sndr **)

let s_st y p h =
  { sp = p; sw = y.sw; sto = y.sto; sst = h; sres = y.sres; sdead = y.sdead;
    sn = y.sn }

(** val b_unpark : blk -> blk **)

let b_unpark k =
  { tok = true; parked = k.parked; reason =
    (if k.parked
     then (match k.reason with
           | Some r0 -> Some r0
           | None -> Some RU)
     else k.reason) }

(** val b_tok : blk -> bool -> blk **)

let b_tok k t =
  { tok = t; parked = k.parked; reason = k.reason }

(** val b_park : blk -> blk **)

let b_park k =
  { tok = k.tok; parked = true; reason = None }

(** val b_fire : blk -> rsn -> blk **)

let b_fire k r0 =
  { tok = k.tok; parked = k.parked; reason = (Some r0) }

type action =
| TryRecv
| Recv of bool
| RecvTimeout of bool
| DropPort
| RStep
| RDl of bool
| Fire of rsn
| Send of nat
| Clone of nat * nat
| DropChan of nat
| SStep of nat
| Free

(** val is_idle : rcvr -> bool **)

let is_idle x =
  match x.rp with
  | RIdle -> x.ralive
  | _ -> false

(** val s_ready : sndr -> bool **)

let s_ready y =
  match y.sp with
  | SIdle -> (match y.sst with
              | Alive -> true
              | _ -> false)
  | _ -> false

(** val is0 : nat -> bool **)

let is0 n0 =
  Nat.eqb n0 O

(** val step : st -> action -> st option **)

let step s ac =
  let x = s.r in
  (match ac with
   | TryRecv ->
     if is_idle x
     then Some
            (mk s.q s.slot s.chans s.pdrop s.nextb
              (r_start x ATry false RPop1 CTry (is0 s.chans)) s.sd s.bk
              s.sent s.rcvd s.drpd s.live s.freed)
     else None
   | Recv co ->
     if is_idle x
     then Some
            (mk s.q s.slot s.chans s.pdrop s.nextb
              (r_start x ARecv co RStore CReg (is0 s.chans)) s.sd s.bk s.sent
              s.rcvd s.drpd s.live s.freed)
     else None
   | RecvTimeout co ->
     if is_idle x
     then Some
            (mk s.q s.slot s.chans s.pdrop s.nextb
              (r_start x ATimed co RPop1 CFirst (is0 s.chans)) s.sd s.bk
              s.sent s.rcvd s.drpd s.live s.freed)
     else None
   | DropPort ->
     if is_idle x
     then Some
            (mk s.q s.slot s.chans s.pdrop s.nextb
              (r_start x ADrop false RPd0 CTry false) s.sd s.bk s.sent s.rcvd
              s.drpd s.live s.freed)
     else None
   | RStep ->
     let k = s.bk x.rb in
     (match x.rp with
      | RStore ->
        let b = s.nextb in
        Some
        (mk s.q (Some b) s.chans s.pdrop (S b) (r_reg x b) s.sd
          (upd s.bk b fresh) s.sent s.rcvd s.drpd s.live s.freed)
      | RPop1 ->
        (match s.q with
         | [] ->
           Some
             (mk s.q s.slot s.chans s.pdrop s.nextb (r_set x RChk x.rc) s.sd
               s.bk s.sent s.rcvd s.drpd s.live s.freed)
         | v :: q' ->
           Some
             (mk q' s.slot s.chans s.pdrop s.nextb (r_data x (ROk v)) s.sd
               s.bk s.sent (app s.rcvd (v :: [])) s.drpd s.live s.freed))
      | RChk ->
        if is0 s.chans
        then Some
               (mk s.q s.slot s.chans s.pdrop s.nextb (r_set x RPop2 x.rc)
                 s.sd s.bk s.sent s.rcvd s.drpd s.live s.freed)
        else Some
               (mk s.q s.slot s.chans s.pdrop s.nextb (r_empty x) s.sd s.bk
                 s.sent s.rcvd s.drpd s.live s.freed)
      | RPop2 ->
        (match s.q with
         | [] ->
           Some
             (mk s.q s.slot s.chans s.pdrop s.nextb (r_data x RDisc) s.sd
               s.bk s.sent s.rcvd s.drpd s.live s.freed)
         | v :: q' ->
           Some
             (mk q' s.slot s.chans s.pdrop s.nextb (r_data x (ROk v)) s.sd
               s.bk s.sent (app s.rcvd (v :: [])) s.drpd s.live s.freed))
      | RClear ->
        Some
          (mk s.q None s.chans s.pdrop s.nextb (r_ret x x.rdata) s.sd s.bk
            s.sent s.rcvd s.drpd s.live s.freed)
      | RPark ->
        if k.tok
        then Some
               (mk s.q s.slot s.chans s.pdrop s.nextb (r_set x RPop1 CFin)
                 s.sd (upd s.bk x.rb (b_tok k false)) s.sent s.rcvd s.drpd
                 s.live s.freed)
        else Some
               (mk s.q s.slot s.chans s.pdrop s.nextb (r_set x RWait x.rc)
                 s.sd (upd s.bk x.rb (b_park k)) s.sent s.rcvd s.drpd s.live
                 s.freed)
      | RWait ->
        (match k.reason with
         | Some r0 ->
           Some
             (mk s.q s.slot s.chans s.pdrop s.nextb
               (match r0 with
                | RC -> r_ret x RCancel
                | _ -> r_set x RPop1 CFin) s.sd (upd s.bk x.rb fresh) s.sent
               s.rcvd s.drpd s.live s.freed)
         | None -> None)
      | RPd0 ->
        Some
          (mk s.q s.slot s.chans true s.nextb (r_set x RPd1 x.rc) s.sd s.bk
            s.sent s.rcvd s.drpd s.live s.freed)
      | RPd1 ->
        (match s.q with
         | [] ->
           Some
             (mk s.q s.slot s.chans s.pdrop s.nextb (r_gone x) s.sd s.bk
               s.sent s.rcvd s.drpd s.live s.freed)
         | v :: q' ->
           Some
             (mk q' s.slot s.chans s.pdrop s.nextb x s.sd s.bk s.sent s.rcvd
               (app s.drpd (v :: [])) s.live s.freed))
      | _ -> None)
   | RDl e ->
     (match x.rp with
      | RDeadline ->
        Some
          (mk s.q s.slot s.chans s.pdrop s.nextb
            (if e then r_ret x RTimeout else r_set x RStore CFin) s.sd s.bk
            s.sent s.rcvd s.drpd s.live s.freed)
      | _ -> None)
   | Fire r0 ->
     (match x.rp with
      | RWait ->
        if match r0 with
           | RU -> false
           | RT -> (match x.rapi with
                    | ATimed -> true
                    | _ -> false)
           | RC -> x.rco
        then Some
               (mk s.q s.slot s.chans s.pdrop s.nextb x s.sd
                 (upd s.bk x.rb (b_fire (s.bk x.rb) r0)) s.sent s.rcvd s.drpd
                 s.live s.freed)
        else None
      | _ -> None)
   | Send a ->
     let y = s.sd a in
     if s_ready y
     then Some
            (mk s.q s.slot s.chans s.pdrop s.nextb x
              (upd s.sd a (s_call y SChk y.sto s.pdrop)) s.bk s.sent s.rcvd
              s.drpd s.live s.freed)
     else None
   | Clone (a, b) ->
     let y = s.sd a in
     if (&&) (s_ready y) (match (s.sd b).sst with
                          | Unborn -> true
                          | _ -> false)
     then Some
            (mk s.q s.slot s.chans s.pdrop s.nextb x
              (upd s.sd a (s_call y SAdd b false)) s.bk s.sent s.rcvd s.drpd
              s.live s.freed)
     else None
   | DropChan a ->
     let y = s.sd a in
     if s_ready y
     then Some
            (mk s.q s.slot s.chans s.pdrop s.nextb x
              (upd s.sd a (s_call y SSub y.sto false)) s.bk s.sent s.rcvd
              s.drpd s.live s.freed)
     else None
   | SStep a ->
     let y = s.sd a in
     (match y.sp with
      | SIdle -> None
      | SChk ->
        if s.pdrop
        then Some
               (mk s.q s.slot s.chans s.pdrop s.nextb x
                 (upd s.sd a (s_res y SIdle false)) s.bk s.sent s.rcvd s.drpd
                 s.live s.freed)
        else Some
               (mk s.q s.slot s.chans s.pdrop s.nextb x
                 (upd s.sd a (s_pc y SPush)) s.bk s.sent s.rcvd s.drpd s.live
                 s.freed)
      | SPush ->
        let v = (a, y.sn) in
        Some
        (mk (app s.q (v :: [])) s.slot s.chans s.pdrop s.nextb x
          (upd s.sd a (s_pushed y)) s.bk (app s.sent (v :: [])) s.rcvd s.drpd
          s.live s.freed)
      | STake ->
        (match s.slot with
         | Some b ->
           Some
             (mk s.q None s.chans s.pdrop s.nextb x (upd s.sd a (s_took y b))
               s.bk s.sent s.rcvd s.drpd s.live s.freed)
         | None ->
           Some
             (mk s.q s.slot s.chans s.pdrop s.nextb x
               (upd s.sd a (s_pc y SIdle)) s.bk s.sent s.rcvd s.drpd s.live
               s.freed))
      | SUnpark ->
        Some
          (mk s.q s.slot s.chans s.pdrop s.nextb x
            (upd s.sd a (s_pc y SIdle))
            (upd s.bk y.sw (b_unpark (s.bk y.sw))) s.sent s.rcvd s.drpd
            s.live s.freed)
      | SAdd ->
        (match (s.sd y.sto).sst with
         | Unborn ->
           Some
             (mk s.q s.slot (S s.chans) s.pdrop s.nextb x
               (upd (upd s.sd a (s_pc y SIdle)) y.sto
                 (s_st (s.sd y.sto) SIdle Alive)) s.bk s.sent s.rcvd s.drpd
               (y.sto :: s.live) s.freed)
         | _ -> None)
      | SSub ->
        (match s.chans with
         | O -> None
         | S n0 ->
           Some
             (mk s.q s.slot n0 s.pdrop s.nextb x
               (upd s.sd a (s_st y (if is0 n0 then STake else SIdle) Dead))
               s.bk s.sent s.rcvd s.drpd (rm a s.live) s.freed)))
   | Free ->
     if (&&) ((&&) ((&&) (is0 s.chans) (negb x.ralive)) (negb s.freed))
          (match x.rp with
           | RIdle -> true
           | _ -> false)
     then Some
            (mk [] s.slot s.chans s.pdrop s.nextb x s.sd s.bk s.sent s.rcvd
              (app s.drpd s.q) s.live true)
     else None)

(** val rcv0 : rcvr **)

let rcv0 =
  { rp = RIdle; rc = CTry; rapi = ATry; rb = O; rco = false; rres = RNone;
    rdata = RNone; ralive = true; rdead = false }

(** val snd0 : hst -> sndr **)

let snd0 h =
  { sp = SIdle; sw = O; sto = O; sst = h; sres = false; sdead = false; sn =
    O }

(** val init : st **)

let init =
  mk [] None (S O) false (S O) rcv0 (fun a ->
    snd0 (if Nat.eqb a O then Alive else Unborn)) (fun _ -> fresh) [] [] []
    (O :: []) false

type aux = { started : bool; ract : nat; hof : (nat -> nat); ph : nat;
             opk : (nat -> z); qt : z; qh : z; nb : nat }

(** val aux0 : aux **)

let aux0 =
  { started = false; ract = O; hof = (fun _ -> O); ph = O; opk = (fun _ ->
    Z0); qt = Z0; qh = Z0; nb = O }

type ast = st * aux

(** val set_ract : aux -> nat -> aux **)

let set_ract x a =
  { started = x.started; ract = a; hof = x.hof; ph = x.ph; opk = x.opk; qt =
    x.qt; qh = x.qh; nb = x.nb }

(** val set_hof : aux -> nat -> nat -> aux **)

let set_hof x a h =
  { started = x.started; ract = x.ract; hof = (upd x.hof a h); ph = x.ph;
    opk = x.opk; qt = x.qt; qh = x.qh; nb = x.nb }

(** val set_ph : aux -> nat -> aux **)

let set_ph x p =
  { started = x.started; ract = x.ract; hof = x.hof; ph = p; opk = x.opk;
    qt = x.qt; qh = x.qh; nb = x.nb }

(** val set_opk : aux -> (nat -> z) -> aux **)

let set_opk x m =
  { started = x.started; ract = x.ract; hof = x.hof; ph = x.ph; opk = m; qt =
    x.qt; qh = x.qh; nb = x.nb }

(** val set_qt : aux -> z -> aux **)

let set_qt x o =
  { started = x.started; ract = x.ract; hof = x.hof; ph = x.ph; opk = x.opk;
    qt = o; qh = x.qh; nb = x.nb }

(** val set_nb : aux -> nat -> aux **)

let set_nb x n0 =
  { started = x.started; ract = x.ract; hof = x.hof; ph = x.ph; opk = x.opk;
    qt = x.qt; qh = x.qh; nb = n0 }

(** val set_qh : aux -> z -> aux **)

let set_qh x o =
  { started = x.started; ract = x.ract; hof = x.hof; ph = x.ph; opk = x.opk;
    qt = x.qt; qh = o; nb = x.nb }

(** val rpc_eqb : rpc -> rpc -> bool **)

let rpc_eqb x y =
  match x with
  | RIdle -> (match y with
              | RIdle -> true
              | _ -> false)
  | RStore -> (match y with
               | RStore -> true
               | _ -> false)
  | RPop1 -> (match y with
              | RPop1 -> true
              | _ -> false)
  | RChk -> (match y with
             | RChk -> true
             | _ -> false)
  | RPop2 -> (match y with
              | RPop2 -> true
              | _ -> false)
  | RClear -> (match y with
               | RClear -> true
               | _ -> false)
  | RPark -> (match y with
              | RPark -> true
              | _ -> false)
  | RWait -> (match y with
              | RWait -> true
              | _ -> false)
  | RDeadline -> (match y with
                  | RDeadline -> true
                  | _ -> false)
  | RPd0 -> (match y with
             | RPd0 -> true
             | _ -> false)
  | RPd1 -> (match y with
             | RPd1 -> true
             | _ -> false)

(** val spc_eqb : spc -> spc -> bool **)

let spc_eqb x y =
  match x with
  | SIdle -> (match y with
              | SIdle -> true
              | _ -> false)
  | SChk -> (match y with
             | SChk -> true
             | _ -> false)
  | SPush -> (match y with
              | SPush -> true
              | _ -> false)
  | STake -> (match y with
              | STake -> true
              | _ -> false)
  | SUnpark -> (match y with
                | SUnpark -> true
                | _ -> false)
  | SAdd -> (match y with
             | SAdd -> true
             | _ -> false)
  | SSub -> (match y with
             | SSub -> true
             | _ -> false)

(** val zb : z -> bool **)

let zb v =
  negb (Z.eqb v Z0)

(** val isnone : 'a1 option -> bool **)

let isnone = function
| Some _ -> false
| None -> true

(** val isnil : 'a1 list -> bool **)

let isnil = function
| [] -> true
| _ :: _ -> false

(** val res_is : res -> z -> z -> bool **)

let res_is r0 k v =
  match r0 with
  | ROk v0 ->
    let (h, i) = v0 in
    (&&) (Z.eqb k Z0)
      (Z.eqb v
        (Z.add
          (Z.mul (Z.of_nat h) (Zpos (XO (XO (XO (XI (XO (XI (XI (XI (XI
            XH))))))))))) (Z.of_nat i)))
  | REmpty -> Z.eqb k (Zpos XH)
  | RDisc -> Z.eqb k (Zpos (XO XH))
  | RTimeout -> Z.eqb k (Zpos (XO (XO XH)))
  | _ -> false

(** val bind_obj : (nat -> z) -> nat -> z -> (nat -> z) option **)

let bind_obj m b o =
  if Z.eqb (m b) Z0
  then Some (upd m b o)
  else if Z.eqb (m b) o then Some m else None

type plan = { acts : action list; post : (st -> bool); nxt : (st -> aux) }

(** val guard : bool -> plan option -> plan option **)

let guard b p =
  if b then p else None

(** val ok : action list -> aux -> plan option **)

let ok l x =
  Some { acts = l; post = (fun _ -> true); nxt = (fun _ -> x) }

(** val skip : aux -> plan option **)

let skip x =
  ok [] x

(** val at_r : st -> rpc -> bool **)

let at_r s p =
  rpc_eqb s.r.rp p

(** val at_s : st -> nat -> spc -> bool **)

let at_s s h p =
  spc_eqb (s.sd h).sp p

(** val in_pop : st -> bool **)

let in_pop s =
  (||) ((||) (at_r s RPop1) (at_r s RPop2)) (at_r s RPd1)

(** val is_r : aux -> nat -> bool **)

let is_r x a =
  (&&) (negb (Nat.eqb a O)) (Nat.eqb x.ract a)

(** val resume : st -> action list **)

let resume s =
  match (s.bk s.r.rb).reason with
  | Some _ -> RStep :: []
  | None -> (Fire RT) :: (RStep :: [])

(** val cancelled : st -> aux -> nat -> plan option **)

let cancelled s x a =
  guard
    ((&&) ((&&) ((&&) (is_r x a) (Nat.eqb x.ph (S (S O)))) (at_r s RWait))
      s.r.rco) (Some { acts = ((Fire RC) :: (RStep :: [])); post = (fun s' ->
    (&&) (at_r s' RIdle) (match s'.r.rres with
                          | RCancel -> true
                          | _ -> false)); nxt = (fun _ ->
    set_ph (set_ract x O) O) })

(** val plan_ev : st -> aux -> z list -> plan option **)

let plan_ev s x = function
| [] -> None
| code :: l ->
  (match l with
   | [] -> None
   | za :: l0 ->
     (match l0 with
      | [] -> None
      | o :: l1 ->
        (match l1 with
         | [] -> None
         | v :: l2 ->
           (match l2 with
            | [] ->
              let a = Z.to_nat za in
              let h = pred (x.hof a) in
              let ins = negb (Nat.eqb (x.hof a) O) in
              let b = s.r.rb in
              (match code with
               | Zpos p ->
                 (match p with
                  | XI p0 ->
                    (match p0 with
                     | XI p1 ->
                       (match p1 with
                        | XI p2 ->
                          (match p2 with
                           | XI p3 ->
                             (match p3 with
                              | XH ->
                                if (&&) ((&&) ins (at_s s h SPush))
                                     ((||) (Z.eqb x.qt Z0) (Z.eqb x.qt o))
                                then guard (zb v)
                                       (ok ((SStep h) :: []) (set_qt x o))
                                else guard (negb (Z.eqb x.qt o)) (skip x)
                              | _ -> None)
                           | XO p3 ->
                             (match p3 with
                              | XH ->
                                guard ((&&) (is_r x a) (at_r s RClear))
                                  (ok (RStep :: []) x)
                              | _ -> None)
                           | XH ->
                             guard
                               ((&&) ((&&) (is_r x a) (at_r s RIdle))
                                 (negb s.r.ralive)) (skip (set_ract x O)))
                        | XO p2 ->
                          (match p2 with
                           | XI p3 ->
                             (match p3 with
                              | XI _ -> None
                              | XO p4 ->
                                (match p4 with
                                 | XH ->
                                   if (&&) ins (at_s s h SUnpark)
                                   then (match bind_obj x.opk (s.sd h).sw o with
                                         | Some m ->
                                           ok ((SStep h) :: []) (set_opk x m)
                                         | None -> None)
                                   else guard (negb ins) (skip x)
                                 | _ -> None)
                              | XH ->
                                guard
                                  ((&&) ((&&) ins (at_s s h STake))
                                    (eqb (negb (isnone s.slot)) (zb v)))
                                  (ok ((SStep h) :: []) x))
                           | XO p3 -> (match p3 with
                                       | XH -> skip x
                                       | _ -> None)
                           | XH ->
                             if Z.eqb o (Zpos (XI (XO XH)))
                             then cancelled s x a
                             else guard
                                    ((&&)
                                      ((&&)
                                        ((&&) (is_r x a) (Nat.eqb x.ph O))
                                        (at_r s RIdle)) (res_is s.r.rres o v))
                                    (skip (set_ract x O)))
                        | XH ->
                          guard
                            ((&&) ((&&) ins (Nat.eqb h (Z.to_nat o)))
                              (at_s s h SIdle)) (skip (set_hof x a O)))
                     | XO p1 ->
                       (match p1 with
                        | XI p2 ->
                          (match p2 with
                           | XI p3 ->
                             (match p3 with
                              | XH -> guard (Z.eqb v Z0) (ok (Free :: []) x)
                              | _ -> None)
                           | XO p3 ->
                             (match p3 with
                              | XH ->
                                guard
                                  ((&&) ((&&) ins (at_s s h STake))
                                    (eqb (negb (isnone s.slot)) (zb v)))
                                  (ok ((SStep h) :: []) x)
                              | _ -> None)
                           | XH ->
                             if Z.eqb o (Zpos (XI (XO XH)))
                             then cancelled s x a
                             else guard ((&&) (is_r x a) (Nat.eqb x.ph O))
                                    (if at_r s RDeadline
                                     then guard (Z.eqb o (Zpos (XO (XO XH))))
                                            (Some { acts = ((RDl
                                            true) :: []); post = (fun _ ->
                                            true); nxt = (fun _ ->
                                            set_ract x O) })
                                     else guard
                                            ((&&) (at_r s RIdle)
                                              (res_is s.r.rres o v))
                                            (skip (set_ract x O))))
                        | XO p2 ->
                          (match p2 with
                           | XI p3 ->
                             (match p3 with
                              | XI _ -> None
                              | XO p4 ->
                                (match p4 with
                                 | XH ->
                                   if is_r x a
                                   then guard
                                          ((&&) (negb (zb v))
                                            (Z.eqb (x.opk b) o))
                                          (if Nat.eqb x.ph (S (S (S O)))
                                           then skip (set_ph x O)
                                           else guard
                                                  ((&&)
                                                    (Nat.eqb x.ph (S (S (S (S
                                                      (S (S O)))))))
                                                    (at_r s RWait))
                                                  (ok (resume s) (set_ph x O)))
                                   else skip x
                                 | _ -> None)
                              | XH ->
                                guard
                                  ((&&) ((&&) ins (at_s s h SAdd))
                                    (Z.eqb (Z.of_nat s.chans) v))
                                  (ok ((SStep h) :: []) x))
                           | XO p3 ->
                             (match p3 with
                              | XI _ -> None
                              | XO p4 ->
                                (match p4 with
                                 | XH ->
                                   if s.freed
                                   then skip x
                                   else if (&&)
                                             ((&&)
                                               ((&&) (is_r x a) (in_pop s))
                                               (Nat.eqb x.ph O))
                                             ((||) (Z.eqb x.qt Z0)
                                               (Z.eqb x.qt o))
                                        then guard (isnil s.q)
                                               (ok (RStep :: []) (set_qt x o))
                                        else guard (negb (Z.eqb x.qt o))
                                               (skip x)
                                 | _ -> None)
                              | XH ->
                                if (&&) (is_r x a)
                                     ((||)
                                       (Nat.eqb x.ph (S (S (S (S (S (S (S (S
                                         O))))))))) (Nat.eqb x.ph (S O)))
                                then guard (Z.eqb (x.opk b) o)
                                       (if Nat.eqb x.ph (S (S (S (S (S (S (S
                                             (S O))))))))
                                        then guard (zb v) (skip (set_ph x O))
                                        else guard (at_r s RWait)
                                               (if zb v
                                                then guard
                                                       (negb
                                                         (isnone
                                                           (s.bk b).reason))
                                                       (ok (RStep :: [])
                                                         (set_ph x O))
                                                else ok ((Fire
                                                       RT) :: (RStep :: []))
                                                       (set_ph x O)))
                                else guard
                                       ((&&) (negb (is_r x a)) (negb ins))
                                       (skip x))
                           | XH ->
                             guard
                               ((&&)
                                 ((&&) ((&&) (is_r x a) (Nat.eqb x.ph O))
                                   (at_r s RIdle)) (res_is s.r.rres o v))
                               (skip (set_ract x O)))
                        | XH ->
                          guard
                            ((&&) ((&&) ins (Nat.eqb h (Z.to_nat o)))
                              (at_s s h SIdle)) (skip (set_hof x a O)))
                     | XH ->
                       guard
                         ((&&)
                           ((&&) ((&&) ins (Nat.eqb h (Z.to_nat o)))
                             (at_s s h SIdle)) (eqb (s.sd h).sres (zb v)))
                         (skip (set_hof x a O)))
                  | XO p0 ->
                    (match p0 with
                     | XI p1 ->
                       (match p1 with
                        | XI p2 ->
                          (match p2 with
                           | XI p3 ->
                             (match p3 with
                              | XH ->
                                guard
                                  ((&&) ((&&) s.freed (Z.eqb v Z0))
                                    (isnone s.slot)) (skip x)
                              | _ -> None)
                           | XO p3 ->
                             (match p3 with
                              | XH ->
                                guard ((&&) (is_r x a) (Nat.eqb x.ph O))
                                  (if Nat.eqb x.nb (S (S O))
                                   then guard (at_r s RPop1)
                                          (skip (set_nb x O))
                                   else if at_r s RDeadline
                                        then ok ((RDl
                                               false) :: (RStep :: []))
                                               (set_nb x O)
                                        else guard (at_r s RStore)
                                               (ok (RStep :: []) (set_nb x O)))
                              | _ -> None)
                           | XH ->
                             guard
                               ((&&) ((&&) (negb ins) (Nat.eqb x.ract O))
                                 (Nat.eqb x.ph O))
                               (ok (DropPort :: []) (set_ract x a)))
                        | XO p2 ->
                          (match p2 with
                           | XI p3 ->
                             (match p3 with
                              | XI _ -> None
                              | XO p4 ->
                                (match p4 with
                                 | XH ->
                                   if is_r x a
                                   then guard
                                          ((&&) (Z.eqb (x.opk b) o)
                                            (eqb (s.bk b).tok (zb v)))
                                          (if Nat.eqb x.ph (S (S (S (S (S
                                                O)))))
                                           then guard (at_r s RPark) (Some
                                                  { acts = (RStep :: []);
                                                  post = (fun s' ->
                                                  if zb v
                                                  then at_r s' RPop1
                                                  else at_r s' RWait); nxt =
                                                  (fun _ ->
                                                  set_ph x
                                                    (if zb v
                                                     then O
                                                     else S (S O))) })
                                           else guard
                                                  ((&&)
                                                    (Nat.eqb x.ph (S (S (S (S
                                                      (S (S (S O))))))))
                                                    (at_r s RWait))
                                                  (ok (resume s) (set_ph x O)))
                                   else skip x
                                 | _ -> None)
                              | XH ->
                                guard
                                  ((&&) ((&&) ins (at_s s h SSub))
                                    (Z.eqb (Z.of_nat s.chans) v))
                                  (ok ((SStep h) :: []) x))
                           | XO p3 ->
                             (match p3 with
                              | XH ->
                                if (&&) ins (at_s s h SUnpark)
                                then (match bind_obj x.opk (s.sd h).sw o with
                                      | Some m ->
                                        ok ((SStep h) :: []) (set_opk x m)
                                      | None -> None)
                                else guard
                                       ((&&) (negb ins) (negb (is_r x a)))
                                       (skip x)
                              | _ -> None)
                           | XH ->
                             guard
                               ((&&) ((&&) (negb ins) (Nat.eqb x.ract O))
                                 (Nat.eqb x.ph O))
                               (ok ((Recv (zb o)) :: []) (set_ract x a)))
                        | XH ->
                          let hh = Z.to_nat o in
                          guard ((&&) (negb ins) (negb (is_r x a)))
                            (ok ((DropChan hh) :: []) (set_hof x a (S hh))))
                     | XO p1 ->
                       (match p1 with
                        | XI p2 ->
                          (match p2 with
                           | XI p3 ->
                             (match p3 with
                              | XI _ -> None
                              | XO p4 ->
                                (match p4 with
                                 | XH ->
                                   if (&&) ((&&) (is_r x a) (Nat.eqb x.ph O))
                                        ((||) (at_r s RStore)
                                          (at_r s RDeadline))
                                   then if at_r s RDeadline
                                        then ok ((RDl false) :: [])
                                               (set_nb x (S O))
                                        else skip (set_nb x (S O))
                                   else skip x
                                 | _ -> None)
                              | XH ->
                                guard ((&&) (is_r x a) (at_r s RPd0))
                                  (ok (RStep :: []) x))
                           | XO p3 ->
                             (match p3 with
                              | XH ->
                                guard
                                  ((&&) ((&&) ins (at_s s h SChk))
                                    (eqb s.pdrop (zb v)))
                                  (ok ((SStep h) :: []) x)
                              | _ -> None)
                           | XH ->
                             guard
                               ((&&) ((&&) (negb ins) (Nat.eqb x.ract O))
                                 (Nat.eqb x.ph O))
                               (ok ((RecvTimeout (zb o)) :: [])
                                 (set_ract x a)))
                        | XO p2 ->
                          (match p2 with
                           | XI p3 ->
                             (match p3 with
                              | XI _ -> None
                              | XO p4 ->
                                (match p4 with
                                 | XH ->
                                   if (&&) (is_r x a)
                                        ((||) (at_r s RPark) (at_r s RWait))
                                   then (match bind_obj x.opk b o with
                                         | Some m ->
                                           guard (eqb (s.bk b).tok (zb v))
                                             (if Nat.eqb x.ph O
                                              then guard (at_r s RPark)
                                                     (if zb v
                                                      then Some { acts =
                                                             (RStep :: []);
                                                             post =
                                                             (fun s' ->
                                                             at_r s' RPop1);
                                                             nxt = (fun _ ->
                                                             set_ph
                                                               (set_opk x m)
                                                               (S (S (S O)))) }
                                                      else skip
                                                             (set_ph
                                                               (set_opk x m)
                                                               (S (S (S (S (S
                                                               O)))))))
                                              else guard
                                                     ((&&)
                                                       (Nat.eqb x.ph (S (S
                                                         O))) (at_r s RWait))
                                                     (skip
                                                       (set_ph x
                                                         (if zb v
                                                          then S (S (S (S (S
                                                                 (S O)))))
                                                          else S (S (S (S (S
                                                                 (S (S O))))))))))
                                         | None -> None)
                                   else guard (negb (is_r x a)) (skip x)
                                 | _ -> None)
                              | XH ->
                                guard
                                  ((&&)
                                    ((&&) ((&&) (is_r x a) (at_r s RChk))
                                      (Nat.eqb x.ph O))
                                    (Z.eqb (Z.of_nat s.chans) v))
                                  (ok (RStep :: []) x))
                           | XO p3 ->
                             (match p3 with
                              | XI _ -> None
                              | XO p4 ->
                                (match p4 with
                                 | XH ->
                                   if s.freed
                                   then skip x
                                   else if (&&)
                                             ((&&)
                                               ((&&) (is_r x a) (in_pop s))
                                               (Nat.eqb x.ph O))
                                             ((||) (Z.eqb x.qh Z0)
                                               (Z.eqb x.qh o))
                                        then guard (negb (isnil s.q))
                                               (ok (RStep :: []) (set_qh x o))
                                        else guard (negb (Z.eqb x.qh o))
                                               (skip x)
                                 | _ -> None)
                              | XH ->
                                if (&&) ((&&) (is_r x a) (at_r s RPark))
                                     (Nat.eqb x.ph O)
                                then (match bind_obj x.opk b o with
                                      | Some m ->
                                        Some { acts = (RStep :: []); post =
                                          (fun _ -> true); nxt = (fun s' ->
                                          set_ph (set_opk x m)
                                            (if at_r s' RWait
                                             then S O
                                             else S (S (S (S (S (S (S (S
                                                    O))))))))) }
                                      | None -> None)
                                else guard
                                       ((&&) (negb (is_r x a)) (negb ins))
                                       (skip x))
                           | XH ->
                             guard
                               ((&&) ((&&) (negb ins) (Nat.eqb x.ract O))
                                 (Nat.eqb x.ph O))
                               (ok (TryRecv :: []) (set_ract x a)))
                        | XH ->
                          let hh = Z.to_nat o in
                          guard ((&&) (negb ins) (negb (is_r x a)))
                            (ok ((Clone (hh, (Z.to_nat v))) :: [])
                              (set_hof x a (S hh))))
                     | XH ->
                       let hh = Z.to_nat o in
                       guard
                         ((&&) ((&&) (negb ins) (negb (is_r x a)))
                           (Nat.eqb (s.sd hh).sn (Z.to_nat v)))
                         (ok ((Send hh) :: []) (set_hof x a (S hh))))
                  | XH -> None)
               | _ -> None)
            | _ :: _ -> None))))

(** val vals_eqb : val0 list -> val0 list -> bool **)

let rec vals_eqb l1 l2 =
  match l1 with
  | [] -> (match l2 with
           | [] -> true
           | _ :: _ -> false)
  | v :: t1 ->
    let (a, b) = v in
    (match l2 with
     | [] -> false
     | v0 :: t2 ->
       let (c, d) = v0 in
       (&&) ((&&) (Nat.eqb a c) (Nat.eqb b d)) (vals_eqb t1 t2))

(** val monitors_ok : ast -> bool **)

let monitors_ok sx =
  let s = fst sx in vals_eqb s.sent (app s.rcvd (app s.drpd s.q))

type tst = { base : st; now : n; dur : n; t0 : n; dl : n; rem : n; pdl : n }

type tact =
| Tick of n
| TRecvTimeout of bool * n
| A of action

(** val with_base : tst -> st -> tst **)

let with_base ts s =
  { base = s; now = ts.now; dur = ts.dur; t0 = ts.t0; dl = ts.dl; rem =
    ts.rem; pdl = ts.pdl }

(** val is_first : rcvr -> bool **)

let is_first x =
  match x.rp with
  | RStore ->
    (match x.rc with
     | CFirst -> (match x.rapi with
                  | ATimed -> true
                  | _ -> false)
     | _ -> false)
  | _ -> false

(** val at_park : rcvr -> bool **)

let at_park x =
  match x.rp with
  | RPark -> true
  | _ -> false

(** val at_wait : rcvr -> bool **)

let at_wait x =
  match x.rp with
  | RWait -> true
  | _ -> false

(** val tstep : tst -> tact -> tst option **)

let tstep ts ta =
  let s = ts.base in
  (match ta with
   | Tick d ->
     Some { base = s; now = (N.add ts.now d); dur = ts.dur; t0 = ts.t0; dl =
       ts.dl; rem = ts.rem; pdl = ts.pdl }
   | TRecvTimeout (co, d) ->
     (match step s (RecvTimeout co) with
      | Some s' ->
        Some { base = s'; now = ts.now; dur = d; t0 = ts.now; dl = N0; rem =
          d; pdl = N0 }
      | None -> None)
   | A a ->
     (match a with
      | RecvTimeout _ -> None
      | RStep ->
        (match step s RStep with
         | Some s' ->
           Some { base = s'; now = ts.now; dur = ts.dur; t0 = ts.t0; dl =
             (if is_first s.r then N.add ts.now ts.dur else ts.dl); rem =
             ts.rem; pdl =
             (if (&&) (at_park s.r) (at_wait s'.r)
              then N.add ts.now ts.rem
              else ts.pdl) }
         | None -> None)
      | RDl e ->
        if eqb e (N.leb ts.dl ts.now)
        then (match step s (RDl e) with
              | Some s' ->
                Some { base = s'; now = ts.now; dur = ts.dur; t0 = ts.t0;
                  dl = ts.dl; rem =
                  (if e then ts.rem else N.sub ts.dl ts.now); pdl = ts.pdl }
              | None -> None)
        else None
      | Fire r0 ->
        (match r0 with
         | RT ->
           if N.leb ts.pdl ts.now
           then option_map (with_base ts) (step s (Fire RT))
           else None
         | _ -> option_map (with_base ts) (step s a))
      | _ -> option_map (with_base ts) (step s a)))

(** val tinit : tst **)

let tinit =
  { base = init; now = N0; dur = N0; t0 = N0; dl = N0; rem = N0; pdl = N0 }

type tast = tst * aux

(** val ta_init : tast **)

let ta_init =
  (tinit, aux0)

(** val tick_to : tst -> n -> tst option **)

let tick_to ts t =
  if N.leb ts.now t then tstep ts (Tick (N.sub t ts.now)) else None

(** val tsteps : tst -> action list -> n -> tst option **)

let rec tsteps ts l d =
  match l with
  | [] -> Some ts
  | a :: l' ->
    let ts1 =
      match a with
      | Fire r0 ->
        (match r0 with
         | RT -> if N.ltb ts.now ts.pdl then tick_to ts ts.pdl else Some ts
         | _ -> Some ts)
      | _ -> Some ts
    in
    let ta = match a with
             | RecvTimeout co -> TRecvTimeout (co, d)
             | _ -> A a in
    (match ts1 with
     | Some ts2 ->
       (match tstep ts2 ta with
        | Some ts' -> tsteps ts' l' d
        | None -> None)
     | None -> None)

(** val taccept_ev : tast -> z list -> tast option **)

let taccept_ev sx e =
  let (ts, x) = sx in
  if x.started
  then (match e with
        | [] -> None
        | c :: l ->
          (match l with
           | [] -> None
           | _ :: l0 ->
             (match l0 with
              | [] -> None
              | o :: l1 ->
                (match l1 with
                 | [] -> None
                 | v :: l2 ->
                   (match l2 with
                    | [] ->
                      if Z.eqb c (Zpos (XI (XI (XO (XO XH)))))
                      then (match tick_to ts (Z.to_N o) with
                            | Some ts' -> Some (ts', x)
                            | None -> None)
                      else (match plan_ev ts.base x e with
                            | Some p ->
                              (match tsteps ts p.acts (Z.to_N v) with
                               | Some ts' ->
                                 if p.post ts'.base
                                 then Some (ts', (p.nxt ts'.base))
                                 else None
                               | None -> None)
                            | None -> None)
                    | _ :: _ -> None)))))
  else (match e with
        | [] -> Some sx
        | z0 :: l ->
          (match z0 with
           | Zpos p ->
             (match p with
              | XH ->
                (match l with
                 | [] -> Some sx
                 | _ :: l0 ->
                   (match l0 with
                    | [] -> Some sx
                    | _ :: l1 ->
                      (match l1 with
                       | [] -> Some sx
                       | _ :: l2 ->
                         (match l2 with
                          | [] ->
                            Some (ts, { started = true; ract = x.ract; hof =
                              x.hof; ph = x.ph; opk = x.opk; qt = x.qt; qh =
                              x.qh; nb = x.nb })
                          | _ :: _ -> Some sx))))
              | _ -> Some sx)
           | _ -> Some sx))

(** val tbranch : tast -> z list -> tast list **)

let tbranch sx e =
  let (ts, x) = sx in
  (match e with
   | [] -> sx :: []
   | code :: l ->
     (match l with
      | [] -> sx :: []
      | _ :: l0 ->
        (match l0 with
         | [] -> sx :: []
         | _ :: l1 ->
           (match l1 with
            | [] -> sx :: []
            | v :: l2 ->
              (match l2 with
               | [] ->
                 if (&&)
                      ((&&)
                        ((&&)
                          ((||) (Z.eqb code (Zpos (XI (XO (XI (XO XH))))))
                            (Z.eqb code (Zpos (XI (XI (XO (XI XH)))))))
                          (zb v)) (Nat.eqb x.nb (S O))) (at_r ts.base RStore)
                 then (match tstep ts (A RStep) with
                       | Some ts' -> sx :: ((ts', (set_nb x (S (S O)))) :: [])
                       | None -> sx :: [])
                 else sx :: []
               | _ :: _ -> sx :: [])))))

(** val taccept1 : z list -> tast -> tast list **)

let taccept1 e sx =
  match taccept_ev sx e with
  | Some sx' -> sx' :: []
  | None -> []

(** val taccept_evm : tast list -> z list -> tast list option **)

let taccept_evm l e =
  match firstn (S (S (S (S (S (S (S (S O))))))))
          (flat_map (taccept1 e) (flat_map (fun sx -> tbranch sx e) l)) with
  | [] -> None
  | t :: l0 -> Some (t :: l0)

(** val tm_initm : tast list **)

let tm_initm =
  ta_init :: []

(** val tmonitors_ok : tast -> bool **)

let tmonitors_ok sx =
  monitors_ok ((fst sx).base, (snd sx))

(** val tmonitors_okm : tast list -> bool **)

let tmonitors_okm l =
  existsb tmonitors_ok l

(** val m_init : tast list **)

let m_init =
  tm_initm

(** val m_accept : tast list -> z list -> tast list option **)

let m_accept =
  taccept_evm

(** val m_final : tast list -> bool **)

let m_final =
  tmonitors_okm
