
val negb : bool -> bool

type nat =
| O
| S of nat

val fst : ('a1 * 'a2) -> 'a1

val length : 'a1 list -> nat

val app : 'a1 list -> 'a1 list -> 'a1 list

type comparison =
| Eq
| Lt
| Gt

val compOpp : comparison -> comparison

val pred : nat -> nat

val add : nat -> nat -> nat

val eqb : bool -> bool -> bool

module Nat :
 sig
  val eqb : nat -> nat -> bool

  val leb : nat -> nat -> bool

  val ltb : nat -> nat -> bool

  val eq_dec : nat -> nat -> bool
 end

val remove : ('a1 -> 'a1 -> bool) -> 'a1 -> 'a1 list -> 'a1 list

val existsb : ('a1 -> bool) -> 'a1 list -> bool

type positive =
| XI of positive
| XO of positive
| XH

type n =
| N0
| Npos of positive

type z =
| Z0
| Zpos of positive
| Zneg of positive

module Pos :
 sig
  val succ : positive -> positive

  val add : positive -> positive -> positive

  val add_carry : positive -> positive -> positive

  val pred_double : positive -> positive

  val pred_N : positive -> n

  val mul : positive -> positive -> positive

  val iter : ('a1 -> 'a1) -> 'a1 -> positive -> 'a1

  val div2 : positive -> positive

  val div2_up : positive -> positive

  val compare_cont : comparison -> positive -> positive -> comparison

  val compare : positive -> positive -> comparison

  val eqb : positive -> positive -> bool

  val testbit : positive -> n -> bool

  val iter_op : ('a1 -> 'a1 -> 'a1) -> positive -> 'a1 -> 'a1

  val to_nat : positive -> nat

  val of_succ_nat : nat -> positive
 end

module N :
 sig
  val testbit : n -> n -> bool
 end

module Z :
 sig
  val double : z -> z

  val succ_double : z -> z

  val pred_double : z -> z

  val pos_sub : positive -> positive -> z

  val add : z -> z -> z

  val opp : z -> z

  val sub : z -> z -> z

  val mul : z -> z -> z

  val compare : z -> z -> comparison

  val leb : z -> z -> bool

  val ltb : z -> z -> bool

  val eqb : z -> z -> bool

  val to_nat : z -> nat

  val of_nat : nat -> z

  val odd : z -> bool

  val div2 : z -> z

  val testbit : z -> z -> bool

  val shiftl : z -> z -> z

  val shiftr : z -> z -> z
 end

type pc =
| Idle
| V0
| D0
| W1
| W2
| N1
| WP
| WW
| D2
| L
| R1
| E1
| E2
| E3
| E4
| K1
| K2
| K3
| K4
| N3
| R2
| P1
| C1
| Dead
| A1
| A2
| A3

type ctx =
| RUser
| RErr

type act = { apc : pc; ab : nat; aw : nat; actx : ctx; aco : bool;
             adur : z option; adl : z option; acomp : bool; rtok : bool;
             rtmo : bool; rcan : bool; aerr : bool; ares : nat; ccan : 
             bool; cdis : nat; cdis0 : nat }

type blk = { tok : bool; unp : bool; rel : bool; owner : nat; bset : 
             nat; bagent : nat; tokd : bool }

type st = { mx : nat option; pois : bool; bound : bool; q : nat list;
            nextb : nat; now : z; a : (nat -> act); bk : (nat -> blk);
            giv : nat list; hand : nat list; held : nat list; owe : nat list;
            flg : nat list; nuser : z; nall : z; nret : z; fnone : z }

val upd : (nat -> 'a1) -> nat -> 'a1 -> nat -> 'a1

val rm : nat -> nat list -> nat list

val fresh : nat -> blk

val sA : st -> (nat -> act) -> st

val sB : st -> (nat -> blk) -> st

val smx : st -> nat option -> bool -> st

val sbound : st -> bool -> st

val sq : st -> nat list -> nat -> st

val snow : st -> z -> st

val sG : st -> nat list -> nat list -> nat list -> nat list -> nat list -> st

val sN : st -> z -> z -> z -> z -> st

val set_pc : act -> pc -> act

val set_call : act -> pc -> bool -> z option -> act

val set_ctx : act -> pc -> ctx -> bool -> act

val set_ab : act -> pc -> nat -> act

val set_aw : act -> pc -> nat -> act

val set_dl : act -> pc -> z option -> act

val set_rsn : act -> pc -> bool -> bool -> bool -> act

val set_err : act -> pc -> bool -> act

val set_res : act -> pc -> nat -> act

val set_dis : act -> pc -> nat -> act

val set_can : act -> act

val b_tok : blk -> bool -> bool -> blk

val b_flag : blk -> nat -> blk

val b_rel : blk -> bool -> blk

val b_settle : blk -> blk

val after_unlock : act -> pc

val after_park : act -> pc

val leave_err : act -> pc

val ret_pc : act -> pc

val due : z option -> z -> bool

type action =
| Lock of nat
| Unlock of nat * bool
| Wait of nat * bool * z option
| NotifyOne of nat
| NotifyAll of nat
| Step of nat
| Resume of nat
| Choose of nat * bool
| Cancel of nat
| Tick of z

val forward : st -> nat -> act -> nat -> st

val step : st -> action -> st option

val act0 : act

val init : st

type aux = { started : bool; kind : (nat -> nat); byk : (nat -> nat);
             ph : (nat -> nat); verd : (nat -> bool);
             pend : (nat -> z option option); kdis : (nat -> nat);
             tail : (nat -> bool); pzn : (nat -> bool); gone : (nat -> bool);
             prec : (nat -> bool); ou : (nat -> z); orl : (nat -> z);
             opk : (nat -> z) }

type ast = st * aux

val aux0 : aux

val pc_eqb : pc -> pc -> bool

val zb : z -> bool

val set_started : aux -> aux

val set_kind : aux -> nat -> nat -> nat -> aux

val set_ph : aux -> nat -> nat -> aux

val set_verd : aux -> nat -> nat -> bool -> aux

val set_pend : aux -> nat -> z option option -> aux

val set_kdis : aux -> nat -> nat -> aux

val set_tail : aux -> nat -> bool -> aux

val set_pzn : aux -> nat -> bool -> aux

val set_gone : aux -> nat -> aux

val set_prec : aux -> nat -> aux

val set_ou : aux -> (nat -> z) -> aux

val set_orl : aux -> (nat -> z) -> aux

val set_opk : aux -> (nat -> z) -> aux

val bind_obj : (nat -> z) -> nat -> z -> (nat -> z) option

type plan = { acts : action list; post : (st -> bool); nxt : (st -> aux) }

val guard : bool -> plan option -> plan option

val pcof : st -> nat -> pc

val at_pc : st -> nat -> pc -> bool

val phis : aux -> nat -> nat -> bool

val holds : st -> nat -> bool

val ok : aux -> plan option

val go : action list -> aux -> plan option

val outside : st -> aux -> nat -> bool

val in_tail : st -> aux -> nat -> bool

val tick_to : st -> nat -> action list

val plan_ev : st -> aux -> z list -> plan option

val monitors_ok : ast -> bool

type bpcT =
| BIdle
| BIn
| BLoop
| BWait
| BNotify
| BExit
| BExitL
| BGone

type bst = { cs : st; cnt : nat; gen : nat; bpc : (nat -> bpcT);
             lgen : (nat -> nat); bco : (nat -> bool); arr : (nat -> nat);
             ldr : (nat -> nat); ret : (nat -> nat); lret : (nat -> nat);
             inl : nat list; viol : bool }

type baction =
| BArrive of nat * bool
| BStep of nat
| BInner of nat * action
| BEnv of action

val bupd : (nat -> 'a1) -> nat -> 'a1 -> nat -> 'a1

val holds0 : st -> nat -> bool

val inner_ok : nat -> action -> bool

val env_ok : action -> bool

val pc_idle : pc -> bool

val pc_dead : pc -> bool

val set_cs : bst -> st -> bst

val set_bpc : bst -> nat -> bpcT -> bst

val bstep : nat -> bst -> baction -> bst option

val binit : bst

type wpcT =
| WIdle
| WC1
| WC2
| WD0
| WD1
| WDN
| WD2
| WW1
| WW2
| WL0
| WL
| WLw
| WLx
| WRet
| WGone

type wcont =
| KDrop
| KFast
| KSlow

type wst = { wcs : st; wcnt : nat; wpc : (nat -> wpcT); wk : (nat -> wcont);
             wco : (nat -> bool); hl : nat list; wviol : bool; early : 
             bool }

type waction =
| WClone of nat
| WDrop of nat
| WWait of nat * bool
| WGive of nat * nat
| WStep of nat
| WInner of nat * action
| WEnv of action

val remove_one : nat -> nat list -> nat list

val has : nat -> nat list -> bool

val w_cs : wst -> st -> wst

val w_pc : wst -> nat -> wpcT -> wst

val w_call : wst -> st -> nat -> wpcT -> wcont -> bool -> wst

val w_data : wst -> st -> nat -> wpcT -> nat -> nat list -> bool -> wst

val wstep : wst -> waction -> wst option

val winit : wst

type cmode =
| MNone
| MBar of nat * bst
| MWg of wst

type caux = { cidx : (nat -> nat); cop : (nat -> nat); cg : (nat -> nat);
              cl : (nat -> bool) }

val caux0 : caux

type pst = cmode * (aux * caux)

val p_init : pst

val set_cidx : caux -> nat -> nat -> caux

val set_cop : caux -> nat -> nat -> nat -> caux

val set_ret : caux -> nat -> bool -> caux

val bpc_eqb : bpcT -> bpcT -> bool

val wpc_eqb : wpcT -> wpcT -> bool

val bthen : bst option -> nat -> bpcT -> (bst -> bst option) -> bst option

val bl1 : nat -> (nat -> bool) -> (nat -> bool) -> bst -> action -> bst option

val bls :
  nat -> (nat -> bool) -> (nat -> bool) -> bst -> action list -> bst option

val wthen :
  wst option -> nat -> (wpcT -> bool) -> (wst -> wst option) -> wst option

val after_data : wpcT -> bool

val after_unlock0 : wpcT -> bool

val wl1 : (nat -> bool) -> (nat -> nat) -> wst -> action -> wst option

val wls : (nat -> bool) -> (nat -> nat) -> wst -> action list -> wst option

val is_co : aux -> nat -> bool

val isnil : 'a1 list -> bool

val placeholder : nat -> nat

val paccept_ev : pst -> z list -> pst option

val pmon_cs : cmode -> st

val pmonitors_ok : pst -> bool

val m_init : pst

val m_accept : pst -> z list -> pst option

val m_final : pst -> bool
