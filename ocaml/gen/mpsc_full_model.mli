
val negb : bool -> bool

type nat =
| O
| S of nat

val option_map : ('a1 -> 'a2) -> 'a1 option -> 'a2 option

val fst : ('a1 * 'a2) -> 'a1

val snd : ('a1 * 'a2) -> 'a2

val length : 'a1 list -> nat

val app : 'a1 list -> 'a1 list -> 'a1 list

type comparison =
| Eq
| Lt
| Gt

val compOpp : comparison -> comparison

val add : nat -> nat -> nat

val mul : nat -> nat -> nat

val sub : nat -> nat -> nat

val eqb : bool -> bool -> bool

module Nat :
 sig
  val sub : nat -> nat -> nat

  val eqb : nat -> nat -> bool

  val leb : nat -> nat -> bool

  val ltb : nat -> nat -> bool

  val min : nat -> nat -> nat

  val divmod : nat -> nat -> nat -> nat -> nat * nat

  val div : nat -> nat -> nat

  val modulo : nat -> nat -> nat
 end

val nth : nat -> 'a1 list -> 'a1 -> 'a1

val existsb : ('a1 -> bool) -> 'a1 list -> bool

val firstn : nat -> 'a1 list -> 'a1 list

val skipn : nat -> 'a1 list -> 'a1 list

type positive =
| XI of positive
| XO of positive
| XH

type n =
| N0
| Npos of positive

type z =
| Z0
| Zpos of positive
| Zneg of positive

module Pos :
 sig
  val succ : positive -> positive

  val add : positive -> positive -> positive

  val add_carry : positive -> positive -> positive

  val pred_double : positive -> positive

  val pred_N : positive -> n

  val mul : positive -> positive -> positive

  val iter : ('a1 -> 'a1) -> 'a1 -> positive -> 'a1

  val compare_cont : comparison -> positive -> positive -> comparison

  val compare : positive -> positive -> comparison

  val eqb : positive -> positive -> bool

  val testbit : positive -> n -> bool

  val iter_op : ('a1 -> 'a1 -> 'a1) -> positive -> 'a1 -> 'a1

  val to_nat : positive -> nat

  val of_succ_nat : nat -> positive
 end

module N :
 sig
  val testbit : n -> n -> bool
 end

module Z :
 sig
  val double : z -> z

  val succ_double : z -> z

  val pred_double : z -> z

  val pos_sub : positive -> positive -> z

  val add : z -> z -> z

  val opp : z -> z

  val sub : z -> z -> z

  val mul : z -> z -> z

  val pow_pos : z -> positive -> z

  val pow : z -> z -> z

  val compare : z -> z -> comparison

  val leb : z -> z -> bool

  val ltb : z -> z -> bool

  val eqb : z -> z -> bool

  val to_nat : z -> nat

  val of_nat : nat -> z

  val pos_div_eucl : positive -> z -> z * z

  val div_eucl : z -> z -> z * z

  val modulo : z -> z -> z

  val odd : z -> bool

  val testbit : z -> z -> bool
 end

type ppc =
| PIdle
| PLoad
| PCas
| PWrite
| PReady
| PAlloc
| PNext
| PLink
| PStore

type cpc =
| CIdle
| CTry
| CTail
| CSpin
| CCommit
| CFree
| CNext
| CSetH
| CLenH
| CLenT
| DHead
| DTail
| DNext
| DFree1
| DFree2
| DOld
| CDead

type op =
| OPop
| OBulk
| OPeek
| OLen

type blk = { bstart : nat; bnext : nat; bval : (nat -> nat option);
             brdy : (nat -> bool) }

type pst = { pp : ppc; lb : nat; li : nat; pv : nat; pnew : nat; pnx : 
             nat; gk : nat }

type mem = { heap : (nat -> blk option); taddr : nat; ti : nat; tc : 
             bool; hidx : nat; hblk : nat; oldb : nat }

type cons = { cp : cpc; cop : op; cdrop : bool; ck : nat; cend : nat;
              cacc : nat list; cnx : nat; chd : nat; cblk : nat; clh : 
              nat; cres : nat; cret : nat list }

type gst = { rlog : (nat * nat) list; absq : nat list; popped : nat list;
             saw : bool; glen0 : nat; badr : (nat -> nat); nblk : nat;
             gtk : nat; ghk : nat; glo : nat; gcl : nat; act : nat list;
             nalloc : nat; nfree : nat }

type mon = { bad_uaf : bool; bad_dfree : bool; bad_over : bool;
             bad_fifo : bool; bad_none : bool; bad_len : bool;
             bad_assert : bool }

type st = { m : mem; p : (nat -> pst); c : cons; g : gst; f : mon }

val upd : (nat -> 'a1) -> nat -> 'a1 -> nat -> 'a1

val isnil : 'a1 list -> bool

val list_eqb : nat list -> nat list -> bool

val remove_nat : nat -> nat list -> nat list

val valof : nat option -> nat

val issome : 'a1 option -> bool

val dead_blk : blk

val fresh_blk : nat -> blk

val hget : (nat -> blk option) -> nat -> blk

val b_next : blk -> nat -> blk

val b_val : blk -> nat -> nat -> blk

val b_rdy : blk -> nat -> blk

val m_heap : mem -> (nat -> blk option) -> mem

val m_tail : mem -> nat -> nat -> bool -> mem

val m_hidx : mem -> nat -> mem

val m_hblk : mem -> nat -> mem

val m_oldb : mem -> nat -> mem

val x_pc : pst -> ppc -> pst

val x_loc : pst -> nat -> nat -> pst

val x_gk : pst -> nat -> pst

val x_new : pst -> nat -> pst

val x_nx : pst -> nat -> pst

val c_pc : cons -> cpc -> cons

val c_rd : cons -> nat -> nat list -> cons

val c_end : cons -> nat -> cons

val c_nx : cons -> nat -> cons

val c_hd : cons -> nat -> cons

val c_blk : cons -> nat -> cons

val c_lh : cons -> nat -> cons

val c_res : cons -> nat -> cons

val c_ret : cons -> nat list -> cons

val c_call : cons -> cpc -> op -> bool -> nat -> cons

val g_rlog : gst -> (nat * nat) list -> gst

val g_absq : gst -> nat list -> gst

val g_popped : gst -> nat list -> gst

val g_saw : gst -> bool -> gst

val g_len0 : gst -> nat -> gst

val g_newblk : gst -> nat -> gst

val g_tk : gst -> nat -> gst

val g_hk : gst -> nat -> gst

val g_lo : gst -> nat -> gst

val g_cl : gst -> nat -> gst

val g_act : gst -> nat list -> gst

val g_nfree : gst -> nat -> gst

val f_uaf : mon -> bool -> mon

val f_dfree : mon -> bool -> mon

val f_over : mon -> bool -> mon

val f_fifo : mon -> bool -> mon

val f_none : mon -> bool -> mon

val f_len : mon -> bool -> mon

val f_assert : mon -> bool -> mon

val s_M : st -> mem -> st

val s_P : st -> (nat -> pst) -> st

val s_C : st -> cons -> st

val s_G : st -> gst -> st

val s_F : st -> mon -> st

val setP : st -> nat -> pst -> st

val deref : st -> nat -> st

val hmod : st -> nat -> (blk -> blk) -> st

val halloc : st -> nat -> nat -> st

val hfree : st -> nat -> st

val blk_at : st -> nat -> blk

type action =
| Push of nat * nat
| PStep of nat * nat
| Pop
| Bulk
| Peek
| Len
| Drop
| CStep

val blkend : nat -> nat -> nat

val pendv : st -> nat

val p_call : st -> nat -> nat -> st

val p_load : st -> nat -> st

val cas_ok : st -> nat -> bool

val p_cas : nat -> st -> nat -> st

val p_write : st -> nat -> st

val p_ready : nat -> st -> nat -> st

val alloc_ok : st -> nat -> bool

val p_alloc : nat -> st -> nat -> nat -> st

val p_next : st -> nat -> st

val p_link : st -> nat -> st

val p_store : st -> nat -> st

val entry : op -> cpc

val c_start : st -> op -> bool -> st

val c_fin : st -> st

val c_fin_empty : st -> st

val c_try : nat -> st -> st

val push_index : st -> nat

val c_tail : nat -> st -> st

val c_spin : nat -> st -> st

val c_commit : nat -> st -> st

val c_free : bool -> st -> st

val c_next : st -> st

val c_seth : bool -> st -> st

val c_lenh : st -> st

val c_lent : st -> st

val d_head : st -> st

val d_tail : st -> st

val d_next : st -> st

val d_free1 : st -> st

val d_free2 : st -> st

val d_old : st -> st

val api_ok : st -> bool

val step : nat -> bool -> st -> action -> st option

val init : nat -> st

val run : nat -> bool -> st -> action list -> st option

val monitors_ok : st -> bool

type aux = { ren : (z * nat) list; fob : (z * z) list; boot : nat;
             pin : nat list; cact : z; ccall : nat; nitems : nat; vdue : 
             bool }

type ast = st * aux

val aux0 : aux

val a_init : nat -> ast

val lookup : (z * 'a1) list -> z -> 'a1 option

val rlookup_n : (z * nat) list -> nat -> z option

val rlookup_z : (z * z) list -> z -> z option

val bind_n : (z * nat) list -> z -> nat -> (z * nat) list option

val bind_z : (z * z) list -> z -> z -> (z * z) list option

val rn : aux -> z -> nat

val addr_for : aux -> z -> nat

val ppc_eqb : ppc -> ppc -> bool

val cpc_eqb : cpc -> cpc -> bool

val op_eqb : op -> op -> bool

val set_ren : aux -> (z * nat) list -> aux

val set_fob : aux -> (z * z) list -> aux

val set_boot : aux -> nat -> aux

val set_pin : aux -> nat list -> aux

val set_call : aux -> z -> nat -> aux

val set_items : aux -> nat -> aux

val set_vdue : aux -> bool -> aux

val fin :
  nat -> st -> bool -> action list -> (st -> bool) -> (st -> aux option) ->
  ast option

val zn : nat -> z -> bool

val znz : z -> bool

val memb : nat -> nat list -> bool

val zclosing : z -> bool

val zlow : z -> z

val zidx : nat -> z -> nat

val zaddr : nat -> z -> z

val tail_is : nat -> st -> aux -> z -> bool

val w_tail : z

val w_hidx : z

val w_hblk : z

val w_base : nat -> nat -> z

val w_next : nat -> nat -> z

val w_slot : nat -> nat -> nat -> z

val w_rdy : nat -> nat -> nat -> z

val inc : aux -> z -> nat -> bool

val incs : aux -> z -> bool

val word_of : nat -> st -> aux -> z -> z -> z option

val commit_acts : nat -> st -> action list

val dfree2_acts : st -> action list

val accept_core : nat -> ast -> z list -> ast option

val accept_ev : nat -> ast -> z list -> ast option

val a_final : ast -> bool

val m_init : ast

val m_accept : ast -> z list -> ast option

val m_final : ast -> bool
