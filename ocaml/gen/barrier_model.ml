
(** val negb : bool -> bool **)

let negb = function
| true -> false
| false -> true

type nat =
| O
| S of nat

(** val fst : ('a1 * 'a2) -> 'a1 **)

let fst = function
| (x, _) -> x

(** val length : 'a1 list -> nat **)

let rec length = function
| [] -> O
| _ :: l' -> S (length l')

(** val app : 'a1 list -> 'a1 list -> 'a1 list **)

let rec app l m =
  match l with
  | [] -> m
  | a0 :: l1 -> a0 :: (app l1 m)

type comparison =
| Eq
| Lt
| Gt

(** val compOpp : comparison -> comparison **)

let compOpp = function
| Eq -> Eq
| Lt -> Gt
| Gt -> Lt

(** val pred : nat -> nat **)

let pred n0 = match n0 with
| O -> n0
| S u -> u

module Coq__1 = struct
 (** val add : nat -> nat -> nat **)
 let rec add n0 m =
   match n0 with
   | O -> m
   | S p -> S (add p m)
end
include Coq__1

(** val eqb : bool -> bool -> bool **)

let eqb b1 b2 =
  if b1 then b2 else if b2 then false else true

module Nat =
 struct
  (** val eqb : nat -> nat -> bool **)

  let rec eqb n0 m =
    match n0 with
    | O -> (match m with
            | O -> true
            | S _ -> false)
    | S n' -> (match m with
               | O -> false
               | S m' -> eqb n' m')

  (** val leb : nat -> nat -> bool **)

  let rec leb n0 m =
    match n0 with
    | O -> true
    | S n' -> (match m with
               | O -> false
               | S m' -> leb n' m')

  (** val ltb : nat -> nat -> bool **)

  let ltb n0 m =
    leb (S n0) m

  (** val eq_dec : nat -> nat -> bool **)

  let rec eq_dec n0 m =
    match n0 with
    | O -> (match m with
            | O -> true
            | S _ -> false)
    | S n1 -> (match m with
               | O -> false
               | S n2 -> eq_dec n1 n2)
 end

(** val remove : ('a1 -> 'a1 -> bool) -> 'a1 -> 'a1 list -> 'a1 list **)

let rec remove eq_dec0 x = function
| [] -> []
| y :: tl ->
  if eq_dec0 x y then remove eq_dec0 x tl else y :: (remove eq_dec0 x tl)

(** val existsb : ('a1 -> bool) -> 'a1 list -> bool **)

let rec existsb f = function
| [] -> false
| a0 :: l0 -> (||) (f a0) (existsb f l0)

type positive =
| XI of positive
| XO of positive
| XH

type n =
| N0
| Npos of positive

type z =
| Z0
| Zpos of positive
| Zneg of positive

module Pos =
 struct
  (** val succ : positive -> positive **)

  let rec succ = function
  | XI p -> XO (succ p)
  | XO p -> XI p
  | XH -> XO XH

  (** val add : positive -> positive -> positive **)

  let rec add x y =
    match x with
    | XI p ->
      (match y with
       | XI q0 -> XO (add_carry p q0)
       | XO q0 -> XI (add p q0)
       | XH -> XO (succ p))
    | XO p ->
      (match y with
       | XI q0 -> XI (add p q0)
       | XO q0 -> XO (add p q0)
       | XH -> XI p)
    | XH -> (match y with
             | XI q0 -> XO (succ q0)
             | XO q0 -> XI q0
             | XH -> XO XH)

  (** val add_carry : positive -> positive -> positive **)

  and add_carry x y =
    match x with
    | XI p ->
      (match y with
       | XI q0 -> XI (add_carry p q0)
       | XO q0 -> XO (add_carry p q0)
       | XH -> XI (succ p))
    | XO p ->
      (match y with
       | XI q0 -> XO (add_carry p q0)
       | XO q0 -> XI (add p q0)
       | XH -> XO (succ p))
    | XH ->
      (match y with
       | XI q0 -> XI (succ q0)
       | XO q0 -> XO (succ q0)
       | XH -> XI XH)

  (** val pred_double : positive -> positive **)

  let rec pred_double = function
  | XI p -> XI (XO p)
  | XO p -> XI (pred_double p)
  | XH -> XH

  (** val pred_N : positive -> n **)

  let pred_N = function
  | XI p -> Npos (XO p)
  | XO p -> Npos (pred_double p)
  | XH -> N0

  (** val mul : positive -> positive -> positive **)

  let rec mul x y =
    match x with
    | XI p -> add y (XO (mul p y))
    | XO p -> XO (mul p y)
    | XH -> y

  (** val iter : ('a1 -> 'a1) -> 'a1 -> positive -> 'a1 **)

  let rec iter f x = function
  | XI n' -> f (iter f (iter f x n') n')
  | XO n' -> iter f (iter f x n') n'
  | XH -> f x

  (** val div2 : positive -> positive **)

  let div2 = function
  | XI p0 -> p0
  | XO p0 -> p0
  | XH -> XH

  (** val div2_up : positive -> positive **)

  let div2_up = function
  | XI p0 -> succ p0
  | XO p0 -> p0
  | XH -> XH

  (** val compare_cont : comparison -> positive -> positive -> comparison **)

  let rec compare_cont r x y =
    match x with
    | XI p ->
      (match y with
       | XI q0 -> compare_cont r p q0
       | XO q0 -> compare_cont Gt p q0
       | XH -> Gt)
    | XO p ->
      (match y with
       | XI q0 -> compare_cont Lt p q0
       | XO q0 -> compare_cont r p q0
       | XH -> Gt)
    | XH -> (match y with
             | XH -> r
             | _ -> Lt)

  (** val compare : positive -> positive -> comparison **)

  let compare =
    compare_cont Eq

  (** val eqb : positive -> positive -> bool **)

  let rec eqb p q0 =
    match p with
    | XI p0 -> (match q0 with
                | XI q1 -> eqb p0 q1
                | _ -> false)
    | XO p0 -> (match q0 with
                | XO q1 -> eqb p0 q1
                | _ -> false)
    | XH -> (match q0 with
             | XH -> true
             | _ -> false)

  (** val testbit : positive -> n -> bool **)

  let rec testbit p n0 =
    match p with
    | XI p0 -> (match n0 with
                | N0 -> true
                | Npos n1 -> testbit p0 (pred_N n1))
    | XO p0 -> (match n0 with
                | N0 -> false
                | Npos n1 -> testbit p0 (pred_N n1))
    | XH -> (match n0 with
             | N0 -> true
             | Npos _ -> false)

  (** val iter_op : ('a1 -> 'a1 -> 'a1) -> positive -> 'a1 -> 'a1 **)

  let rec iter_op op p a0 =
    match p with
    | XI p0 -> op a0 (iter_op op p0 (op a0 a0))
    | XO p0 -> iter_op op p0 (op a0 a0)
    | XH -> a0

  (** val to_nat : positive -> nat **)

  let to_nat x =
    iter_op Coq__1.add x (S O)

  (** val of_succ_nat : nat -> positive **)

  let rec of_succ_nat = function
  | O -> XH
  | S x -> succ (of_succ_nat x)
 end

module N =
 struct
  (** val testbit : n -> n -> bool **)

  let testbit a0 n0 =
    match a0 with
    | N0 -> false
    | Npos p -> Pos.testbit p n0
 end

module Z =
 struct
  (** val double : z -> z **)

  let double = function
  | Z0 -> Z0
  | Zpos p -> Zpos (XO p)
  | Zneg p -> Zneg (XO p)

  (** val succ_double : z -> z **)

  let succ_double = function
  | Z0 -> Zpos XH
  | Zpos p -> Zpos (XI p)
  | Zneg p -> Zneg (Pos.pred_double p)

  (** val pred_double : z -> z **)

  let pred_double = function
  | Z0 -> Zneg XH
  | Zpos p -> Zpos (Pos.pred_double p)
  | Zneg p -> Zneg (XI p)

  (** val pos_sub : positive -> positive -> z **)

  let rec pos_sub x y =
    match x with
    | XI p ->
      (match y with
       | XI q0 -> double (pos_sub p q0)
       | XO q0 -> succ_double (pos_sub p q0)
       | XH -> Zpos (XO p))
    | XO p ->
      (match y with
       | XI q0 -> pred_double (pos_sub p q0)
       | XO q0 -> double (pos_sub p q0)
       | XH -> Zpos (Pos.pred_double p))
    | XH ->
      (match y with
       | XI q0 -> Zneg (XO q0)
       | XO q0 -> Zneg (Pos.pred_double q0)
       | XH -> Z0)

  (** val add : z -> z -> z **)

  let add x y =
    match x with
    | Z0 -> y
    | Zpos x' ->
      (match y with
       | Z0 -> x
       | Zpos y' -> Zpos (Pos.add x' y')
       | Zneg y' -> pos_sub x' y')
    | Zneg x' ->
      (match y with
       | Z0 -> x
       | Zpos y' -> pos_sub y' x'
       | Zneg y' -> Zneg (Pos.add x' y'))

  (** val opp : z -> z **)

  let opp = function
  | Z0 -> Z0
  | Zpos x0 -> Zneg x0
  | Zneg x0 -> Zpos x0

  (** val sub : z -> z -> z **)

  let sub m n0 =
    add m (opp n0)

  (** val mul : z -> z -> z **)

  let mul x y =
    match x with
    | Z0 -> Z0
    | Zpos x' ->
      (match y with
       | Z0 -> Z0
       | Zpos y' -> Zpos (Pos.mul x' y')
       | Zneg y' -> Zneg (Pos.mul x' y'))
    | Zneg x' ->
      (match y with
       | Z0 -> Z0
       | Zpos y' -> Zneg (Pos.mul x' y')
       | Zneg y' -> Zpos (Pos.mul x' y'))

  (** val compare : z -> z -> comparison **)

  let compare x y =
    match x with
    | Z0 -> (match y with
             | Z0 -> Eq
             | Zpos _ -> Lt
             | Zneg _ -> Gt)
    | Zpos x' -> (match y with
                  | Zpos y' -> Pos.compare x' y'
                  | _ -> Gt)
    | Zneg x' ->
      (match y with
       | Zneg y' -> compOpp (Pos.compare x' y')
       | _ -> Lt)

  (** val leb : z -> z -> bool **)

  let leb x y =
    match compare x y with
    | Gt -> false
    | _ -> true

  (** val ltb : z -> z -> bool **)

  let ltb x y =
    match compare x y with
    | Lt -> true
    | _ -> false

  (** val eqb : z -> z -> bool **)

  let eqb x y =
    match x with
    | Z0 -> (match y with
             | Z0 -> true
             | _ -> false)
    | Zpos p -> (match y with
                 | Zpos q0 -> Pos.eqb p q0
                 | _ -> false)
    | Zneg p -> (match y with
                 | Zneg q0 -> Pos.eqb p q0
                 | _ -> false)

  (** val to_nat : z -> nat **)

  let to_nat = function
  | Zpos p -> Pos.to_nat p
  | _ -> O

  (** val of_nat : nat -> z **)

  let of_nat = function
  | O -> Z0
  | S n1 -> Zpos (Pos.of_succ_nat n1)

  (** val odd : z -> bool **)

  let odd = function
  | Z0 -> false
  | Zpos p -> (match p with
               | XO _ -> false
               | _ -> true)
  | Zneg p -> (match p with
               | XO _ -> false
               | _ -> true)

  (** val div2 : z -> z **)

  let div2 = function
  | Z0 -> Z0
  | Zpos p -> (match p with
               | XH -> Z0
               | _ -> Zpos (Pos.div2 p))
  | Zneg p -> Zneg (Pos.div2_up p)

  (** val testbit : z -> z -> bool **)

  let testbit a0 = function
  | Z0 -> odd a0
  | Zpos p ->
    (match a0 with
     | Z0 -> false
     | Zpos a1 -> Pos.testbit a1 (Npos p)
     | Zneg a1 -> negb (N.testbit (Pos.pred_N a1) (Npos p)))
  | Zneg _ -> false

  (** val shiftl : z -> z -> z **)

  let shiftl a0 = function
  | Z0 -> a0
  | Zpos p -> Pos.iter (mul (Zpos (XO XH))) a0 p
  | Zneg p -> Pos.iter div2 a0 p

  (** val shiftr : z -> z -> z **)

  let shiftr a0 n0 =
    shiftl a0 (opp n0)
 end

type pc =
| Idle
| V0
| D0
| W1
| W2
| N1
| WP
| WW
| D2
| L
| R1
| E1
| E2
| E3
| E4
| K1
| K2
| K3
| K4
| N3
| R2
| P1
| C1
| Dead
| A1
| A2
| A3

type ctx =
| RUser
| RErr

type act = { apc : pc; ab : nat; aw : nat; actx : ctx; aco : bool;
             adur : z option; adl : z option; acomp : bool; rtok : bool;
             rtmo : bool; rcan : bool; aerr : bool; ares : nat; ccan : 
             bool; cdis : nat; cdis0 : nat }

type blk = { tok : bool; unp : bool; rel : bool; owner : nat; bset : 
             nat; bagent : nat; tokd : bool }

type st = { mx : nat option; pois : bool; bound : bool; q : nat list;
            nextb : nat; now : z; a : (nat -> act); bk : (nat -> blk);
            giv : nat list; hand : nat list; held : nat list; owe : nat list;
            flg : nat list; nuser : z; nall : z; nret : z; fnone : z }

(** val upd : (nat -> 'a1) -> nat -> 'a1 -> nat -> 'a1 **)

let upd f i v j =
  if Nat.eqb j i then v else f j

(** val rm : nat -> nat list -> nat list **)

let rm =
  remove Nat.eq_dec

(** val fresh : nat -> blk **)

let fresh o =
  { tok = false; unp = false; rel = false; owner = o; bset = O; bagent = O;
    tokd = false }

(** val sA : st -> (nat -> act) -> st **)

let sA s a' =
  { mx = s.mx; pois = s.pois; bound = s.bound; q = s.q; nextb = s.nextb;
    now = s.now; a = a'; bk = s.bk; giv = s.giv; hand = s.hand; held =
    s.held; owe = s.owe; flg = s.flg; nuser = s.nuser; nall = s.nall; nret =
    s.nret; fnone = s.fnone }

(** val sB : st -> (nat -> blk) -> st **)

let sB s b' =
  { mx = s.mx; pois = s.pois; bound = s.bound; q = s.q; nextb = s.nextb;
    now = s.now; a = s.a; bk = b'; giv = s.giv; hand = s.hand; held = s.held;
    owe = s.owe; flg = s.flg; nuser = s.nuser; nall = s.nall; nret = s.nret;
    fnone = s.fnone }

(** val smx : st -> nat option -> bool -> st **)

let smx s m p =
  { mx = m; pois = p; bound = s.bound; q = s.q; nextb = s.nextb; now = s.now;
    a = s.a; bk = s.bk; giv = s.giv; hand = s.hand; held = s.held; owe =
    s.owe; flg = s.flg; nuser = s.nuser; nall = s.nall; nret = s.nret;
    fnone = s.fnone }

(** val sbound : st -> bool -> st **)

let sbound s v =
  { mx = s.mx; pois = s.pois; bound = v; q = s.q; nextb = s.nextb; now =
    s.now; a = s.a; bk = s.bk; giv = s.giv; hand = s.hand; held = s.held;
    owe = s.owe; flg = s.flg; nuser = s.nuser; nall = s.nall; nret = s.nret;
    fnone = s.fnone }

(** val sq : st -> nat list -> nat -> st **)

let sq s q' n0 =
  { mx = s.mx; pois = s.pois; bound = s.bound; q = q'; nextb = n0; now =
    s.now; a = s.a; bk = s.bk; giv = s.giv; hand = s.hand; held = s.held;
    owe = s.owe; flg = s.flg; nuser = s.nuser; nall = s.nall; nret = s.nret;
    fnone = s.fnone }

(** val snow : st -> z -> st **)

let snow s t =
  { mx = s.mx; pois = s.pois; bound = s.bound; q = s.q; nextb = s.nextb;
    now = t; a = s.a; bk = s.bk; giv = s.giv; hand = s.hand; held = s.held;
    owe = s.owe; flg = s.flg; nuser = s.nuser; nall = s.nall; nret = s.nret;
    fnone = s.fnone }

(** val sG :
    st -> nat list -> nat list -> nat list -> nat list -> nat list -> st **)

let sG s g h hd o f =
  { mx = s.mx; pois = s.pois; bound = s.bound; q = s.q; nextb = s.nextb;
    now = s.now; a = s.a; bk = s.bk; giv = g; hand = h; held = hd; owe = o;
    flg = f; nuser = s.nuser; nall = s.nall; nret = s.nret; fnone = s.fnone }

(** val sN : st -> z -> z -> z -> z -> st **)

let sN s u al r f =
  { mx = s.mx; pois = s.pois; bound = s.bound; q = s.q; nextb = s.nextb;
    now = s.now; a = s.a; bk = s.bk; giv = s.giv; hand = s.hand; held =
    s.held; owe = s.owe; flg = s.flg; nuser = u; nall = al; nret = r; fnone =
    f }

(** val set_pc : act -> pc -> act **)

let set_pc x p =
  { apc = p; ab = x.ab; aw = x.aw; actx = x.actx; aco = x.aco; adur = x.adur;
    adl = x.adl; acomp = x.acomp; rtok = x.rtok; rtmo = x.rtmo; rcan =
    x.rcan; aerr = x.aerr; ares = x.ares; ccan = x.ccan; cdis = x.cdis;
    cdis0 = x.cdis0 }

(** val set_call : act -> pc -> bool -> z option -> act **)

let set_call x p co d =
  { apc = p; ab = x.ab; aw = x.aw; actx = x.actx; aco = co; adur = d; adl =
    None; acomp = false; rtok = false; rtmo = false; rcan = false; aerr =
    false; ares = x.ares; ccan = x.ccan; cdis = x.cdis; cdis0 = x.cdis }

(** val set_ctx : act -> pc -> ctx -> bool -> act **)

let set_ctx x p c k =
  { apc = p; ab = x.ab; aw = x.aw; actx = c; aco = x.aco; adur = x.adur;
    adl = x.adl; acomp = k; rtok = x.rtok; rtmo = x.rtmo; rcan = x.rcan;
    aerr = x.aerr; ares = x.ares; ccan = x.ccan; cdis = x.cdis; cdis0 =
    x.cdis0 }

(** val set_ab : act -> pc -> nat -> act **)

let set_ab x p n0 =
  { apc = p; ab = n0; aw = x.aw; actx = x.actx; aco = x.aco; adur = x.adur;
    adl = x.adl; acomp = x.acomp; rtok = x.rtok; rtmo = x.rtmo; rcan =
    x.rcan; aerr = x.aerr; ares = x.ares; ccan = x.ccan; cdis = x.cdis;
    cdis0 = x.cdis0 }

(** val set_aw : act -> pc -> nat -> act **)

let set_aw x p n0 =
  { apc = p; ab = x.ab; aw = n0; actx = x.actx; aco = x.aco; adur = x.adur;
    adl = x.adl; acomp = false; rtok = x.rtok; rtmo = x.rtmo; rcan = x.rcan;
    aerr = x.aerr; ares = x.ares; ccan = x.ccan; cdis = x.cdis; cdis0 =
    x.cdis0 }

(** val set_dl : act -> pc -> z option -> act **)

let set_dl x p dl =
  { apc = p; ab = x.ab; aw = x.aw; actx = x.actx; aco = x.aco; adur = x.adur;
    adl = dl; acomp = x.acomp; rtok = x.rtok; rtmo = x.rtmo; rcan = x.rcan;
    aerr = x.aerr; ares = x.ares; ccan = x.ccan; cdis = x.cdis; cdis0 =
    x.cdis0 }

(** val set_rsn : act -> pc -> bool -> bool -> bool -> act **)

let set_rsn x p t m c =
  { apc = p; ab = x.ab; aw = x.aw; actx = x.actx; aco = x.aco; adur = x.adur;
    adl = x.adl; acomp = x.acomp; rtok = t; rtmo = m; rcan = c; aerr =
    x.aerr; ares = x.ares; ccan = x.ccan; cdis = x.cdis; cdis0 = x.cdis0 }

(** val set_err : act -> pc -> bool -> act **)

let set_err x p e =
  { apc = p; ab = x.ab; aw = x.aw; actx = x.actx; aco = x.aco; adur = x.adur;
    adl = x.adl; acomp = x.acomp; rtok = x.rtok; rtmo = x.rtmo; rcan =
    x.rcan; aerr = e; ares = x.ares; ccan = x.ccan; cdis = x.cdis; cdis0 =
    x.cdis0 }

(** val set_res : act -> pc -> nat -> act **)

let set_res x p r =
  { apc = p; ab = x.ab; aw = x.aw; actx = x.actx; aco = x.aco; adur = x.adur;
    adl = x.adl; acomp = x.acomp; rtok = x.rtok; rtmo = x.rtmo; rcan =
    x.rcan; aerr = x.aerr; ares = r; ccan = x.ccan; cdis = x.cdis; cdis0 =
    x.cdis0 }

(** val set_dis : act -> pc -> nat -> act **)

let set_dis x p n0 =
  { apc = p; ab = x.ab; aw = x.aw; actx = x.actx; aco = x.aco; adur = x.adur;
    adl = x.adl; acomp = x.acomp; rtok = x.rtok; rtmo = x.rtmo; rcan =
    x.rcan; aerr = x.aerr; ares = x.ares; ccan = x.ccan; cdis = n0; cdis0 =
    x.cdis0 }

(** val set_can : act -> act **)

let set_can x =
  { apc = x.apc; ab = x.ab; aw = x.aw; actx = x.actx; aco = x.aco; adur =
    x.adur; adl = x.adl; acomp = x.acomp; rtok = x.rtok; rtmo = x.rtmo;
    rcan = x.rcan; aerr = x.aerr; ares = x.ares; ccan = true; cdis = x.cdis;
    cdis0 = x.cdis0 }

(** val b_tok : blk -> bool -> bool -> blk **)

let b_tok k v d =
  { tok = v; unp = k.unp; rel = k.rel; owner = k.owner; bset = k.bset;
    bagent = k.bagent; tokd = d }

(** val b_flag : blk -> nat -> blk **)

let b_flag k ag =
  { tok = k.tok; unp = true; rel = k.rel; owner = k.owner; bset = k.bset;
    bagent = ag; tokd = k.tokd }

(** val b_rel : blk -> bool -> blk **)

let b_rel k v =
  { tok = k.tok; unp = k.unp; rel = v; owner = k.owner; bset = k.bset;
    bagent = k.bagent; tokd = k.tokd }

(** val b_settle : blk -> blk **)

let b_settle k =
  { tok = k.tok; unp = k.unp; rel = false; owner = k.owner; bset = (S
    k.bset); bagent = k.bagent; tokd = k.tokd }

(** val after_unlock : act -> pc **)

let after_unlock x =
  if x.aco then N1 else WP

(** val after_park : act -> pc **)

let after_park x =
  if x.aco then D2 else L

(** val leave_err : act -> pc **)

let leave_err x =
  if x.aco then N3 else R2

(** val ret_pc : act -> pc **)

let ret_pc x =
  match x.actx with
  | RUser -> Idle
  | RErr -> leave_err x

(** val due : z option -> z -> bool **)

let due dl t =
  match dl with
  | Some d -> Z.leb d t
  | None -> false

type action =
| Lock of nat
| Unlock of nat * bool
| Wait of nat * bool * z option
| NotifyOne of nat
| NotifyAll of nat
| Step of nat
| Resume of nat
| Choose of nat * bool
| Cancel of nat
| Tick of z

(** val forward : st -> nat -> act -> nat -> st **)

let forward s a0 x b =
  sG
    (sB (sA s (upd s.a a0 (set_ctx x K1 RErr true)))
      (upd s.bk b (b_settle (s.bk b)))) (rm b s.giv) s.hand s.held
    (a0 :: s.owe) s.flg

(** val step : st -> action -> st option **)

let step s = function
| Lock a0 ->
  (match (s.a a0).apc with
   | Idle ->
     (match s.mx with
      | Some _ -> None
      | None -> Some (smx s (Some a0) s.pois))
   | _ -> None)
| Unlock (a0, p) ->
  (match (s.a a0).apc with
   | Idle ->
     (match s.mx with
      | Some h ->
        if Nat.eqb h a0 then Some (smx s None ((||) s.pois p)) else None
      | None -> None)
   | _ -> None)
| Wait (a0, co, d) ->
  (match (s.a a0).apc with
   | Idle ->
     (match s.mx with
      | Some h ->
        if Nat.eqb h a0
        then Some (sA s (upd s.a a0 (set_call (s.a a0) V0 co d)))
        else None
      | None -> None)
   | _ -> None)
| NotifyOne a0 ->
  (match (s.a a0).apc with
   | Idle -> Some (sA s (upd s.a a0 (set_ctx (s.a a0) K1 RUser false)))
   | _ -> None)
| NotifyAll a0 ->
  (match (s.a a0).apc with
   | Idle -> Some (sA s (upd s.a a0 (set_pc (s.a a0) A1)))
   | _ -> None)
| Step a0 ->
  let x = s.a a0 in
  let b = s.bk x.ab in
  let w = s.bk x.aw in
  (match x.apc with
   | V0 ->
     Some
       (sbound (sA s (upd s.a a0 (set_pc x (if x.aco then D0 else W1)))) true)
   | D0 -> Some (sA s (upd s.a a0 (set_dis x W1 (S x.cdis))))
   | W1 ->
     let n0 = s.nextb in
     Some
     (sq (sB (sA s (upd s.a a0 (set_ab x W2 n0))) (upd s.bk n0 (fresh a0)))
       (app s.q (n0 :: [])) (S n0))
   | W2 ->
     Some (smx (sA s (upd s.a a0 (set_pc x (after_unlock x)))) None s.pois)
   | N1 -> Some (sA s (upd s.a a0 (set_dis x WP (pred x.cdis))))
   | WP ->
     if b.tok
     then Some
            (sB
              (sA s (upd s.a a0 (set_rsn x (after_park x) true false false)))
              (upd s.bk x.ab (b_tok b false b.tokd)))
     else Some
            (sA s
              (upd s.a a0
                (set_dl x WW
                  (match x.adur with
                   | Some d -> Some (Z.add s.now d)
                   | None -> None))))
   | D2 -> Some (sA s (upd s.a a0 (set_dis x L (S x.cdis))))
   | L ->
     (match s.mx with
      | Some _ -> None
      | None -> Some (smx (sA s (upd s.a a0 (set_pc x R1))) (Some a0) s.pois))
   | E1 ->
     if b.unp
     then Some (forward s a0 x x.ab)
     else Some (sA s (upd s.a a0 (set_pc x E2)))
   | E2 ->
     Some
       (sB (sA s (upd s.a a0 (set_pc x E3))) (upd s.bk x.ab (b_rel b true)))
   | E3 ->
     if b.unp
     then Some (sA s (upd s.a a0 (set_pc x E4)))
     else Some (sA s (upd s.a a0 (set_pc x (leave_err x))))
   | E4 ->
     if b.rel
     then Some (forward s a0 x x.ab)
     else Some (sA s (upd s.a a0 (set_pc x (leave_err x))))
   | K1 ->
     (match s.q with
      | [] ->
        if x.acomp
        then Some
               (sN
                 (sG (sA s (upd s.a a0 (set_ctx x (ret_pc x) x.actx false)))
                   s.giv s.hand s.held (rm a0 s.owe) s.flg) s.nuser s.nall
                 s.nret (Z.add s.fnone (Zpos XH)))
        else Some (sA s (upd s.a a0 (set_pc x (ret_pc x))))
      | v :: q' ->
        Some
          (sN
            (sG (sq (sA s (upd s.a a0 (set_aw x K2 v))) q' s.nextb) s.giv
              (a0 :: s.hand) (v :: s.held)
              (if x.acomp then rm a0 s.owe else s.owe) s.flg)
            (if x.acomp then s.nuser else Z.add s.nuser (Zpos XH)) s.nall
            s.nret s.fnone))
   | K2 ->
     Some
       (sG
         (sB
           (sA s
             (upd s.a a0 (set_pc x (match x.apc with
                                    | K2 -> K3
                                    | _ -> A3))))
           (upd s.bk x.aw (b_flag w a0))) (x.aw :: s.giv) (rm a0 s.hand)
         (rm x.aw s.held) s.owe (x.aw :: s.flg))
   | K3 ->
     Some
       (sG
         (sB
           (sA s
             (upd s.a a0 (set_pc x (match x.apc with
                                    | K3 -> K4
                                    | _ -> A1))))
           (upd s.bk x.aw (b_tok w true true))) s.giv s.hand s.held s.owe
         (rm x.aw s.flg))
   | K4 ->
     if w.rel
     then Some
            (sG
              (sB (sA s (upd s.a a0 (set_ctx x K1 x.actx true)))
                (upd s.bk x.aw (b_settle w))) (rm x.aw s.giv) s.hand s.held
              (a0 :: s.owe) s.flg)
     else Some (sA s (upd s.a a0 (set_pc x (ret_pc x))))
   | N3 -> Some (sA s (upd s.a a0 (set_dis x R2 (pred x.cdis))))
   | R2 -> if x.aerr then None else Some (sA s (upd s.a a0 (set_res x P1 O)))
   | P1 -> Some (sA s (upd s.a a0 (set_pc x Idle)))
   | C1 -> Some (smx (sA s (upd s.a a0 (set_pc x Dead))) None s.pois)
   | A1 ->
     (match s.q with
      | [] -> Some (sA s (upd s.a a0 (set_pc x Idle)))
      | v :: q' ->
        Some
          (sN
            (sG (sq (sA s (upd s.a a0 (set_aw x A2 v))) q' s.nextb) s.giv
              (a0 :: s.hand) (v :: s.held) s.owe s.flg) s.nuser
            (Z.add s.nall (Zpos XH)) s.nret s.fnone))
   | A2 ->
     Some
       (sG
         (sB
           (sA s
             (upd s.a a0 (set_pc x (match x.apc with
                                    | K2 -> K3
                                    | _ -> A3))))
           (upd s.bk x.aw (b_flag w a0))) (x.aw :: s.giv) (rm a0 s.hand)
         (rm x.aw s.held) s.owe (x.aw :: s.flg))
   | A3 ->
     Some
       (sG
         (sB
           (sA s
             (upd s.a a0 (set_pc x (match x.apc with
                                    | K3 -> K4
                                    | _ -> A1))))
           (upd s.bk x.aw (b_tok w true true))) s.giv s.hand s.held s.owe
         (rm x.aw s.flg))
   | _ -> None)
| Resume a0 ->
  let x = s.a a0 in
  let b = s.bk x.ab in
  (match x.apc with
   | WW ->
     let t = b.tok in
     let m = due x.adl s.now in
     let c = (&&) x.aco x.ccan in
     if (||) ((||) t m) c
     then Some
            (sB (sA s (upd s.a a0 (set_rsn x (after_park x) t m c)))
              (upd s.bk x.ab (b_tok b false b.tokd)))
     else None
   | _ -> None)
| Choose (a0, e) ->
  let x = s.a a0 in
  (match x.apc with
   | R1 ->
     if e
     then if (||) x.rtmo x.rcan
          then Some (sA s (upd s.a a0 (set_err x E1 true)))
          else None
     else if x.rtok
          then Some
                 (sN
                   (sG
                     (sB (sA s (upd s.a a0 (set_err x (leave_err x) false)))
                       (upd s.bk x.ab (b_settle (s.bk x.ab))))
                     (rm x.ab s.giv) s.hand s.held s.owe s.flg) s.nuser
                   s.nall (Z.add s.nret (Zpos XH)) s.fnone)
          else None
   | R2 ->
     if x.aerr
     then if e
          then if x.rcan
               then Some (sA s (upd s.a a0 (set_res x C1 (S (S O)))))
               else None
          else if x.rtmo
               then Some (sA s (upd s.a a0 (set_res x P1 (S O))))
               else None
     else None
   | _ -> None)
| Cancel a0 -> Some (sA s (upd s.a a0 (set_can (s.a a0))))
| Tick t -> if Z.leb s.now t then Some (snow s t) else None

(** val act0 : act **)

let act0 =
  { apc = Idle; ab = O; aw = O; actx = RUser; aco = false; adur = None; adl =
    None; acomp = false; rtok = false; rtmo = false; rcan = false; aerr =
    false; ares = O; ccan = false; cdis = O; cdis0 = O }

(** val init : st **)

let init =
  { mx = None; pois = false; bound = false; q = []; nextb = (S O); now = Z0;
    a = (fun _ -> act0); bk = (fun _ -> fresh O); giv = []; hand = []; held =
    []; owe = []; flg = []; nuser = Z0; nall = Z0; nret = Z0; fnone = Z0 }

type aux = { started : bool; kind : (nat -> nat); byk : (nat -> nat);
             ph : (nat -> nat); verd : (nat -> bool);
             pend : (nat -> z option option); kdis : (nat -> nat);
             tail : (nat -> bool); pzn : (nat -> bool); gone : (nat -> bool);
             prec : (nat -> bool); ou : (nat -> z); orl : (nat -> z);
             opk : (nat -> z) }

type ast = st * aux

(** val aux0 : aux **)

let aux0 =
  { started = false; kind = (fun _ -> O); byk = (fun _ -> O); ph = (fun _ ->
    O); verd = (fun _ -> false); pend = (fun _ -> None); kdis = (fun _ -> O);
    tail = (fun _ -> false); pzn = (fun _ -> false); gone = (fun _ -> false);
    prec = (fun _ -> false); ou = (fun _ -> Z0); orl = (fun _ -> Z0); opk =
    (fun _ -> Z0) }

(** val pc_eqb : pc -> pc -> bool **)

let pc_eqb x y =
  match x with
  | Idle -> (match y with
             | Idle -> true
             | _ -> false)
  | V0 -> (match y with
           | V0 -> true
           | _ -> false)
  | D0 -> (match y with
           | D0 -> true
           | _ -> false)
  | W1 -> (match y with
           | W1 -> true
           | _ -> false)
  | W2 -> (match y with
           | W2 -> true
           | _ -> false)
  | N1 -> (match y with
           | N1 -> true
           | _ -> false)
  | WP -> (match y with
           | WP -> true
           | _ -> false)
  | WW -> (match y with
           | WW -> true
           | _ -> false)
  | D2 -> (match y with
           | D2 -> true
           | _ -> false)
  | L -> (match y with
          | L -> true
          | _ -> false)
  | R1 -> (match y with
           | R1 -> true
           | _ -> false)
  | E1 -> (match y with
           | E1 -> true
           | _ -> false)
  | E2 -> (match y with
           | E2 -> true
           | _ -> false)
  | E3 -> (match y with
           | E3 -> true
           | _ -> false)
  | E4 -> (match y with
           | E4 -> true
           | _ -> false)
  | K1 -> (match y with
           | K1 -> true
           | _ -> false)
  | K2 -> (match y with
           | K2 -> true
           | _ -> false)
  | K3 -> (match y with
           | K3 -> true
           | _ -> false)
  | K4 -> (match y with
           | K4 -> true
           | _ -> false)
  | N3 -> (match y with
           | N3 -> true
           | _ -> false)
  | R2 -> (match y with
           | R2 -> true
           | _ -> false)
  | P1 -> (match y with
           | P1 -> true
           | _ -> false)
  | C1 -> (match y with
           | C1 -> true
           | _ -> false)
  | Dead -> (match y with
             | Dead -> true
             | _ -> false)
  | A1 -> (match y with
           | A1 -> true
           | _ -> false)
  | A2 -> (match y with
           | A2 -> true
           | _ -> false)
  | A3 -> (match y with
           | A3 -> true
           | _ -> false)

(** val zb : z -> bool **)

let zb v =
  negb (Z.eqb v Z0)

(** val set_started : aux -> aux **)

let set_started x =
  { started = true; kind = x.kind; byk = x.byk; ph = x.ph; verd = x.verd;
    pend = x.pend; kdis = x.kdis; tail = x.tail; pzn = x.pzn; gone = x.gone;
    prec = x.prec; ou = x.ou; orl = x.orl; opk = x.opk }

(** val set_kind : aux -> nat -> nat -> nat -> aux **)

let set_kind x a0 k i =
  { started = x.started; kind = (upd x.kind a0 k); byk =
    (upd x.byk i (S a0)); ph = x.ph; verd = x.verd; pend = x.pend; kdis =
    x.kdis; tail = x.tail; pzn = x.pzn; gone = x.gone; prec = x.prec; ou =
    x.ou; orl = x.orl; opk = x.opk }

(** val set_ph : aux -> nat -> nat -> aux **)

let set_ph x a0 p =
  { started = x.started; kind = x.kind; byk = x.byk; ph = (upd x.ph a0 p);
    verd = x.verd; pend = x.pend; kdis = x.kdis; tail =
    (upd x.tail a0 false); pzn = x.pzn; gone = x.gone; prec = x.prec; ou =
    x.ou; orl = x.orl; opk = x.opk }

(** val set_verd : aux -> nat -> nat -> bool -> aux **)

let set_verd x a0 p v =
  { started = x.started; kind = x.kind; byk = x.byk; ph = (upd x.ph a0 p);
    verd = (upd x.verd a0 v); pend = x.pend; kdis = x.kdis; tail = x.tail;
    pzn = x.pzn; gone = x.gone; prec = x.prec; ou = x.ou; orl = x.orl; opk =
    x.opk }

(** val set_pend : aux -> nat -> z option option -> aux **)

let set_pend x a0 p =
  { started = x.started; kind = x.kind; byk = x.byk; ph = x.ph; verd =
    x.verd; pend = (upd x.pend a0 p); kdis = x.kdis; tail = x.tail; pzn =
    x.pzn; gone = x.gone; prec = x.prec; ou = x.ou; orl = x.orl; opk = x.opk }

(** val set_kdis : aux -> nat -> nat -> aux **)

let set_kdis x a0 n0 =
  { started = x.started; kind = x.kind; byk = x.byk; ph = x.ph; verd =
    x.verd; pend = x.pend; kdis = (upd x.kdis a0 n0); tail = x.tail; pzn =
    x.pzn; gone = x.gone; prec = x.prec; ou = x.ou; orl = x.orl; opk = x.opk }

(** val set_tail : aux -> nat -> bool -> aux **)

let set_tail x a0 t =
  { started = x.started; kind = x.kind; byk = x.byk; ph = x.ph; verd =
    x.verd; pend = x.pend; kdis = x.kdis; tail = (upd x.tail a0 t); pzn =
    x.pzn; gone = x.gone; prec = x.prec; ou = x.ou; orl = x.orl; opk = x.opk }

(** val set_pzn : aux -> nat -> bool -> aux **)

let set_pzn x a0 t =
  { started = x.started; kind = x.kind; byk = x.byk; ph = x.ph; verd =
    x.verd; pend = x.pend; kdis = x.kdis; tail = x.tail; pzn =
    (upd x.pzn a0 t); gone = x.gone; prec = x.prec; ou = x.ou; orl = x.orl;
    opk = x.opk }

(** val set_gone : aux -> nat -> aux **)

let set_gone x a0 =
  { started = x.started; kind = x.kind; byk = x.byk; ph = x.ph; verd =
    x.verd; pend = x.pend; kdis = x.kdis; tail = x.tail; pzn = x.pzn; gone =
    (upd x.gone a0 true); prec = x.prec; ou = x.ou; orl = x.orl; opk = x.opk }

(** val set_prec : aux -> nat -> aux **)

let set_prec x k =
  { started = x.started; kind = x.kind; byk = x.byk; ph = x.ph; verd =
    x.verd; pend = x.pend; kdis = x.kdis; tail = x.tail; pzn = x.pzn; gone =
    x.gone; prec = (upd x.prec k true); ou = x.ou; orl = x.orl; opk = x.opk }

(** val set_ou : aux -> (nat -> z) -> aux **)

let set_ou x m =
  { started = x.started; kind = x.kind; byk = x.byk; ph = x.ph; verd =
    x.verd; pend = x.pend; kdis = x.kdis; tail = x.tail; pzn = x.pzn; gone =
    x.gone; prec = x.prec; ou = m; orl = x.orl; opk = x.opk }

(** val set_orl : aux -> (nat -> z) -> aux **)

let set_orl x m =
  { started = x.started; kind = x.kind; byk = x.byk; ph = x.ph; verd =
    x.verd; pend = x.pend; kdis = x.kdis; tail = x.tail; pzn = x.pzn; gone =
    x.gone; prec = x.prec; ou = x.ou; orl = m; opk = x.opk }

(** val set_opk : aux -> (nat -> z) -> aux **)

let set_opk x m =
  { started = x.started; kind = x.kind; byk = x.byk; ph = x.ph; verd =
    x.verd; pend = x.pend; kdis = x.kdis; tail = x.tail; pzn = x.pzn; gone =
    x.gone; prec = x.prec; ou = x.ou; orl = x.orl; opk = m }

(** val bind_obj : (nat -> z) -> nat -> z -> (nat -> z) option **)

let bind_obj m b o =
  if Z.eqb (m b) Z0
  then Some (upd m b o)
  else if Z.eqb (m b) o then Some m else None

type plan = { acts : action list; post : (st -> bool); nxt : (st -> aux) }

(** val guard : bool -> plan option -> plan option **)

let guard b p =
  if b then p else None

(** val pcof : st -> nat -> pc **)

let pcof s a0 =
  (s.a a0).apc

(** val at_pc : st -> nat -> pc -> bool **)

let at_pc s a0 p =
  pc_eqb (pcof s a0) p

(** val phis : aux -> nat -> nat -> bool **)

let phis x a0 n0 =
  Nat.eqb (x.ph a0) n0

(** val holds : st -> nat -> bool **)

let holds s a0 =
  match s.mx with
  | Some h -> Nat.eqb h a0
  | None -> false

(** val ok : aux -> plan option **)

let ok x =
  Some { acts = []; post = (fun _ -> true); nxt = (fun _ -> x) }

(** val go : action list -> aux -> plan option **)

let go l x =
  Some { acts = l; post = (fun _ -> true); nxt = (fun _ -> x) }

(** val outside : st -> aux -> nat -> bool **)

let outside s x a0 =
  (&&)
    ((||) ((||) ((||) (at_pc s a0 Idle) (at_pc s a0 L)) (at_pc s a0 Dead))
      (x.gone a0)) (phis x a0 O)

(** val in_tail : st -> aux -> nat -> bool **)

let in_tail s x a0 =
  (&&) (x.tail a0) ((||) (at_pc s a0 N1) (at_pc s a0 WP))

(** val tick_to : st -> nat -> action list **)

let tick_to s a0 =
  match (s.a a0).adl with
  | Some dl -> if Z.ltb s.now dl then (Tick dl) :: [] else []
  | None -> []

(** val plan_ev : st -> aux -> z list -> plan option **)

let plan_ev s x = function
| [] -> None
| code :: l ->
  (match l with
   | [] -> None
   | za :: l0 ->
     (match l0 with
      | [] -> None
      | o :: l1 ->
        (match l1 with
         | [] -> None
         | v :: l2 ->
           (match l2 with
            | [] ->
              let a0 = Z.to_nat za in
              let me = s.a a0 in
              let b = me.ab in
              let w = me.aw in
              let co = Nat.eqb (x.kind a0) (S (S O)) in
              (match code with
               | Zpos p ->
                 (match p with
                  | XI p0 ->
                    (match p0 with
                     | XI p1 ->
                       (match p1 with
                        | XI p2 ->
                          (match p2 with
                           | XI p3 ->
                             (match p3 with
                              | XH ->
                                if outside s x a0
                                then ok x
                                else (match bind_obj x.ou b o with
                                      | Some m ->
                                        guard (eqb (s.bk b).unp (zb v))
                                          (if (||) (at_pc s a0 E1)
                                                (at_pc s a0 E3)
                                           then go ((Step a0) :: [])
                                                  (set_ou x m)
                                           else guard
                                                  ((&&)
                                                    ((&&) (at_pc s a0 R1) co)
                                                    (Nat.eqb (x.kdis a0) O))
                                                  (go ((Choose (a0,
                                                    true)) :: ((Step
                                                    a0) :: [])) (set_ou x m)))
                                      | None -> None)
                              | _ -> None)
                           | _ -> None)
                        | XO p2 ->
                          (match p2 with
                           | XI p3 ->
                             (match p3 with
                              | XO p4 ->
                                (match p4 with
                                 | XH ->
                                   if (||) (outside s x a0) (in_tail s x a0)
                                   then ok x
                                   else guard
                                          ((&&)
                                            ((&&)
                                              ((||) (at_pc s a0 K3)
                                                (at_pc s a0 A3))
                                              (Nat.eqb
                                                (x.kind (s.bk w).owner) (S (S
                                                O))))
                                            (eqb (s.bk w).tok (zb v)))
                                          (match bind_obj x.opk w o with
                                           | Some m ->
                                             go ((Step a0) :: [])
                                               (set_opk x m)
                                           | None -> None)
                                 | _ -> None)
                              | _ -> None)
                           | XO p3 ->
                             (match p3 with
                              | XI p4 ->
                                (match p4 with
                                 | XH ->
                                   if at_pc s a0 L
                                   then guard
                                          ((&&) (phis x a0 O)
                                            (eqb s.pois (zb v)))
                                          (if co
                                           then go ((Step a0) :: []) x
                                           else go ((Step a0) :: ((Choose
                                                  (a0, (x.verd a0))) :: [])) x)
                                   else if at_pc s a0 P1
                                        then guard (eqb s.pois (zb v))
                                               (go ((Step a0) :: []) x)
                                        else if at_pc s a0 R2
                                             then guard
                                                    ((&&) (eqb s.pois (zb v))
                                                      (Nat.eqb (x.kdis a0) O))
                                                    (if me.aerr
                                                     then go ((Choose (a0,
                                                            false)) :: ((Step
                                                            a0) :: [])) x
                                                     else go ((Step
                                                            a0) :: ((Step
                                                            a0) :: [])) x)
                                             else guard
                                                    ((&&)
                                                      ((&&)
                                                        ((&&)
                                                          (at_pc s a0 Idle)
                                                          (phis x a0 O))
                                                        (negb (x.gone a0)))
                                                      (eqb s.pois (zb v)))
                                                    (go ((Lock a0) :: []) x)
                                 | _ -> None)
                              | _ -> None)
                           | XH ->
                             if (||) (outside s x a0) (in_tail s x a0)
                             then ok x
                             else guard
                                    ((&&)
                                      ((||) (at_pc s a0 K3) (at_pc s a0 A3))
                                      (Nat.eqb (x.kind (s.bk w).owner) (S O)))
                                    (match bind_obj x.opk w o with
                                     | Some m ->
                                       go ((Step a0) :: []) (set_opk x m)
                                     | None -> None))
                        | XH -> None)
                     | XO p1 ->
                       (match p1 with
                        | XI p2 ->
                          (match p2 with
                           | XI p3 ->
                             (match p3 with
                              | XI p4 ->
                                (match p4 with
                                 | XH ->
                                   if outside s x a0
                                   then ok x
                                   else (match x.kdis a0 with
                                         | O ->
                                           if at_pc s a0 N1
                                           then guard
                                                  (Z.eqb
                                                    (Z.shiftr v (Zpos XH))
                                                    (Z.of_nat me.cdis))
                                                  (go ((Step a0) :: [])
                                                    (set_tail x a0 false))
                                           else if at_pc s a0 N3
                                                then guard
                                                       (Z.eqb
                                                         (Z.shiftr v (Zpos
                                                           XH))
                                                         (Z.of_nat me.cdis))
                                                       (go ((Step a0) :: [])
                                                         x)
                                                else guard
                                                       ((&&)
                                                         ((&&)
                                                           (at_pc s a0 R1) co)
                                                         (Z.eqb
                                                           (Z.shiftr v (Zpos
                                                             XH))
                                                           (Z.of_nat me.cdis)))
                                                       (go ((Choose (a0,
                                                         false)) :: ((Step
                                                         a0) :: [])) x)
                                         | S n0 -> ok (set_kdis x a0 n0))
                                 | _ -> None)
                              | _ -> None)
                           | _ -> None)
                        | XO p2 ->
                          (match p2 with
                           | XI p3 ->
                             (match p3 with
                              | XI _ -> None
                              | XO p4 ->
                                (match p4 with
                                 | XH ->
                                   if outside s x a0
                                   then ok x
                                   else guard
                                          ((&&) (negb (zb v))
                                            (Z.eqb (x.opk b) o))
                                          (if phis x a0 (S (S (S O)))
                                           then ok (set_ph x a0 O)
                                           else guard
                                                  ((&&)
                                                    (phis x a0 (S (S (S (S (S
                                                      (S O)))))))
                                                    (at_pc s a0 WW)) (Some
                                                  { acts =
                                                  (app (tick_to s a0)
                                                    ((Resume a0) :: []));
                                                  post = (fun s' ->
                                                  at_pc s' a0 D2); nxt =
                                                  (fun _ -> set_ph x a0 O) }))
                                 | _ -> None)
                              | XH ->
                                if at_pc s a0 Idle
                                then guard
                                       ((&&) (phis x a0 O)
                                         (eqb
                                           (match s.q with
                                            | [] -> false
                                            | _ :: _ -> true) (zb v)))
                                       (go ((NotifyOne a0) :: ((Step
                                         a0) :: [])) x)
                                else guard
                                       ((&&) (at_pc s a0 K1)
                                         (eqb
                                           (match s.q with
                                            | [] -> false
                                            | _ :: _ -> true) (zb v)))
                                       (go ((Step a0) :: []) x))
                           | XO p3 ->
                             (match p3 with
                              | XO p4 ->
                                (match p4 with
                                 | XH ->
                                   if (||) (outside s x a0) (in_tail s x a0)
                                   then ok x
                                   else if at_pc s a0 K4
                                        then guard (eqb (s.bk w).rel (zb v))
                                               (match bind_obj x.orl w o with
                                                | Some m ->
                                                  go ((Step a0) :: [])
                                                    (set_orl x m)
                                                | None -> None)
                                        else guard
                                               ((&&) (at_pc s a0 E4)
                                                 (eqb (s.bk b).rel (zb v)))
                                               (match bind_obj x.orl b o with
                                                | Some m ->
                                                  go ((Step a0) :: [])
                                                    (set_orl x m)
                                                | None -> None)
                                 | _ -> None)
                              | _ -> None)
                           | XH ->
                             if outside s x a0
                             then ok x
                             else guard
                                    ((&&)
                                      ((&&) (at_pc s a0 WP) (phis x a0 O))
                                      (Nat.eqb (x.kind a0) (S O)))
                                    (match bind_obj x.opk b o with
                                     | Some m ->
                                       Some { acts = ((Step a0) :: []);
                                         post = (fun s' ->
                                         (||) (at_pc s' a0 WW) (at_pc s' a0 L));
                                         nxt = (fun s' ->
                                         set_ph (set_opk x m) a0
                                           (if at_pc s' a0 WW
                                            then S O
                                            else S (S (S (S (S (S (S (S
                                                   O))))))))) }
                                     | None -> None))
                        | XH ->
                          guard
                            ((&&)
                              ((||) (at_pc s a0 Dead)
                                ((&&) (at_pc s a0 Idle) (negb (holds s a0))))
                              co) (ok (set_gone x a0)))
                     | XH ->
                       guard
                         ((&&)
                           ((&&) ((&&) (at_pc s a0 Idle) (holds s a0))
                             (phis x a0 O)) (Z.eqb (Z.of_nat me.ares) o))
                         (ok x))
                  | XO p0 ->
                    (match p0 with
                     | XI p1 ->
                       (match p1 with
                        | XI p2 ->
                          (match p2 with
                           | XI p3 ->
                             (match p3 with
                              | XH ->
                                if (||) (outside s x a0) (in_tail s x a0)
                                then ok x
                                else guard
                                       ((&&)
                                         ((||) (at_pc s a0 K2)
                                           (at_pc s a0 A2)) (zb v))
                                       (match bind_obj x.ou w o with
                                        | Some m ->
                                          go ((Step a0) :: []) (set_ou x m)
                                        | None -> None)
                              | _ -> None)
                           | XO p3 ->
                             (match p3 with
                              | XI _ -> None
                              | XO p4 ->
                                (match p4 with
                                 | XO p5 ->
                                   (match p5 with
                                    | XH -> ok x
                                    | _ -> None)
                                 | _ -> None)
                              | XH ->
                                guard (at_pc s a0 W1) (go ((Step a0) :: []) x))
                           | XH -> None)
                        | XO p2 ->
                          (match p2 with
                           | XI p3 ->
                             (match p3 with
                              | XI _ -> None
                              | XO p4 ->
                                (match p4 with
                                 | XH ->
                                   if outside s x a0
                                   then ok x
                                   else guard
                                          ((&&) (Z.eqb (x.opk b) o)
                                            (eqb (s.bk b).tok (zb v)))
                                          (if phis x a0 (S (S (S (S (S O)))))
                                           then guard (at_pc s a0 WP) (Some
                                                  { acts = ((Step a0) :: []);
                                                  post = (fun s' ->
                                                  if zb v
                                                  then at_pc s' a0 D2
                                                  else at_pc s' a0 WW); nxt =
                                                  (fun _ ->
                                                  set_ph x a0
                                                    (if zb v
                                                     then O
                                                     else S (S O))) })
                                           else guard
                                                  ((&&)
                                                    (phis x a0 (S (S (S (S (S
                                                      (S (S O))))))))
                                                    (at_pc s a0 WW)) (Some
                                                  { acts =
                                                  (app (tick_to s a0)
                                                    ((Resume a0) :: []));
                                                  post = (fun s' ->
                                                  at_pc s' a0 D2); nxt =
                                                  (fun _ -> set_ph x a0 O) }))
                                 | _ -> None)
                              | XH ->
                                if at_pc s a0 Idle
                                then guard
                                       ((&&) (phis x a0 O)
                                         (eqb
                                           (match s.q with
                                            | [] -> false
                                            | _ :: _ -> true) (zb v)))
                                       (go ((NotifyAll a0) :: ((Step
                                         a0) :: [])) x)
                                else guard
                                       ((&&) (at_pc s a0 A1)
                                         (eqb
                                           (match s.q with
                                            | [] -> false
                                            | _ :: _ -> true) (zb v)))
                                       (go ((Step a0) :: []) x))
                           | XO p3 ->
                             (match p3 with
                              | XI p4 ->
                                (match p4 with
                                 | XH ->
                                   if at_pc s a0 W2
                                   then go ((Step a0) :: [])
                                          (set_tail x a0 true)
                                   else if at_pc s a0 C1
                                        then go ((Step a0) :: []) x
                                        else if (&&)
                                                  ((&&)
                                                    ((&&) (at_pc s a0 R2)
                                                      me.aerr) co)
                                                  (Nat.eqb (x.kdis a0) O)
                                             then go ((Choose (a0,
                                                    true)) :: ((Step
                                                    a0) :: [])) x
                                             else if (&&)
                                                       ((&&)
                                                         (at_pc s a0 Idle)
                                                         (holds s a0))
                                                       (phis x a0 O)
                                                  then go ((Unlock (a0,
                                                         (x.pzn a0))) :: [])
                                                         (set_pzn x a0 false)
                                                  else guard
                                                         ((||)
                                                           (outside s x a0)
                                                           (in_tail s x a0))
                                                         (ok x)
                                 | _ -> None)
                              | _ -> None)
                           | XH ->
                             if phis x a0 (S (S (S (S (S (S (S (S O))))))))
                             then guard ((&&) (zb v) (Z.eqb (x.opk b) o))
                                    (ok (set_verd x a0 O false))
                             else if phis x a0 (S O)
                                  then guard
                                         ((&&) (at_pc s a0 WW)
                                           (Z.eqb (x.opk b) o))
                                         (if zb v
                                          then Some { acts = ((Resume
                                                 a0) :: []); post =
                                                 (fun s' ->
                                                 (&&) (at_pc s' a0 L)
                                                   (s'.a a0).rtok); nxt =
                                                 (fun _ ->
                                                 set_verd x a0 O false) }
                                          else Some { acts =
                                                 (app (tick_to s a0) ((Resume
                                                   a0) :: [])); post =
                                                 (fun s' ->
                                                 (&&) (at_pc s' a0 L)
                                                   (s'.a a0).rtmo); nxt =
                                                 (fun _ ->
                                                 set_verd x a0 O true) })
                                  else guard (outside s x a0) (ok x))
                        | XH -> None)
                     | XO p1 ->
                       (match p1 with
                        | XI p2 ->
                          (match p2 with
                           | XI p3 ->
                             (match p3 with
                              | XI p4 ->
                                (match p4 with
                                 | XH ->
                                   if outside s x a0
                                   then ok x
                                   else if (&&)
                                             ((||) (at_pc s a0 D0)
                                               (at_pc s a0 D2))
                                             (Nat.eqb (x.kdis a0) O)
                                        then guard
                                               (Z.eqb (Z.shiftr v (Zpos XH))
                                                 (Z.of_nat me.cdis))
                                               (go ((Step a0) :: []) x)
                                        else ok
                                               (set_kdis x a0 (S (x.kdis a0)))
                                 | _ -> None)
                              | _ -> None)
                           | XO p3 ->
                             (match p3 with
                              | XI p4 ->
                                (match p4 with
                                 | XH ->
                                   guard
                                     ((&&) (at_pc s a0 Idle) (holds s a0))
                                     (ok (set_pzn x a0 true))
                                 | _ -> None)
                              | XO _ -> None
                              | XH ->
                                guard
                                  ((&&)
                                    ((&&)
                                      ((&&)
                                        ((&&) (at_pc s a0 Idle) (holds s a0))
                                        (phis x a0 O))
                                      (negb (Nat.eqb (x.kind a0) O)))
                                    (eqb (negb s.bound) (zb v)))
                                  (go ((Wait (a0, co,
                                    (match x.pend a0 with
                                     | Some d -> d
                                     | None -> None))) :: ((Step a0) :: []))
                                    (set_pend x a0 None)))
                           | XH -> None)
                        | XO p2 ->
                          (match p2 with
                           | XI p3 ->
                             (match p3 with
                              | XO p4 ->
                                (match p4 with
                                 | XH ->
                                   if outside s x a0
                                   then ok x
                                   else (match bind_obj x.opk b o with
                                         | Some m ->
                                           guard
                                             ((&&) co
                                               (eqb (s.bk b).tok (zb v)))
                                             (if phis x a0 O
                                              then guard (at_pc s a0 WP)
                                                     (if zb v
                                                      then Some { acts =
                                                             ((Step
                                                             a0) :: []);
                                                             post =
                                                             (fun s' ->
                                                             at_pc s' a0 D2);
                                                             nxt = (fun _ ->
                                                             set_ph
                                                               (set_opk x m)
                                                               a0 (S (S (S
                                                               O)))) }
                                                      else Some { acts = [];
                                                             post = (fun _ ->
                                                             true); nxt =
                                                             (fun _ ->
                                                             set_ph
                                                               (set_opk x m)
                                                               a0 (S (S (S (S
                                                               (S O)))))) })
                                              else guard
                                                     ((&&)
                                                       (phis x a0 (S (S O)))
                                                       (at_pc s a0 WW)) (Some
                                                     { acts = []; post =
                                                     (fun _ -> true); nxt =
                                                     (fun _ ->
                                                     set_ph x a0
                                                       (if zb v
                                                        then S (S (S (S (S (S
                                                               O)))))
                                                        else S (S (S (S (S (S
                                                               (S O)))))))) }))
                                         | None -> None)
                                 | _ -> None)
                              | _ -> None)
                           | XO p3 ->
                             (match p3 with
                              | XO p4 ->
                                (match p4 with
                                 | XH ->
                                   if outside s x a0
                                   then ok x
                                   else guard ((&&) (at_pc s a0 E2) (zb v))
                                          (match bind_obj x.orl b o with
                                           | Some m ->
                                             go ((Step a0) :: [])
                                               (set_orl x m)
                                           | None -> None)
                                 | _ -> None)
                              | _ -> None)
                           | XH -> None)
                        | XH ->
                          (match x.byk (Z.to_nat o) with
                           | O -> ok (set_prec x (Z.to_nat o))
                           | S t -> go ((Cancel t) :: []) x))
                     | XH ->
                       guard ((&&) (at_pc s a0 Idle) (holds s a0)) (Some
                         { acts = []; post = (fun _ -> true); nxt = (fun _ ->
                         set_pend x a0 (Some
                           (if Z.testbit o Z0 then Some v else None))) }))
                  | XH ->
                    guard
                      ((&&) ((&&) (at_pc s a0 Idle) (Nat.eqb (x.kind a0) O))
                        ((||) (Z.eqb v (Zpos XH)) (Z.eqb v (Zpos (XO XH)))))
                      (Some { acts =
                      (if x.prec (Z.to_nat o) then (Cancel a0) :: [] else []);
                      post = (fun _ -> true); nxt = (fun _ ->
                      set_kind x a0 (Z.to_nat v) (Z.to_nat o)) }))
               | _ -> None)
            | _ :: _ -> None))))

(** val monitors_ok : ast -> bool **)

let monitors_ok sx =
  let s = fst sx in
  Z.eqb (Z.add s.nuser s.nall)
    (Z.add
      (Z.add
        (Z.add (Z.add s.nret (Z.of_nat (length s.hand)))
          (Z.of_nat (length s.giv))) (Z.of_nat (length s.owe))) s.fnone)

type bpcT =
| BIdle
| BIn
| BLoop
| BWait
| BNotify
| BExit
| BExitL
| BGone

type bst = { cs : st; cnt : nat; gen : nat; bpc : (nat -> bpcT);
             lgen : (nat -> nat); bco : (nat -> bool); arr : (nat -> nat);
             ldr : (nat -> nat); ret : (nat -> nat); lret : (nat -> nat);
             inl : nat list; viol : bool }

type baction =
| BArrive of nat * bool
| BStep of nat
| BInner of nat * action
| BEnv of action

(** val bupd : (nat -> 'a1) -> nat -> 'a1 -> nat -> 'a1 **)

let bupd f i v j =
  if Nat.eqb j i then v else f j

(** val holds0 : st -> nat -> bool **)

let holds0 c a0 =
  match c.mx with
  | Some h -> Nat.eqb h a0
  | None -> false

(** val inner_ok : nat -> action -> bool **)

let inner_ok a0 = function
| Step x -> Nat.eqb x a0
| Resume x -> Nat.eqb x a0
| Choose (x, _) -> Nat.eqb x a0
| _ -> false

(** val env_ok : action -> bool **)

let env_ok = function
| Cancel _ -> true
| Tick _ -> true
| _ -> false

(** val pc_idle : pc -> bool **)

let pc_idle = function
| Idle -> true
| _ -> false

(** val pc_dead : pc -> bool **)

let pc_dead = function
| Dead -> true
| _ -> false

(** val set_cs : bst -> st -> bst **)

let set_cs s c =
  { cs = c; cnt = s.cnt; gen = s.gen; bpc = s.bpc; lgen = s.lgen; bco =
    s.bco; arr = s.arr; ldr = s.ldr; ret = s.ret; lret = s.lret; inl = s.inl;
    viol = s.viol }

(** val set_bpc : bst -> nat -> bpcT -> bst **)

let set_bpc s a0 p =
  { cs = s.cs; cnt = s.cnt; gen = s.gen; bpc = (bupd s.bpc a0 p); lgen =
    s.lgen; bco = s.bco; arr = s.arr; ldr = s.ldr; ret = s.ret; lret =
    s.lret; inl = s.inl; viol = s.viol }

(** val bstep : nat -> bst -> baction -> bst option **)

let bstep n0 s = function
| BArrive (a0, co) ->
  (match s.bpc a0 with
   | BIdle ->
     (match step s.cs (Lock a0) with
      | Some c ->
        Some { cs = c; cnt = s.cnt; gen = s.gen; bpc = (bupd s.bpc a0 BIn);
          lgen = s.lgen; bco = (bupd s.bco a0 co); arr = s.arr; ldr = s.ldr;
          ret = s.ret; lret = s.lret; inl = s.inl; viol = s.viol }
      | None -> None)
   | _ -> None)
| BStep a0 ->
  let v = (||) s.viol (negb (holds0 s.cs a0)) in
  (match s.bpc a0 with
   | BIn ->
     if Nat.ltb (S s.cnt) n0
     then Some { cs = s.cs; cnt = (S s.cnt); gen = s.gen; bpc =
            (bupd s.bpc a0 BLoop); lgen = (bupd s.lgen a0 s.gen); bco =
            s.bco; arr = (bupd s.arr s.gen (S (s.arr s.gen))); ldr = s.ldr;
            ret = s.ret; lret = s.lret; inl = (a0 :: s.inl); viol = v }
     else (match step s.cs (NotifyAll a0) with
           | Some c ->
             Some { cs = c; cnt = O; gen = (S s.gen); bpc =
               (bupd s.bpc a0 BNotify); lgen = (bupd s.lgen a0 s.gen); bco =
               s.bco; arr = (bupd s.arr s.gen (S (s.arr s.gen))); ldr =
               (bupd s.ldr s.gen (S (s.ldr s.gen))); ret = s.ret; lret =
               s.lret; inl = s.inl; viol = v }
           | None -> None)
   | BLoop ->
     if Nat.eqb (s.lgen a0) s.gen
     then (match step s.cs (Wait (a0, (s.bco a0), None)) with
           | Some c ->
             Some { cs = c; cnt = s.cnt; gen = s.gen; bpc =
               (bupd s.bpc a0 BWait); lgen = s.lgen; bco = s.bco; arr =
               s.arr; ldr = s.ldr; ret = s.ret; lret = s.lret; inl = s.inl;
               viol = v }
           | None -> None)
     else Some { cs = s.cs; cnt = s.cnt; gen = s.gen; bpc =
            (bupd s.bpc a0 BExit); lgen = s.lgen; bco = s.bco; arr = s.arr;
            ldr = s.ldr; ret = s.ret; lret = s.lret; inl = s.inl; viol = v }
   | BExit ->
     (match step s.cs (Unlock (a0, false)) with
      | Some c ->
        Some { cs = c; cnt = s.cnt; gen = s.gen; bpc = (bupd s.bpc a0 BIdle);
          lgen = s.lgen; bco = s.bco; arr = s.arr; ldr = s.ldr; ret =
          (bupd s.ret (s.lgen a0) (S (s.ret (s.lgen a0)))); lret = s.lret;
          inl = (rm a0 s.inl); viol = s.viol }
      | None -> None)
   | BExitL ->
     (match step s.cs (Unlock (a0, false)) with
      | Some c ->
        Some { cs = c; cnt = s.cnt; gen = s.gen; bpc = (bupd s.bpc a0 BIdle);
          lgen = s.lgen; bco = s.bco; arr = s.arr; ldr = s.ldr; ret = s.ret;
          lret = (bupd s.lret (s.lgen a0) (S (s.lret (s.lgen a0)))); inl =
          s.inl; viol = s.viol }
      | None -> None)
   | _ -> None)
| BInner (a0, c) ->
  if inner_ok a0 c
  then (match s.bpc a0 with
        | BWait ->
          (match step s.cs c with
           | Some c' ->
             Some
               (set_bpc (set_cs s c') a0
                 (if pc_idle (c'.a a0).apc
                  then BLoop
                  else if pc_dead (c'.a a0).apc then BGone else BWait))
           | None -> None)
        | BNotify ->
          (match step s.cs c with
           | Some c' ->
             Some
               (set_bpc (set_cs s c') a0
                 (if pc_idle (c'.a a0).apc then BExitL else BNotify))
           | None -> None)
        | _ -> None)
  else None
| BEnv c ->
  if env_ok c
  then (match step s.cs c with
        | Some c' -> Some (set_cs s c')
        | None -> None)
  else None

(** val binit : bst **)

let binit =
  { cs = init; cnt = O; gen = O; bpc = (fun _ -> BIdle); lgen = (fun _ -> O);
    bco = (fun _ -> false); arr = (fun _ -> O); ldr = (fun _ -> O); ret =
    (fun _ -> O); lret = (fun _ -> O); inl = []; viol = false }

type wpcT =
| WIdle
| WC1
| WC2
| WD0
| WD1
| WDN
| WD2
| WW1
| WW2
| WL0
| WL
| WLw
| WLx
| WRet
| WGone

type wcont =
| KDrop
| KFast
| KSlow

type wst = { wcs : st; wcnt : nat; wpc : (nat -> wpcT); wk : (nat -> wcont);
             wco : (nat -> bool); hl : nat list; wviol : bool; early : 
             bool }

type waction =
| WClone of nat
| WDrop of nat
| WWait of nat * bool
| WGive of nat * nat
| WStep of nat
| WInner of nat * action
| WEnv of action

(** val remove_one : nat -> nat list -> nat list **)

let rec remove_one a0 = function
| [] -> []
| x :: r -> if Nat.eqb x a0 then r else x :: (remove_one a0 r)

(** val has : nat -> nat list -> bool **)

let has a0 l =
  existsb (Nat.eqb a0) l

(** val w_cs : wst -> st -> wst **)

let w_cs s c =
  { wcs = c; wcnt = s.wcnt; wpc = s.wpc; wk = s.wk; wco = s.wco; hl = s.hl;
    wviol = s.wviol; early = s.early }

(** val w_pc : wst -> nat -> wpcT -> wst **)

let w_pc s a0 p =
  { wcs = s.wcs; wcnt = s.wcnt; wpc = (bupd s.wpc a0 p); wk = s.wk; wco =
    s.wco; hl = s.hl; wviol = s.wviol; early = s.early }

(** val w_call : wst -> st -> nat -> wpcT -> wcont -> bool -> wst **)

let w_call s c a0 p k co =
  { wcs = c; wcnt = s.wcnt; wpc = (bupd s.wpc a0 p); wk = (bupd s.wk a0 k);
    wco = (bupd s.wco a0 co); hl = s.hl; wviol = s.wviol; early = s.early }

(** val w_data :
    wst -> st -> nat -> wpcT -> nat -> nat list -> bool -> wst **)

let w_data s c a0 p n0 l v =
  { wcs = c; wcnt = n0; wpc = (bupd s.wpc a0 p); wk = s.wk; wco = s.wco; hl =
    l; wviol = v; early = s.early }

(** val wstep : wst -> waction -> wst option **)

let wstep s = function
| WClone a0 ->
  (match s.wpc a0 with
   | WIdle ->
     if has a0 s.hl
     then (match step s.wcs (Lock a0) with
           | Some c -> Some (w_call s c a0 WC1 KDrop (s.wco a0))
           | None -> None)
     else None
   | _ -> None)
| WDrop a0 ->
  (match s.wpc a0 with
   | WIdle ->
     if has a0 s.hl
     then (match step s.wcs (Lock a0) with
           | Some c -> Some (w_call s c a0 WD1 KDrop (s.wco a0))
           | None -> None)
     else None
   | _ -> None)
| WWait (a0, co) ->
  (match s.wpc a0 with
   | WIdle ->
     if has a0 s.hl
     then (match step s.wcs (Lock a0) with
           | Some c -> Some (w_call s c a0 WW1 KDrop co)
           | None -> None)
     else None
   | _ -> None)
| WGive (a0, a') ->
  (match s.wpc a0 with
   | WIdle ->
     if has a0 s.hl
     then Some { wcs = s.wcs; wcnt = s.wcnt; wpc = s.wpc; wk = s.wk; wco =
            s.wco; hl = (a' :: (remove_one a0 s.hl)); wviol = s.wviol;
            early = s.early }
     else None
   | _ -> None)
| WStep a0 ->
  let v = (||) s.wviol (negb (holds0 s.wcs a0)) in
  (match s.wpc a0 with
   | WC1 -> Some (w_data s s.wcs a0 WC2 (S s.wcnt) (a0 :: s.hl) v)
   | WC2 ->
     (match step s.wcs (Unlock (a0, false)) with
      | Some c -> Some (w_pc (w_cs s c) a0 WIdle)
      | None -> None)
   | WD0 ->
     (match step s.wcs (Lock a0) with
      | Some c -> Some (w_pc (w_cs s c) a0 WD1)
      | None -> None)
   | WD1 ->
     if Nat.eqb (pred s.wcnt) O
     then (match step s.wcs (NotifyAll a0) with
           | Some c ->
             Some (w_data s c a0 WDN (pred s.wcnt) (remove_one a0 s.hl) v)
           | None -> None)
     else Some (w_data s s.wcs a0 WD2 (pred s.wcnt) (remove_one a0 s.hl) v)
   | WD2 ->
     (match step s.wcs (Unlock (a0, false)) with
      | Some c ->
        Some
          (w_pc (w_cs s c) a0
            (match s.wk a0 with
             | KDrop -> WIdle
             | KFast -> WRet
             | KSlow -> WL0))
      | None -> None)
   | WW1 ->
     Some { wcs = s.wcs; wcnt = s.wcnt; wpc = (bupd s.wpc a0 WW2); wk =
       (bupd s.wk a0 (if Nat.eqb s.wcnt (S O) then KFast else KSlow)); wco =
       s.wco; hl = s.hl; wviol = v; early = s.early }
   | WW2 ->
     (match step s.wcs (Unlock (a0, false)) with
      | Some c -> Some (w_pc (w_cs s c) a0 WD0)
      | None -> None)
   | WL0 ->
     (match step s.wcs (Lock a0) with
      | Some c -> Some (w_pc (w_cs s c) a0 WL)
      | None -> None)
   | WL ->
     if Nat.ltb O s.wcnt
     then (match step s.wcs (Wait (a0, (s.wco a0), None)) with
           | Some c ->
             Some { wcs = c; wcnt = s.wcnt; wpc = (bupd s.wpc a0 WLw); wk =
               s.wk; wco = s.wco; hl = s.hl; wviol = v; early = s.early }
           | None -> None)
     else Some { wcs = s.wcs; wcnt = s.wcnt; wpc = (bupd s.wpc a0 WLx); wk =
            s.wk; wco = s.wco; hl = s.hl; wviol = v; early = s.early }
   | WLx ->
     (match step s.wcs (Unlock (a0, false)) with
      | Some c -> Some (w_pc (w_cs s c) a0 WRet)
      | None -> None)
   | WRet ->
     Some { wcs = s.wcs; wcnt = s.wcnt; wpc = (bupd s.wpc a0 WIdle); wk =
       s.wk; wco = s.wco; hl = s.hl; wviol = s.wviol; early =
       ((||) s.early (match s.hl with
                      | [] -> false
                      | _ :: _ -> true)) }
   | _ -> None)
| WInner (a0, c) ->
  if inner_ok a0 c
  then (match s.wpc a0 with
        | WDN ->
          (match step s.wcs c with
           | Some c' ->
             Some
               (w_pc (w_cs s c') a0
                 (if pc_idle (c'.a a0).apc then WD2 else WDN))
           | None -> None)
        | WLw ->
          (match step s.wcs c with
           | Some c' ->
             Some
               (w_pc (w_cs s c') a0
                 (if pc_idle (c'.a a0).apc
                  then WL
                  else if pc_dead (c'.a a0).apc then WGone else WLw))
           | None -> None)
        | _ -> None)
  else None
| WEnv c ->
  if env_ok c
  then (match step s.wcs c with
        | Some c' -> Some (w_cs s c')
        | None -> None)
  else None

(** val winit : wst **)

let winit =
  { wcs = init; wcnt = (S O); wpc = (fun _ -> WIdle); wk = (fun _ -> KDrop);
    wco = (fun _ -> false); hl = (O :: []); wviol = false; early = false }

type cmode =
| MNone
| MBar of nat * bst
| MWg of wst

type caux = { cidx : (nat -> nat); cop : (nat -> nat); cg : (nat -> nat);
              cl : (nat -> bool) }

(** val caux0 : caux **)

let caux0 =
  { cidx = (fun _ -> O); cop = (fun _ -> O); cg = (fun _ -> O); cl =
    (fun _ -> false) }

type pst = cmode * (aux * caux)

(** val p_init : pst **)

let p_init =
  (MNone, (aux0, caux0))

(** val set_cidx : caux -> nat -> nat -> caux **)

let set_cidx y a0 k =
  { cidx = (upd y.cidx a0 k); cop = y.cop; cg = y.cg; cl = y.cl }

(** val set_cop : caux -> nat -> nat -> nat -> caux **)

let set_cop y a0 o g =
  { cidx = y.cidx; cop = (upd y.cop a0 o); cg = (upd y.cg a0 g); cl = y.cl }

(** val set_ret : caux -> nat -> bool -> caux **)

let set_ret y a0 l =
  { cidx = y.cidx; cop = (upd y.cop a0 (S (S O))); cg = y.cg; cl =
    (upd y.cl a0 l) }

(** val bpc_eqb : bpcT -> bpcT -> bool **)

let bpc_eqb x y =
  match x with
  | BIdle -> (match y with
              | BIdle -> true
              | _ -> false)
  | BIn -> (match y with
            | BIn -> true
            | _ -> false)
  | BLoop -> (match y with
              | BLoop -> true
              | _ -> false)
  | BWait -> (match y with
              | BWait -> true
              | _ -> false)
  | BNotify -> (match y with
                | BNotify -> true
                | _ -> false)
  | BExit -> (match y with
              | BExit -> true
              | _ -> false)
  | BExitL -> (match y with
               | BExitL -> true
               | _ -> false)
  | BGone -> (match y with
              | BGone -> true
              | _ -> false)

(** val wpc_eqb : wpcT -> wpcT -> bool **)

let wpc_eqb x y =
  match x with
  | WIdle -> (match y with
              | WIdle -> true
              | _ -> false)
  | WC1 -> (match y with
            | WC1 -> true
            | _ -> false)
  | WC2 -> (match y with
            | WC2 -> true
            | _ -> false)
  | WD0 -> (match y with
            | WD0 -> true
            | _ -> false)
  | WD1 -> (match y with
            | WD1 -> true
            | _ -> false)
  | WDN -> (match y with
            | WDN -> true
            | _ -> false)
  | WD2 -> (match y with
            | WD2 -> true
            | _ -> false)
  | WW1 -> (match y with
            | WW1 -> true
            | _ -> false)
  | WW2 -> (match y with
            | WW2 -> true
            | _ -> false)
  | WL0 -> (match y with
            | WL0 -> true
            | _ -> false)
  | WL -> (match y with
           | WL -> true
           | _ -> false)
  | WLw -> (match y with
            | WLw -> true
            | _ -> false)
  | WLx -> (match y with
            | WLx -> true
            | _ -> false)
  | WRet -> (match y with
             | WRet -> true
             | _ -> false)
  | WGone -> (match y with
              | WGone -> true
              | _ -> false)

(** val bthen :
    bst option -> nat -> bpcT -> (bst -> bst option) -> bst option **)

let bthen r a0 p k =
  match r with
  | Some s1 -> if bpc_eqb (s1.bpc a0) p then k s1 else None
  | None -> None

(** val bl1 :
    nat -> (nat -> bool) -> (nat -> bool) -> bst -> action -> bst option **)

let bl1 n0 co pnd s c = match c with
| Lock a0 ->
  if pnd a0
  then bthen (bstep n0 s (BArrive (a0, (co a0)))) a0 BIn (fun x -> Some x)
  else None
| Unlock (a0, panicking) ->
  if panicking
  then None
  else (match s.bpc a0 with
        | BLoop ->
          bthen (bstep n0 s (BStep a0)) a0 BExit (fun s1 ->
            bthen (bstep n0 s1 (BStep a0)) a0 BIdle (fun x -> Some x))
        | BExit -> bthen (bstep n0 s (BStep a0)) a0 BIdle (fun x -> Some x)
        | BExitL -> bthen (bstep n0 s (BStep a0)) a0 BIdle (fun x -> Some x)
        | _ -> None)
| Wait (a0, co', dur) ->
  (match dur with
   | Some _ -> None
   | None ->
     if eqb co' (s.bco a0)
     then (match s.bpc a0 with
           | BIn ->
             bthen (bstep n0 s (BStep a0)) a0 BLoop (fun s1 ->
               bthen (bstep n0 s1 (BStep a0)) a0 BWait (fun x -> Some x))
           | BLoop -> bthen (bstep n0 s (BStep a0)) a0 BWait (fun x -> Some x)
           | _ -> None)
     else None)
| NotifyOne _ -> None
| NotifyAll a0 ->
  (match s.bpc a0 with
   | BIn -> bthen (bstep n0 s (BStep a0)) a0 BNotify (fun x -> Some x)
   | _ -> None)
| Step a0 -> bstep n0 s (BInner (a0, c))
| Resume a0 -> bstep n0 s (BInner (a0, c))
| Choose (a0, _) -> bstep n0 s (BInner (a0, c))
| _ -> bstep n0 s (BEnv c)

(** val bls :
    nat -> (nat -> bool) -> (nat -> bool) -> bst -> action list -> bst option **)

let rec bls n0 co pnd s = function
| [] -> Some s
| c :: l' ->
  (match bl1 n0 co pnd s c with
   | Some s' -> bls n0 co pnd s' l'
   | None -> None)

(** val wthen :
    wst option -> nat -> (wpcT -> bool) -> (wst -> wst option) -> wst option **)

let wthen r a0 ok0 k =
  match r with
  | Some s1 -> if ok0 (s1.wpc a0) then k s1 else None
  | None -> None

(** val after_data : wpcT -> bool **)

let after_data = function
| WC2 -> true
| WD2 -> true
| WW2 -> true
| WLx -> true
| _ -> false

(** val after_unlock0 : wpcT -> bool **)

let after_unlock0 = function
| WIdle -> true
| WD0 -> true
| WL0 -> true
| WRet -> true
| _ -> false

(** val wl1 : (nat -> bool) -> (nat -> nat) -> wst -> action -> wst option **)

let wl1 co opf s c = match c with
| Lock a0 ->
  (match s.wpc a0 with
   | WIdle ->
     (match opf a0 with
      | O -> None
      | S n0 ->
        (match n0 with
         | O -> wthen (wstep s (WClone a0)) a0 (wpc_eqb WC1) (fun x -> Some x)
         | S n1 ->
           (match n1 with
            | O ->
              wthen (wstep s (WDrop a0)) a0 (wpc_eqb WD1) (fun x -> Some x)
            | S n2 ->
              (match n2 with
               | O ->
                 wthen (wstep s (WWait (a0, (co a0)))) a0 (wpc_eqb WW1)
                   (fun x -> Some x)
               | S _ -> None))))
   | WD0 -> wthen (wstep s (WStep a0)) a0 (wpc_eqb WD1) (fun x -> Some x)
   | WL0 -> wthen (wstep s (WStep a0)) a0 (wpc_eqb WL) (fun x -> Some x)
   | _ -> None)
| Unlock (a0, panicking) ->
  if panicking
  then None
  else (match s.wpc a0 with
        | WC1 ->
          wthen (wstep s (WStep a0)) a0 after_data (fun s1 ->
            wthen (wstep s1 (WStep a0)) a0 after_unlock0 (fun x -> Some x))
        | WC2 -> wthen (wstep s (WStep a0)) a0 after_unlock0 (fun x -> Some x)
        | WD1 ->
          wthen (wstep s (WStep a0)) a0 after_data (fun s1 ->
            wthen (wstep s1 (WStep a0)) a0 after_unlock0 (fun x -> Some x))
        | WD2 -> wthen (wstep s (WStep a0)) a0 after_unlock0 (fun x -> Some x)
        | WW1 ->
          wthen (wstep s (WStep a0)) a0 after_data (fun s1 ->
            wthen (wstep s1 (WStep a0)) a0 after_unlock0 (fun x -> Some x))
        | WW2 -> wthen (wstep s (WStep a0)) a0 after_unlock0 (fun x -> Some x)
        | WL ->
          wthen (wstep s (WStep a0)) a0 after_data (fun s1 ->
            wthen (wstep s1 (WStep a0)) a0 after_unlock0 (fun x -> Some x))
        | WLx -> wthen (wstep s (WStep a0)) a0 after_unlock0 (fun x -> Some x)
        | _ -> None)
| Wait (a0, co', dur) ->
  (match dur with
   | Some _ -> None
   | None ->
     if eqb co' (s.wco a0)
     then (match s.wpc a0 with
           | WL ->
             wthen (wstep s (WStep a0)) a0 (wpc_eqb WLw) (fun x -> Some x)
           | _ -> None)
     else None)
| NotifyOne _ -> None
| NotifyAll a0 ->
  (match s.wpc a0 with
   | WD1 -> wthen (wstep s (WStep a0)) a0 (wpc_eqb WDN) (fun x -> Some x)
   | _ -> None)
| Step a0 -> wstep s (WInner (a0, c))
| Resume a0 -> wstep s (WInner (a0, c))
| Choose (a0, _) -> wstep s (WInner (a0, c))
| _ -> wstep s (WEnv c)

(** val wls :
    (nat -> bool) -> (nat -> nat) -> wst -> action list -> wst option **)

let rec wls co opf s = function
| [] -> Some s
| c :: l' ->
  (match wl1 co opf s c with
   | Some s' -> wls co opf s' l'
   | None -> None)

(** val is_co : aux -> nat -> bool **)

let is_co x a0 =
  Nat.eqb (x.kind a0) (S (S O))

(** val isnil : 'a1 list -> bool **)

let isnil = function
| [] -> true
| _ :: _ -> false

(** val placeholder : nat -> nat **)

let placeholder k =
  add (S (S (S (S (S (S (S (S (S (S (S (S (S (S (S (S (S (S (S (S (S (S (S (S
    (S (S (S (S (S (S (S (S (S (S (S (S (S (S (S (S (S (S (S (S (S (S (S (S
    (S (S O)))))))))))))))))))))))))))))))))))))))))))))))))) k

(** val paccept_ev : pst -> z list -> pst option **)

let paccept_ev p e =
  let (m, p0) = p in
  let (x, y) = p0 in
  (match e with
   | [] -> None
   | code :: l ->
     (match l with
      | [] -> None
      | za :: l0 ->
        (match l0 with
         | [] -> None
         | o :: l1 ->
           (match l1 with
            | [] -> None
            | v :: l2 ->
              (match l2 with
               | [] ->
                 let a0 = Z.to_nat za in
                 if negb x.started
                 then (match m with
                       | MNone ->
                         (match code with
                          | Z0 -> Some (m, ((set_started x), y))
                          | _ -> None)
                       | _ -> None)
                 else (match m with
                       | MNone ->
                         if Z.eqb code (Zpos (XI (XI (XI (XO (XO (XO XH)))))))
                         then if Z.leb (Zpos XH) o
                              then Some ((MBar ((Z.to_nat o), binit)), (x, y))
                              else None
                         else if Z.eqb code (Zpos (XO (XI (XO (XI (XO (XO
                                   XH)))))))
                              then (match wstep winit (WGive (O, a0)) with
                                    | Some s -> Some ((MWg s), (x, y))
                                    | None -> None)
                              else (match plan_ev init x e with
                                    | Some pl ->
                                      if (&&) (isnil pl.acts) (pl.post init)
                                      then Some (m, ((pl.nxt init),
                                             (if Z.eqb code (Zpos XH)
                                              then set_cidx y a0 (Z.to_nat o)
                                              else y)))
                                      else None
                                    | None -> None)
                       | MBar (n0, s) ->
                         if Z.eqb code (Zpos (XO (XO (XO (XI (XO (XO XH)))))))
                         then if (&&)
                                   ((&&) (Nat.eqb (y.cop a0) O)
                                     (bpc_eqb (s.bpc a0) BIdle))
                                   ((||)
                                     (Z.eqb o (Zpos (XI (XI (XI (XI (XI (XI
                                       (XI XH)))))))))
                                     (Nat.eqb s.gen (Z.to_nat o)))
                              then Some (m, (x,
                                     (set_cop y a0 (S O) (Z.to_nat o))))
                              else None
                         else if Z.eqb code (Zpos (XI (XO (XO (XI (XO (XO
                                   XH)))))))
                              then if (&&)
                                        ((&&)
                                          ((&&)
                                            ((&&)
                                              ((&&)
                                                (Nat.eqb (y.cop a0) (S (S O)))
                                                (bpc_eqb (s.bpc a0) BIdle))
                                              (Nat.eqb (y.cg a0) (Z.to_nat o)))
                                            ((||)
                                              (Z.eqb o (Zpos (XI (XI (XI (XI
                                                (XI (XI (XI XH)))))))))
                                              (Nat.eqb (s.lgen a0)
                                                (Z.to_nat o))))
                                          (eqb (y.cl a0) (zb v)))
                                        (Nat.ltb (s.lgen a0) s.gen)
                                   then Some (m, (x, (set_cop y a0 O O)))
                                   else None
                              else if (&&)
                                        (Z.leb (Zpos (XI (XI (XI (XO (XO (XO
                                          XH))))))) code)
                                        (Z.leb code (Zpos (XI (XI (XI (XI (XO
                                          (XO XH))))))))
                                   then None
                                   else (match plan_ev s.cs x e with
                                         | Some pl ->
                                           (match bls n0 (is_co x) (fun i ->
                                                    Nat.eqb (y.cop i) (S O))
                                                    s pl.acts with
                                            | Some s' ->
                                              if pl.post s'.cs
                                              then let y1 =
                                                     if Z.eqb code (Zpos XH)
                                                     then set_cidx y a0
                                                            (Z.to_nat o)
                                                     else y
                                                   in
                                                   let y2 =
                                                     if (&&)
                                                          ((&&)
                                                            (Nat.eqb
                                                              (y.cop a0) (S
                                                              O))
                                                            (negb
                                                              (bpc_eqb
                                                                (s.bpc a0)
                                                                BIdle)))
                                                          (bpc_eqb
                                                            (s'.bpc a0) BIdle)
                                                     then set_ret y1 a0
                                                            (bpc_eqb
                                                              (s.bpc a0)
                                                              BExitL)
                                                     else y1
                                                   in
                                                   Some ((MBar (n0, s')),
                                                   ((pl.nxt s'.cs), y2))
                                              else None
                                            | None -> None)
                                         | None -> None)
                       | MWg s ->
                         if (||)
                              ((||)
                                (Z.eqb code (Zpos (XI (XI (XO (XI (XO (XO
                                  XH))))))))
                                (Z.eqb code (Zpos (XO (XO (XI (XI (XO (XO
                                  XH)))))))))
                              (Z.eqb code (Zpos (XI (XO (XI (XI (XO (XO
                                XH))))))))
                         then if (&&) (Nat.eqb (y.cop a0) O)
                                   (wpc_eqb (s.wpc a0) WIdle)
                              then let s1 =
                                     if has a0 s.hl
                                     then Some s
                                     else wstep s (WGive
                                            ((placeholder (y.cidx a0)), a0))
                                   in
                                   (match s1 with
                                    | Some s2 ->
                                      if has a0 s2.hl
                                      then Some ((MWg s2), (x,
                                             (set_cop y a0
                                               (Z.to_nat
                                                 (Z.sub code (Zpos (XO (XI
                                                   (XO (XI (XO (XO XH)))))))))
                                               O)))
                                      else None
                                    | None -> None)
                              else None
                         else if Z.eqb code (Zpos (XO (XI (XI (XI (XO (XO
                                   XH)))))))
                              then if (&&) (Nat.eqb (y.cop a0) (S (S (S O))))
                                        (wpc_eqb (s.wpc a0) WRet)
                                   then (match wstep s (WStep a0) with
                                         | Some s' ->
                                           Some ((MWg s'), (x,
                                             (set_cop y a0 O O)))
                                         | None -> None)
                                   else None
                              else if Z.eqb code (Zpos (XI (XI (XI (XI (XO
                                        (XO XH)))))))
                                   then if Nat.eqb (y.cop a0) O
                                        then (match wstep s (WGive (a0,
                                                      (placeholder
                                                        (Z.to_nat o)))) with
                                              | Some s' ->
                                                Some ((MWg s'), (x, y))
                                              | None -> None)
                                        else None
                                   else if (&&)
                                             (Z.leb (Zpos (XI (XI (XI (XO (XO
                                               (XO XH))))))) code)
                                             (Z.leb code (Zpos (XI (XI (XI
                                               (XI (XO (XO XH))))))))
                                        then None
                                        else (match plan_ev s.wcs x e with
                                              | Some pl ->
                                                (match wls (is_co x) y.cop s
                                                         pl.acts with
                                                 | Some s' ->
                                                   if pl.post s'.wcs
                                                   then let y1 =
                                                          if Z.eqb code (Zpos
                                                               XH)
                                                          then set_cidx y a0
                                                                 (Z.to_nat o)
                                                          else y
                                                        in
                                                        let y2 =
                                                          if (&&)
                                                               ((&&)
                                                                 ((||)
                                                                   (Nat.eqb
                                                                    (y.cop a0)
                                                                    (S O))
                                                                   (Nat.eqb
                                                                    (y.cop a0)
                                                                    (S (S O))))
                                                                 (negb
                                                                   (wpc_eqb
                                                                    (s.wpc a0)
                                                                    WIdle)))
                                                               (wpc_eqb
                                                                 (s'.wpc a0)
                                                                 WIdle)
                                                          then set_cop y1 a0
                                                                 O O
                                                          else y1
                                                        in
                                                        Some ((MWg s'),
                                                        ((pl.nxt s'.wcs), y2))
                                                   else None
                                                 | None -> None)
                                              | None -> None))
               | _ :: _ -> None)))))

(** val pmon_cs : cmode -> st **)

let pmon_cs = function
| MNone -> init
| MBar (_, s) -> s.cs
| MWg s -> s.wcs

(** val pmonitors_ok : pst -> bool **)

let pmonitors_ok = function
| (m, p0) ->
  let (x, _) = p0 in
  (&&) (monitors_ok ((pmon_cs m), x))
    (match m with
     | MNone -> true
     | MBar (_, s) -> (&&) (negb s.viol) (isnil s.inl)
     | MWg s -> (&&) ((&&) (negb s.wviol) (negb s.early)) (isnil s.hl))

(** val m_init : pst **)

let m_init =
  p_init

(** val m_accept : pst -> z list -> pst option **)

let m_accept =
  paccept_ev

(** val m_final : pst -> bool **)

let m_final =
  pmonitors_ok
