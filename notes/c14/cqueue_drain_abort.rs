// S3: a user panic of a select coroutine that is discovered by the final drain in Cqueue::drop is re-raised
// from inside the destructor and aborts the drain: the cqueue (on the owner's stack) is freed while other
// select coroutines are still running.
use std::sync::atomic::{AtomicBool, AtomicUsize, Ordering::SeqCst};
use std::sync::Arc;
use std::time::Duration;
struct Frame(Arc<AtomicBool>);
impl Drop for Frame { fn drop(&mut self) { self.0.store(false, SeqCst); } }
struct Arm(Arc<AtomicBool>, Arc<AtomicUsize>);
impl Drop for Arm { fn drop(&mut self) { if !self.0.load(SeqCst) { self.1.fetch_add(1, SeqCst); } } }
fn main() {
    may::config().set_workers(2);
    let alive = Arc::new(AtomicBool::new(true));
    let late = Arc::new(AtomicUsize::new(0));
    let (al, lt) = (alive.clone(), late.clone());
    let owner = may::go!(move || {
        let _f = Frame(al.clone());
        let tok = may::select!(
            _ = may::coroutine::sleep(Duration::from_millis(10)) => {},
            _ = may::coroutine::sleep(Duration::from_millis(10)) => panic!("bottom half of arm 1 panics"),
            _g = { let g = Arm(al.clone(), lt.clone()); 
                   // not cancellable for a while: busy work, then a cancellable point
                   let t = std::time::Instant::now(); while t.elapsed() < Duration::from_millis(300) { std::hint::spin_loop(); }
                   may::coroutine::sleep(Duration::from_millis(1)); g } => {}
        );
        println!("select returned {tok}");
    });
    let r = owner.join();
    std::thread::sleep(Duration::from_millis(600));
    println!("owner is_err={} ; select coroutines that finished after the owner's frame was gone: {}", r.is_err(), late.load(SeqCst));
}
