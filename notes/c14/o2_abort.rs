// S1: a cancelled owner of join! with two children aborts the process
// ("panic in a destructor during cleanup"): after the first join the pending cancel is raised; the
// unwinding Drop for Scope joins the second child, the owner parks, is resumed on ANOTHER thread
// (the child's worker), where std::thread::panicking() is false, so check_cancel raises Cancel
// a second time inside the destructor.
use std::time::Duration;
fn main() {
    may::config().set_workers(2);
    let owner = may::go!(move || {
        may::join!(
            may::coroutine::sleep(Duration::from_millis(300)),
            may::coroutine::sleep(Duration::from_millis(100))
        );
        println!("owner: scope returned");
    });
    std::thread::sleep(Duration::from_millis(30));
    unsafe { owner.coroutine().cancel() };
    let r = owner.join();
    println!("owner join is_err={}", r.is_err());
}
