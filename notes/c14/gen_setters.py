#!/usr/bin/env python3
"""prints the `st` record and one setter per field for coq/Rt/ScopeModel.v / CqueueModel.v (pasted into the model file)"""
import sys
def gen(fields, rec="st", mk="mkst"):
    out = []
    out.append(f"Record {rec} := {mk} {{\n  " + ";\n  ".join(f"{n} : {t}" for n, t in fields) + " }.")
    for n, t in fields:
        body = "; ".join((f"{m} := v" if m == n else f"{m} := {m} s") for m, _ in fields)
        out.append(f"Definition set_{n} (s : {rec}) (v : {t}) : {rec} := {{| {body} |}}.")
    return "\n".join(out)
SCOPE = [
 ("pcm","nat -> pc"),("kindm","nat -> kind"),("depthm","nat -> nat"),("frm","nat -> nat -> list nat"),
 ("unwm","nat -> unwst"),("cbitm","nat -> bool"),("dism","nat -> nat"),("jcm","nat -> nat"),("jbm","nat -> nat"),
 ("jexpm","nat -> bool"),("jresm","nat -> jresult"),("awm","nat -> nat"),
 ("jstm","nat -> bool"),("jwakem","nat -> option nat"),("ipktm","nat -> bool"),("pktm","nat -> option nat"),("panm","nat -> option nat"),
 ("joinedm","nat -> bool"),("handlem","nat -> bool"),("parentm","nat -> option nat"),("cdepthm","nat -> nat"),("cleftm","nat -> bool"),
 ("cvalm","nat -> nat"),("outm","nat -> outcome"),("gotm","nat -> nat"),("tkm","nat -> bool"),
 ("tokm","nat -> bool"),("parkedm","nat -> bool"),("reasonm","nat -> option rsn"),("bownerm","nat -> nat"),
 ("nexta","nat"),("nextb","nat")]
if __name__ == "__main__":
    which = sys.argv[1] if len(sys.argv) > 1 else "scope"
    if which == "scope":
        print(gen(SCOPE))
