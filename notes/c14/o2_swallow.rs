// S2: an owner that panics inside coroutine::scope waits for its children in Drop for Scope, i.e. it
// yields WHILE UNWINDING and leaves std::thread::panicking() == true on the thread it ran on.  Another
// scope owner that later runs on that thread does not re-raise its child's panic: its scope returns normally.
use std::sync::atomic::{AtomicBool, Ordering::SeqCst};
use std::sync::Arc;
use std::time::Duration;
fn main() {
    may::config().set_workers(1);
    let swallowed = Arc::new(AtomicBool::new(false));
    let sw = swallowed.clone();
    let a = may::go!(move || {
        may::coroutine::scope(|s| {
            may::go!(s, || may::coroutine::sleep(Duration::from_millis(300)));
            may::coroutine::yield_now();
            panic!("owner A panics; Drop for Scope now waits 300 ms while unwinding");
        });
    });
    let b = may::go!(move || {
        may::coroutine::yield_now();
        may::coroutine::yield_now();
        may::coroutine::scope(|s| {
            may::go!(s, || panic!("child of B panics"));
        });
        // must be unreachable: the child's panic has to be re-raised in B
        sw.store(true, SeqCst);
    });
    let rb = b.join();
    let ra = a.join();
    println!("A is_err={} B is_err={} ; B's scope returned normally although its child panicked: {}", ra.is_err(), rb.is_err(), swallowed.load(SeqCst));
}
