#!/usr/bin/env python3
"""Design aid (NOT a proof): explicit-state exploration of the timer-thread model that coq/Rt/TimerThread.v
formalises, on small instances, to test the invariant clauses and the theorem statements before proving them.
usage: tt_explore.py [MUT=0|1] [NADD] [NDEL] [TMAX] [IVS e.g. 0,1]"""
import sys
from collections import deque, namedtuple

MUT = int(sys.argv[1]) if len(sys.argv) > 1 else 0
NADD = int(sys.argv[2]) if len(sys.argv) > 2 else 2      # adders, one add each
NDEL = int(sys.argv[3]) if len(sys.argv) > 3 else 1      # removers, one del each
TMAX = int(sys.argv[4]) if len(sys.argv) > 4 else 2
IVS = [int(x) for x in (sys.argv[5] if len(sys.argv) > 5 else "0,1").split(",")]
ADDS_PER = int(sys.argv[6]) if len(sys.argv) > 6 else 1

# entry = (id, dl, eff, lk)
S = namedtuple("S", "now lst inuse heap slot tok rq tpc tL tnow tt tcur th aim twake A R used fired removed handles")
# A[a] = (pc, iv, dl, id, head, count)   R[r] = (pc, L, id)
def init():
    return S(0, tuple(() for _ in IVS), tuple(0 for _ in IVS), (), False, False, (), "D1", None, 0, 0, None, None, None, None,
             tuple(("idle", 0, 0, 0, False, 0) for _ in range(NADD)), tuple(("idle", None, 0) for _ in range(NDEL)), (), (), (), ())
def li(L): return IVS.index(L)
def setl(t, i, v): return t[:i] + (v,) + t[i+1:]

def steps(s):
    out = []
    # tick
    if s.now < TMAX: out.append(("tick", s._replace(now=s.now + 1)))
    # adders
    for a, (pc, iv, dl, eid, hd, cnt) in enumerate(s.A):
        def go(npc, **k):
            A2 = k.pop("A", None) or (npc, iv, dl, eid, hd, cnt)
            return s._replace(A=setl(s.A, a, A2), **k)
        if pc == "idle":
            if cnt < ADDS_PER:
                for L in IVS:
                    nid = len(s.used) + 1
                    out.append((f"add{a}", s._replace(A=setl(s.A, a, ("A2", L, s.now + L, nid, False, cnt + 1)), used=s.used + (nid,))))
        elif pc == "A2":
            i = li(iv); out.append((f"a{a}", go("A3", lst=setl(s.lst, i, s.lst[i] + ((eid, dl, s.now + iv, False),)))))
        elif pc == "A3":
            l = s.lst[li(iv)]; h = bool(l) and l[0][0] == eid
            out.append((f"a{a}", go(None, A=("A4", iv, dl, eid, h, cnt))))
        elif pc == "A4":
            i = li(iv); l = tuple((e[0], e[1], e[2], True) if e[0] == eid else e for e in s.lst[i])
            if hd: out.append((f"a{a}", go("A5", lst=setl(s.lst, i, l))))
            else: out.append((f"a{a}", go("idle", lst=setl(s.lst, i, l), handles=s.handles + ((iv, eid),))))
        elif pc == "A5":
            i = li(iv); old = s.inuse[i]
            out.append((f"a{a}", go("A6" if old == 0 else "A7", inuse=setl(s.inuse, i, old + 1))))
        elif pc == "A6": out.append((f"a{a}", go("A7", heap=s.heap + ((dl, iv),))))
        elif pc == "A7":
            if s.slot: out.append((f"a{a}", go("A8", slot=False)))
            else: out.append((f"a{a}", go("idle", handles=s.handles + ((iv, eid),))))
        elif pc == "A8": out.append((f"a{a}", go("idle", tok=True, handles=s.handles + ((iv, eid),))))
    # removers
    for r, (pc, L, eid) in enumerate(s.R):
        def gor(npc, **k): return s._replace(R=setl(s.R, r, (npc, L, eid)), **k)
        if pc == "idle":
            if L is None:
                for h in s.handles:
                    out.append((f"del{r}", s._replace(R=setl(s.R, r, ("R1", h[0], h[1])), handles=tuple(x for x in s.handles if x != h))))
        elif pc == "R1": out.append((f"r{r}", gor("R2", rq=s.rq + ((L, eid, False, r),))))
        elif pc == "R2": out.append((f"r{r}", gor("R3", rq=tuple((x[0], x[1], True, x[3]) if x[3] == r else x for x in s.rq))))
        elif pc == "R3":
            if s.slot: out.append((f"r{r}", gor("R4", slot=False)))
            else: out.append((f"r{r}", gor("done")))
        elif pc == "R4": out.append((f"r{r}", gor("done", tok=True)))
    # timer
    p = s.tpc
    def t(npc, **k): out.append(("t", s._replace(tpc=npc, **k)))
    if p == "D1":
        if s.rq and s.rq[0][2]: t("DR", rq=s.rq[1:], th=(s.rq[0][0], s.rq[0][1]))
        else: t("D2")
    elif p == "D2":
        if not s.rq: t("TN" if MUT else "TS")
        else: t("D3")
    elif p == "D3":
        if s.rq and s.rq[0][2]: t("DR", rq=s.rq[1:], th=(s.rq[0][0], s.rq[0][1]))
        else: t("D3")
    elif p == "DR":
        L, eid = s.th; l = s.lst[li(L)]
        k = [j for j, e in enumerate(l) if e[0] == eid]
        if k and k[0] + 1 < len(l) and l[k[0] + 1][3]: t("DR2")
        else: t("D1", th=None)
    elif p == "DR2":
        L, eid = s.th; i = li(L)
        t("D1", lst=setl(s.lst, i, tuple(e for e in s.lst[i] if e[0] != eid)), removed=s.removed + (eid,), th=None)
    elif p == "TS": t("TE", slot=True)
    elif p == "TE":
        if s.rq: t("TT")
        else: t("PK" if MUT else "TN")
    elif p == "TT":
        if s.slot: t("TU", slot=False)
        else: t("PK" if MUT else "TN")
    elif p == "TU": t("PK" if MUT else "TN", tok=True)
    elif p == "TN": t("SK", tnow=s.now)
    elif p == "SK":
        if not s.heap: t("TS" if MUT else "PK", aim=None)
        else:
            m = min(x[0] for x in s.heap)
            if m > s.tnow: t("TS" if MUT else "PK", aim=m)
            else:
                for x in set(y for y in s.heap if y[0] == m):
                    h = list(s.heap); h.remove(x)
                    t("SI", heap=tuple(h), tL=x[1])
    elif p == "SI": t("P1", inuse=setl(s.inuse, li(s.tL), 0))
    elif p == "P1":
        t("P2" if s.lst[li(s.tL)] else "K1")
    elif p == "P2":
        l = s.lst[li(s.tL)]
        if not l or not l[0][3]: t("P2")
        elif l[0][1] <= s.tnow: t("P3")
        else: t("K1")
    elif p == "P3":
        i = li(s.tL); l = s.lst[i]
        t("PF", lst=setl(s.lst, i, l[1:]), tcur=l[0])
    elif p == "PF": t("P1", fired=s.fired + ((s.tcur[0], s.tcur[1], s.now),), tcur=None)
    elif p == "K1": t("K2" if s.lst[li(s.tL)] else "E1")
    elif p == "K2":
        l = s.lst[li(s.tL)]
        if not l or not l[0][3]: t("K2")
        else: t("F1", tt=l[0][1])
    elif p == "F1":
        i = li(s.tL); old = s.inuse[i]
        t("SH" if old == 0 else "SK", inuse=setl(s.inuse, i, old + 1), **({} if old == 0 else {"tL": None}))
    elif p == "SH": t("SK", heap=s.heap + ((s.tt, s.tL),), tL=None)
    elif p == "E1":
        if s.lst[li(s.tL)]: t("F2")
        else: t("SK", tL=None)
    elif p == "F2":
        i = li(s.tL); old = s.inuse[i]
        t("K3" if old == 0 else "SK", inuse=setl(s.inuse, i, old + 1), **({} if old == 0 else {"tL": None}))
    elif p == "K3": t("K4")
    elif p == "K4":
        l = s.lst[li(s.tL)]
        if not l or not l[0][3]: t("K4")
        else: t("SH", tt=l[0][1])
    elif p == "PK":
        if s.tok: t("D1", tok=False, aim=None)
        else: t("W", twake=(None if s.aim is None else s.aim - s.tnow + s.now))
    elif p == "W":
        if s.tok: t("D1", tok=False, aim=None, twake=None)
        elif s.twake is not None and s.now >= s.twake: t("D1", aim=None, twake=None)
    return out

HOLD_T = ("SI", "P1", "P2", "P3", "PF", "K1", "K2", "F1", "E1", "F2", "K3", "K4", "SH")
AFTER_STORE = (("TE", "TT", "TU", "PK", "W") if MUT else ("TE", "TT", "TU", "TN", "SK", "SI", "P1", "P2", "P3", "PF", "K1", "K2", "F1", "SH", "E1", "F2", "K3", "K4", "PK", "W"))

def holders(s):
    return [a for a, x in enumerate(s.A) if x[0] == "A8"] + [("r", r) for r, x in enumerate(s.R) if x[0] == "R4"] + (["t"] if s.tpc == "TU" else [])

def covering(s, L):
    """adders that will take the handle on behalf of list L"""
    res = []
    for a, (pc, iv, dl, eid, hd, cnt) in enumerate(s.A):
        if iv != L: continue
        l = s.lst[li(L)]
        if pc == "A3" and l and l[0][0] == eid: res.append(a)
        if pc in ("A4", "A5", "A6", "A7") and hd: res.append(a)
    return res

def check(s):
    """returns list of violated clause names"""
    bad = []
    hs = holders(s)
    # H: handle conservation
    if s.tpc in AFTER_STORE and not (s.slot or s.tok or hs): bad.append("H")
    # (not an invariant: an adder may still hold the handle of an earlier round when the timer stores again)
    for i, L in enumerate(IVS):
        l = s.lst[i]
        inheap = [x for x in s.heap if x[1] == L]
        a6 = [a for a, x in enumerate(s.A) if x[0] == "A6" and x[1] == L]
        tsh = 1 if (s.tpc in ("SH",) and s.tL == L) else 0
        tsi = 1 if (s.tpc == "SI" and s.tL == L) else 0
        k34 = 1 if (s.tpc in ("K3", "K4") and s.tL == L) else 0
        # ONCE
        if len(inheap) + len(a6) + tsh + tsi + k34 > 1: bad.append("ONCE")
        # INUSE
        if s.inuse[i] == 0 and (inheap or a6 or tsh or k34): bad.append("INUSE0")
        if s.inuse[i] > 0 and not (inheap or a6 or tsh or tsi or k34): bad.append("INUSE1")
        # heap time below eff
        for (tm, _) in inheap:
            if any(tm > e[2] for e in l): bad.append("HEAPT")
        # sorted eff, eff <= now + L, dl <= eff
        if any(l[j][2] > l[j + 1][2] for j in range(len(l) - 1)): bad.append("SORT")
        if any(e[2] > s.now + L or e[1] > e[2] for e in l): bad.append("EFFB")
        # COV
        if l:
            thold = s.tpc in HOLD_T and s.tL == L
            cov = [a for a in covering(s, L) if s.A[a][0] != "A7"]
            if not (inheap or thold or cov): bad.append("COV")
        # (a)
        if s.tpc in ("PK", "W") and not s.tok and not hs:
            for e in l:
                ok = (s.aim is not None and s.aim <= e[2]) or covering(s, L)
                if not ok: bad.append("A")
            if covering(s, L) and not all(s.aim is not None and s.aim <= e[2] for e in l) and not s.slot: bad.append("A-slot")
    # (d)
    if s.tpc in ("TN", "SK", "SI", "P1", "P2", "P3", "PF", "K1", "K2", "F1", "SH", "E1", "F2", "K3", "K4", "PK", "W") and not MUT:
        if s.rq and not s.tok and not hs:
            if not all(s.R[x[3]][0] in ("R2", "R3") for x in s.rq): bad.append("D")
    # quiescent forms
    quiet = all(x[0] == "idle" for x in s.A) and all(x[0] in ("idle", "done") for x in s.R)
    if quiet and s.tpc == "W" and not s.tok:
        if s.rq: bad.append("Qd")
        for i, L in enumerate(IVS):
            for e in s.lst[i]:
                if s.aim is None or s.aim > e[2]: bad.append("Qa")
    # (b) (c)
    ids = [f[0] for f in s.fired]
    if len(ids) != len(set(ids)): bad.append("C-twice")
    if any(f[1] > f[2] for f in s.fired): bad.append("B-early")
    if set(ids) & set(s.removed): bad.append("C-removed-fired")
    if s.tnow > s.now: bad.append("TNOW")
    # ---- local clauses
    allids = [e[0] for l in s.lst for e in l]
    if len(allids) != len(set(allids)): bad.append("NODUP")
    if any(i not in s.used for i in allids + ids + list(s.removed)): bad.append("USED")
    if set(allids) & (set(ids) | set(s.removed)): bad.append("GONE")
    act = [(a, x) for a, x in enumerate(s.A) if x[0] != "idle"]
    if len(set(x[3] for _, x in act)) != len(act): bad.append("ACT-distinct")
    if any(x[3] not in s.used for _, x in act): bad.append("ACT-used")
    hnd = [h[1] for h in s.handles] + [x[2] for x in s.R if x[0] == "R1"] + [x[1] for x in s.rq] + ([s.th[1]] if s.tpc in ("DR", "DR2") else [])
    if any(x[3] in hnd for _, x in act): bad.append("HND")
    if any(h not in s.used for h in hnd): bad.append("HND-used")
    for a, (pc, iv, dl, eid, hd, cnt) in act:
        l = s.lst[li(iv)]
        mine = [e for e in l if e[0] == eid]
        if pc == "A2":
            if eid in allids or eid in ids or eid in s.removed or (s.tpc == "PF" and s.tcur[0] == eid): bad.append("A2-fresh")
            if dl > s.now + iv: bad.append("A2-dl")
        if pc in ("A3", "A4"):
            if not mine or mine[0][3] or mine[0][1] != dl: bad.append("A34-entry")
        if pc == "A4" and hd and not (l and l[0][0] == eid): bad.append("A4-first")
        if pc in ("A5", "A6") and not hd: bad.append("A56-hd")
        if (pc in ("A5", "A6") or (pc == "A4" and hd)) and any(dl > e[2] for e in l): bad.append("A56-bound")
    if s.tpc in ("F1", "SH") and any(s.tt > e[2] for e in s.lst[li(s.tL)]): bad.append("TL1")
    if s.tpc == "P3":
        l = s.lst[li(s.tL)]
        if not (l and l[0][3] and l[0][1] <= s.tnow): bad.append("TL2")
    if s.tpc == "PF":
        if s.tcur[1] > s.tnow or s.tcur[0] in allids or s.tcur[0] in ids or s.tcur[0] in s.removed or s.tcur[0] not in s.used: bad.append("TL3")
    if s.tpc == "DR2":
        if not any(e[0] == s.th[1] for e in s.lst[li(s.th[0])]): bad.append("TL5")
    if s.tpc in ("PK", "W") and s.aim is not None and s.aim <= s.tnow: bad.append("AIM")
    # every unlinked entry belongs to an adder at A3/A4
    for i, L in enumerate(IVS):
        for e in s.lst[i]:
            if not e[3] and not any(x[0] in ("A3", "A4") and x[3] == e[0] for x in s.A): bad.append("UNLINKED")
    return bad

def main():
    s0 = init()
    seen = {s0: (None, None)}
    dq = deque([s0])
    viol = {}
    n = 0
    while dq:
        s = dq.popleft(); n += 1
        for b in check(s):
            if b not in viol: viol[b] = s
        for (lab, s2) in steps(s):
            if s2 not in seen:
                seen[s2] = (s, lab); dq.append(s2)
        if n % 200000 == 0: print("..", n, len(dq), file=sys.stderr)
    print(f"MUT={MUT} states={len(seen)} violations={sorted(viol)}")
    for b, s in viol.items():
        path = []
        x = s
        while seen[x][0] is not None:
            path.append(seen[x][1]); x = seen[x][0]
        print(b, "depth", len(path), "path:", " ".join(reversed(path)))
        print("   ", s)

main()
