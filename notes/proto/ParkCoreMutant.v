From Coq Require Import List Arith Bool Lia.
Import ListNotations.

(* throwaway feasibility prototype: Park core, unbounded unparkers *)
Inductive loc := Running | InSlot | InRunq.
Inductive ppc := PIdle | PLoad | PSwap | PYield | PAfter | PDone.      (* user half *)
Inductive kpc := KNone | KStore | KRecheck | KTake.                     (* kernel half (subscribe) *)
Inductive upc := UIdle | USwap | UTake.

Record st := { tok : bool; where_ : loc; p : ppc; k : kpc; u : nat -> upc;
               parks_done : nat; unparks_done : nat }.

Definition upd (f : nat -> upc) i v := fun j => if Nat.eqb j i then v else f j.

Inductive act := AP | AK | AU (i : nat) | AW (* worker pops runq and resumes *).

Definition step (s : st) (a : act) : option st :=
  match a with
  | AP => if negb (match where_ s with Running => true | _ => false end) then None else
    match p s with
    | PIdle => Some {| tok := tok s; where_ := Running; p := PLoad; k := k s; u := u s; parks_done := parks_done s; unparks_done := unparks_done s |}
    | PLoad => if tok s
               then Some {| tok := false; where_ := Running; p := PDone; k := k s; u := u s; parks_done := parks_done s; unparks_done := unparks_done s |}
               else Some {| tok := tok s; where_ := Running; p := PSwap; k := k s; u := u s; parks_done := parks_done s; unparks_done := unparks_done s |}
    | PSwap => if tok s
               then Some {| tok := false; where_ := Running; p := PDone; k := k s; u := u s; parks_done := parks_done s; unparks_done := unparks_done s |}
               else Some {| tok := false; where_ := Running; p := PYield; k := k s; u := u s; parks_done := parks_done s; unparks_done := unparks_done s |}
    | PYield => match k s with
                | KNone => Some {| tok := tok s; where_ := Running; p := PAfter; k := KStore; u := u s; parks_done := parks_done s; unparks_done := unparks_done s |}
                | _ => None end
    | PAfter => match k s with
                | KNone => Some {| tok := false; where_ := Running; p := PDone; k := KNone; u := u s; parks_done := parks_done s; unparks_done := unparks_done s |}
                | _ => None end   (* user half only runs once resumed; see AK/AW *)
    | PDone => Some {| tok := tok s; where_ := Running; p := PIdle; k := k s; u := u s; parks_done := S (parks_done s); unparks_done := unparks_done s |}
    end
  | AK => match k s with
    | KNone => None
    | KStore => Some {| tok := tok s; where_ := InSlot; p := p s; k := KRecheck; u := u s; parks_done := parks_done s; unparks_done := unparks_done s |}
    | KRecheck => if false
                  then Some {| tok := tok s; where_ := where_ s; p := p s; k := KTake; u := u s; parks_done := parks_done s; unparks_done := unparks_done s |}
                  else Some {| tok := tok s; where_ := where_ s; p := p s; k := KNone; u := u s; parks_done := parks_done s; unparks_done := unparks_done s |}
    | KTake => match where_ s with
               | InSlot => Some {| tok := tok s; where_ := Running; p := p s; k := KNone; u := u s; parks_done := parks_done s; unparks_done := unparks_done s |}
               | _ => Some {| tok := tok s; where_ := where_ s; p := p s; k := KNone; u := u s; parks_done := parks_done s; unparks_done := unparks_done s |}
               end
    end
  | AU i => match u s i with
    | UIdle => Some {| tok := tok s; where_ := where_ s; p := p s; k := k s; u := upd (u s) i USwap; parks_done := parks_done s; unparks_done := unparks_done s |}
    | USwap => if tok s
               then Some {| tok := true; where_ := where_ s; p := p s; k := k s; u := upd (u s) i UIdle; parks_done := parks_done s; unparks_done := S (unparks_done s) |}
               else Some {| tok := true; where_ := where_ s; p := p s; k := k s; u := upd (u s) i UTake; parks_done := parks_done s; unparks_done := unparks_done s |}
    | UTake => match where_ s with
               | InSlot => Some {| tok := tok s; where_ := InRunq; p := p s; k := k s; u := upd (u s) i UIdle; parks_done := parks_done s; unparks_done := S (unparks_done s) |}
               | _ => Some {| tok := tok s; where_ := where_ s; p := p s; k := k s; u := upd (u s) i UIdle; parks_done := parks_done s; unparks_done := S (unparks_done s) |}
               end
    end
  | AW => match where_ s, k s with
          | InRunq, KNone => Some {| tok := tok s; where_ := Running; p := p s; k := k s; u := u s; parks_done := parks_done s; unparks_done := unparks_done s |}
          | _, _ => None
          end
  end.

Definition init : st := {| tok := false; where_ := Running; p := PIdle; k := KNone; u := fun _ => UIdle; parks_done := 0; unparks_done := 0 |}.

Inductive Reach : st -> Prop :=
| R0 : Reach init
| RS s a s' : Reach s -> step s a = Some s' -> Reach s'.

(* the coroutine sits in the slot with the token set only while somebody is about to take it *)
Definition pending_taker (s : st) : Prop :=
  k s = KRecheck \/ k s = KTake \/ exists i, u s i = UTake.

Definition Inv (s : st) : Prop :=
  (where_ s = InSlot -> tok s = true -> pending_taker s) /\
  (where_ s = InSlot -> p s = PAfter) /\
  (where_ s = InRunq -> p s = PAfter /\ k s <> KStore) /\
  (k s = KStore -> where_ s = Running /\ p s = PAfter) /\
  (k s = KTake -> tok s = true \/ where_ s <> InSlot) /\
  (k s <> KNone -> p s = PAfter).

Lemma upd_same f i v : upd f i v i = v.
Proof. unfold upd. now rewrite Nat.eqb_refl. Qed.
Lemma upd_other f i j v : j <> i -> upd f i v j = f j.
Proof. unfold upd. intros H. destruct (Nat.eqb_spec j i); congruence. Qed.

Lemma inv_init : Inv init.
Proof. unfold Inv, init; cbn; repeat split; intros; try discriminate; try congruence. Qed.


Lemma ex_upd_keep f i v : (exists j, f j = UTake) -> f i <> UTake -> exists j, upd f i v j = UTake.
Proof. intros [j H] N. exists j. rewrite upd_other; auto. intro; subst; congruence. Qed.
Lemma ex_upd_new f i : exists j, upd f i UTake j = UTake.
Proof. exists i. apply upd_same. Qed.

Ltac spec :=
  repeat match goal with
  | H : ?a = ?a -> _ |- _ => specialize (H eq_refl)
  | H : ?A -> _, H' : ?A |- _ => specialize (H H')
  | H : ?x <> ?y -> _ |- _ => let N := fresh "N" in assert (N : x <> y) by congruence; specialize (H N)
  end.
Ltac brk := repeat match goal with
  | H : _ /\ _ |- _ => destruct H
  | H : exists _, _ |- _ => destruct H
  end.
Ltac fin :=
  try discriminate; try congruence; try tauto;
  try (left; congruence); try (right; congruence);
  try (right; right; apply ex_upd_new);
  try (right; right; apply ex_upd_keep; [first [assumption | eexists; eassumption] | congruence]);
  try (intro; spec; brk; congruence).
Ltac crunch :=
  unfold Inv, pending_taker in *; cbn in *; brk; spec; brk;
  repeat split; intros; spec; brk;
  repeat match goal with
  | H : _ \/ _ |- _ => destruct H
  end; fin.


Fixpoint run (s : st) (l : list act) : st :=
  match l with [] => s | a :: l' => match step s a with Some s' => run s' l' | None => run s l' end end.
Lemma run_reach l : forall s, Reach s -> Reach (run s l).
Proof. induction l as [|a l IH]; cbn; intros s R; auto. destruct (step s a) eqn:E; eauto using RS. Qed.
Definition witness := [AP; AP; AP; AP; AU 0; AU 0; AU 0; AK; AK].
Theorem no_lost_wakeup_refuted :
  exists s, Reach s /\ k s = KNone /\ (forall i, u s i = UIdle) /\ where_ s = InSlot /\ tok s = true.
Proof.
  exists (run init witness). split; [apply run_reach, R0|].
  vm_compute. repeat split. intro i. destruct i as [|i]; reflexivity.
Qed.
Print Assumptions no_lost_wakeup_refuted.
