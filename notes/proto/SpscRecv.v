(* Prototype (design-time): the coroutine receive path of may::sync::spsc (finding F6).
   One sender (any number of sends, then drop), one coroutine receiver.  The queue is the
   abstract FIFO length; `fixed` selects the repaired re-check in Park::subscribe. *)
From Coq Require Import List Arith Bool Lia.
Import ListNotations.

Section M.
Variable fixed : bool.

Inductive rpc := RIdle | RPop1 | RChk | RPop2 | RYield | KStore | KRecheck | KTake | RAfter.
(* RPop1: queue.pop; RChk: channels.load; RPop2: re-pop after disconnect; RYield: yield_with;
   kernel half: KStore wait_co.store, KRecheck is_empty (and channels), KTake take+run *)
Inductive spc := SIdle | SPush | STake | SDrop1 | SDrop2 | SGone.
Inductive loc := Running | InSlot | InRunq.

Record st := { qlen : nat; chans : nat; where_ : loc; r : rpc; s : spc;
               got : nat; sent : nat; disc : bool (* receiver observed Disconnected *) }.

Inductive action := Recv | RStep | Send | Drop | SStep | Worker.

Definition step (x : st) (a : action) : option st :=
  match a with
  | Recv => match r x, where_ x with
            | RIdle, Running => if disc x then None else Some {| qlen := qlen x; chans := chans x; where_ := Running; r := RPop1; s := s x; got := got x; sent := sent x; disc := disc x |}
            | _, _ => None end
  | RStep =>
      match where_ x, r x with
      | Running, RPop1 => match qlen x with
                          | S n => Some {| qlen := n; chans := chans x; where_ := Running; r := RIdle; s := s x; got := S (got x); sent := sent x; disc := disc x |}
                          | 0 => Some {| qlen := 0; chans := chans x; where_ := Running; r := RChk; s := s x; got := got x; sent := sent x; disc := disc x |} end
      | Running, RChk => if Nat.ltb 0 (chans x)
                         then Some {| qlen := qlen x; chans := chans x; where_ := Running; r := RYield; s := s x; got := got x; sent := sent x; disc := disc x |}
                         else Some {| qlen := qlen x; chans := chans x; where_ := Running; r := RPop2; s := s x; got := got x; sent := sent x; disc := disc x |}
      | Running, RPop2 => match qlen x with
                          | S n => Some {| qlen := n; chans := chans x; where_ := Running; r := RIdle; s := s x; got := S (got x); sent := sent x; disc := disc x |}
                          | 0 => Some {| qlen := 0; chans := chans x; where_ := Running; r := RIdle; s := s x; got := got x; sent := sent x; disc := true |} end
      | Running, RYield => Some {| qlen := qlen x; chans := chans x; where_ := Running; r := KStore; s := s x; got := got x; sent := sent x; disc := disc x |}
      | Running, KStore => Some {| qlen := qlen x; chans := chans x; where_ := InSlot; r := KRecheck; s := s x; got := got x; sent := sent x; disc := disc x |}
      | _, KRecheck => if negb (Nat.eqb (qlen x) 0) || (fixed && Nat.eqb (chans x) 0)
                       then Some {| qlen := qlen x; chans := chans x; where_ := where_ x; r := KTake; s := s x; got := got x; sent := sent x; disc := disc x |}
                       else Some {| qlen := qlen x; chans := chans x; where_ := where_ x; r := RAfter; s := s x; got := got x; sent := sent x; disc := disc x |}
      | InSlot, KTake => Some {| qlen := qlen x; chans := chans x; where_ := Running; r := RAfter; s := s x; got := got x; sent := sent x; disc := disc x |}
      | _, KTake => Some {| qlen := qlen x; chans := chans x; where_ := where_ x; r := RAfter; s := s x; got := got x; sent := sent x; disc := disc x |}
      | Running, RAfter => (* resumed: the Receiver::recv loop tries again *)
                       Some {| qlen := qlen x; chans := chans x; where_ := Running; r := RPop1; s := s x; got := got x; sent := sent x; disc := disc x |}
      | _, _ => None
      end
  | Send => match s x with
            | SIdle => Some {| qlen := qlen x; chans := chans x; where_ := where_ x; r := r x; s := SPush; got := got x; sent := sent x; disc := disc x |}
            | _ => None end
  | Drop => match s x with
            | SIdle => Some {| qlen := qlen x; chans := chans x; where_ := where_ x; r := r x; s := SDrop1; got := got x; sent := sent x; disc := disc x |}
            | _ => None end
  | SStep =>
      match s x with
      | SPush => Some {| qlen := S (qlen x); chans := chans x; where_ := where_ x; r := r x; s := STake; got := got x; sent := S (sent x); disc := disc x |}
      | STake => Some {| qlen := qlen x; chans := chans x; where_ := (match where_ x with InSlot => InRunq | w => w end); r := r x; s := SIdle; got := got x; sent := sent x; disc := disc x |}
      | SDrop1 => Some {| qlen := qlen x; chans := 0; where_ := where_ x; r := r x; s := SDrop2; got := got x; sent := sent x; disc := disc x |}
      | SDrop2 => Some {| qlen := qlen x; chans := chans x; where_ := (match where_ x with InSlot => InRunq | w => w end); r := r x; s := SGone; got := got x; sent := sent x; disc := disc x |}
      | _ => None
      end
  | Worker => match where_ x, r x with
              | InRunq, RAfter => Some {| qlen := qlen x; chans := chans x; where_ := Running; r := r x; s := s x; got := got x; sent := sent x; disc := disc x |}
              | _, _ => None end
  end.

Definition init : st := {| qlen := 0; chans := 1; where_ := Running; r := RIdle; s := SIdle; got := 0; sent := 0; disc := false |}.
Inductive Reach : st -> Prop := R0 : Reach init | RS x a y : Reach x -> step x a = Some y -> Reach y.
Fixpoint run (x : st) (l : list action) : st :=
  match l with [] => x | a :: l' => match step x a with Some y => run y l' | None => run x l' end end.
Lemma run_reach l : forall x, Reach x -> Reach (run x l).
Proof. induction l as [|a l IH]; cbn; intros x R; auto. destruct (step x a) eqn:E; eauto using RS. Qed.

(* the receiver is suspended and nobody is going to resume it *)
Definition stuck (x : st) : Prop :=
  where_ x = InSlot /\ r x = RAfter /\ (s x = SIdle \/ s x = SGone).
End M.

(* code as is: the receiver hangs although the sender is gone *)
Theorem recv_hang_refuted :
  exists x, Reach false x /\ stuck x /\ chans x = 0 /\ s x = SGone.
Proof.
  exists (run false init [Recv; RStep; RStep; Drop; SStep; SStep; RStep; RStep; RStep]).
  split; [apply run_reach, R0 | vm_compute; intuition].
Qed.

(* repaired: a suspended receiver with data queued or the sender gone always has a pending waker *)
Definition Inv (x : st) : Prop :=
  (s x = SGone -> chans x = 0) /\ (s x = SDrop2 -> chans x = 0) /\
  (chans x = 0 -> s x = SDrop2 \/ s x = SGone) /\
  (where_ x = InSlot -> r x = KRecheck \/ r x = KTake \/ r x = RAfter) /\
  (where_ x = InRunq -> r x = RAfter \/ r x = KRecheck \/ r x = KTake) /\
  (r x = KTake -> where_ x <> Running) /\ (r x = KRecheck -> where_ x <> Running) /\
  (where_ x = InSlot -> r x = RAfter -> (qlen x <> 0 \/ chans x = 0) -> s x = STake \/ s x = SDrop2) /\
  (r x = KTake -> where_ x = InSlot -> True).

Lemma inv_init : Inv init.
Proof. unfold Inv, init; cbn; intuition congruence. Qed.

Lemma inv_step x a y : Inv x -> step true x a = Some y -> Inv y.
Proof.
  unfold Inv. intros I H. destruct a; cbn in H;
    repeat match type of H with
    | context [match ?e with _ => _ end] => destruct e eqn:?
    | context [if ?c then _ else _] => destruct c eqn:?
    end; try discriminate; inversion H; subst; clear H; cbn in *;
    repeat match goal with
    | H : _ || _ = true |- _ => apply orb_prop in H
    | H : _ || _ = false |- _ => apply orb_false_elim in H
    | H : _ && _ = true |- _ => apply andb_prop in H
    | H : negb _ = true |- _ => apply negb_true_iff in H
    | H : negb _ = false |- _ => apply negb_false_iff in H
    | H : (_ =? _) = true |- _ => apply Nat.eqb_eq in H
    | H : (_ =? _) = false |- _ => apply Nat.eqb_neq in H
    | H : (_ <? _) = true |- _ => apply Nat.ltb_lt in H
    | H : (_ <? _) = false |- _ => apply Nat.ltb_ge in H
    | H : _ /\ _ |- _ => destruct H
    end; intuition (try congruence; try lia).
Qed.

Theorem inv_reach x : Reach true x -> Inv x.
Proof. induction 1; eauto using inv_init, inv_step. Qed.

Theorem recv_never_stranded x :
  Reach true x -> stuck x -> qlen x = 0 /\ chans x <> 0.
Proof.
  intros R (W & Rr & Ss). destruct (inv_reach x R) as (_ & _ & _ & _ & _ & _ & _ & I8 & _).
  destruct (Nat.eq_dec (qlen x) 0) as [q0|qn]; [|exfalso; destruct (I8 W Rr (or_introl qn)) as [E|E]; destruct Ss; congruence].
  split; auto. intro c0. destruct (I8 W Rr (or_intror c0)) as [E|E]; destruct Ss; congruence.
Qed.
Print Assumptions recv_hang_refuted.
Print Assumptions recv_never_stranded.
