From Coq Require Import List ZArith Bool. Import ListNotations. Open Scope Z_scope.
Require Import SM.SemModel.
Definition sch := [Wait 0 false; Step 0; Step 0; Step 0; Step 0;   Wait 1 true; Step 1; Step 1; Step 1; Step 1; Fire 1; Step 1; Step 1; Step 1; Step 1;
                   Post 2; Step 2; Step 2; Step 2; Step 2; Step 2; Step 0;   Post 3; Step 3; Step 3; Step 3; Step 3; Step 3; Step 3].
Eval vm_compute in (let s := run (init 0) sch in (cnt s, uposts s, succ s, (ung s, giv s, pre s, hand s, owe s), q s)).
