From Coq Require Import List ZArith Bool. Import ListNotations. Open Scope Z_scope.
Require Import SM.SemModel.
(* A waits, B wait_timeout times out, user post wakes A, second post flushes B's stale entry *)
Definition sch := [Wait 0 false; Step 0; Step 0; Step 0; Step 0;   Wait 1 true; Step 1; Step 1; Step 1; Step 1; Fire 1; Step 1; Step 1; Step 1; Step 1;
                   Post 2; Step 2; Step 2; Step 2; Step 2; Step 2; Step 0;   Post 3; Step 3; Step 3; Step 3; Step 3; Step 3; Step 3].
Eval vm_compute in (let s := run (init 0) sch in (cnt s, uposts s, succ s, debt s, length (q s), apc (A s 0), apc (A s 1), apc (A s 2), apc (A s 3))).
