From Coq Require Import List Arith Bool Lia.
Import ListNotations.
Require Import LV.ListCore LV.ListInv LV.ListPres1 LV.ListPres2 LV.ListPresQ0 LV.ListPresQ1 LV.ListPresQ2 LV.ListPresQ3 LV.ListPresKP2 LV.ListPresKR1.

Lemma inv_step s a s' : Inv s -> step s a = Some s' -> Inv s'.
Proof.
  intros Hi H. destruct a as [p | p | | y | n | ].
  - eapply inv_step_frames; eauto. exact I.
  - destruct (qp (P s p)) eqn:Eq.
    + unfold step in H. rewrite Eq in H. discriminate.
    + eapply inv_q0; eauto.
    + eapply inv_q1; eauto.
    + eapply inv_q2; eauto.
    + eapply inv_q3; eauto.
  - eapply inv_step_frames; eauto. exact I.
  - eapply inv_step_frames; eauto. exact I.
  - eapply inv_step_frames; eauto. exact I.
  - destruct (kp s) eqn:Ek.
    + unfold step in H. rewrite Ek in H. discriminate.
    + eapply inv_kstep_easy; eauto; congruence.
    + eapply inv_kstep_easy; eauto; congruence.
    + eapply inv_kp2; eauto.
    + eapply inv_kstep_easy; eauto; congruence.
    + destruct (nnext (nd s (kn s))) as [x|] eqn:Enx; [destruct (nprev (nd s (kn s))) as [pr|] eqn:Epv|].
      * eapply inv_kr1; eauto.
      * eapply inv_kstep_easy; eauto; try congruence.
      * eapply inv_kstep_easy; eauto; try congruence.
Qed.

Theorem inv_reach s : Reach s -> Inv s.
Proof. induction 1; eauto using inv_init, inv_step. Qed.

(* C19 (i)/(ii): every entry is consumed at most once -- by pop/pop_if or by remove(), never both,
   never twice; a remove() of an already consumed entry hands out nothing *)
Theorem consumed_at_most_once s n : Reach s -> cons (nd s n) <= 1.
Proof.
  intros R. pose proof (inv_reach s R) as Hi. destruct (N8 _ Hi) as (a & b).
  destruct (Nat.lt_ge_cases n (nn s)) as [L|L]; [|rewrite (G4 _ Hi n L); cbn; lia].
  destruct (inch (nd s n)) eqn:Ei.
  - destruct (Nat.eq_dec n (tail s)) as [->|ne].
    + destruct (Nat.eq_dec (tail s) 0) as [e|ne0]; [rewrite e, b; lia | rewrite a; lia].
    + destruct (NI _ Hi n Ei ne) as (_&_&_&_&_&_&_&_&c&_). lia.
  - destruct (Nat.eq_dec n 0) as [->|ne0]; [lia|]. destruct (N7 _ Hi n L Ei) as (_&c). rewrite c; lia.
Qed.

(* C19 (i): pops come out in push (swap) order *)
Theorem pops_in_push_order s : Reach s -> bad_order s = false.
Proof. intros R. apply (GM _ (inv_reach s R)). Qed.

(* C19 (iv): head report, claims (a) and (c) *)
Theorem head_report_claims s : Reach s -> bad_head s = false.
Proof. intros R. apply (GM _ (inv_reach s R)). Qed.

(* the code's assertions that the value is still there: a value is present whenever it is taken *)
Theorem value_present_when_taken s : Reach s -> bad_val s = false.
Proof. intros R. apply (GM _ (inv_reach s R)). Qed.

Print Assumptions consumed_at_most_once.
Print Assumptions head_report_claims.
