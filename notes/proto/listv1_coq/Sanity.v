From Coq Require Import List Arith Bool. Import ListNotations.
Require Import LV.ListCore.
(* two pushes, remove the first (middle removal), pop the second, remove again, pop on empty *)
Definition sch := [Push 0; PStep 0; PStep 0; PStep 0; PStep 0; Push 1; PStep 1; PStep 1; PStep 1; PStep 1;
                   Remove 1; KStep; KStep; Pop; KStep; KStep; KStep; Remove 1; KStep; Remove 2; KStep; Pop; KStep].
Eval vm_compute in (let s := run init sch in (tail s, head s, cons (nodes s 1), cons (nodes s 2), lastpop s, (bad_order s, bad_head s, bad_val s))).
