(* Prototype (design-time): consumption core of may_queue::mpsc_list_v1 (C19).
   Nodes are numbered in swap order (0 = initial stub).  Producers: swap head / set prev /
   link prev.next / read the consumer position (head report).  Single consumer: pop, pop_if
   (both outcomes), remove(handle).  Reference counts / freeing are left to the real model. *)
From Coq Require Import List Arith Bool Lia.
Import ListNotations.

Record node := { nprev : option nat; nnext : option nat; nval : bool; nlink : bool;
                 stage : nat;      (* ghost: 2 = swapped, 1 = prev set, 0 = linked *)
                 inch : bool;      (* ghost: still in the chain (not consumed; or it is the stub) *)
                 gpred : nat;      (* ghost: current predecessor in the chain *)
                 cons : nat;       (* ghost: how many times its value was handed out *)
                 ret : bool }.     (* ghost: push has returned its handle *)
Inductive ppc := QIdle | Q0 | Q1 | Q2 | Q3.
Record pst := { qp : ppc; qn : nat; qprev : nat; qempty : bool }.
Inductive kpc := KIdle | KP0 (popif : bool) (yes : bool) | KP1 (popif : bool) (yes : bool) | KP2 | KR0 | KR1.

Record st := { nodes : nat -> node; nn : nat; head : nat; tail : nat;
               P : nat -> pst; kp : kpc; kn : nat;
               lastpop : nat; bad_order : bool; bad_head : bool; bad_val : bool }.

Definition upd {X} (f : nat -> X) i v := fun j => if Nat.eqb j i then v else f j.
Definition fresh (h : nat) := {| nprev := None; nnext := None; nval := true; nlink := true; stage := 2; inch := true; gpred := h; cons := 0; ret := false |}.
Definition set_node (s : st) (f : nat -> node) :=
  {| nodes := f; nn := nn s; head := head s; tail := tail s; P := P s; kp := kp s; kn := kn s;
     lastpop := lastpop s; bad_order := bad_order s; bad_head := bad_head s; bad_val := bad_val s |}.

Inductive action := Push (p : nat) | PStep (p : nat) | Pop | PopIf (yes : bool) | Remove (n : nat) | KStep.

Definition step (s : st) (a : action) : option st :=
  match a with
  | Push p => match qp (P s p) with
              | QIdle => Some {| nodes := nodes s; nn := nn s; head := head s; tail := tail s;
                                 P := upd (P s) p {| qp := Q0; qn := 0; qprev := 0; qempty := false |};
                                 kp := kp s; kn := kn s; lastpop := lastpop s; bad_order := bad_order s; bad_head := bad_head s; bad_val := bad_val s |}
              | _ => None end
  | PStep p =>
      let x := P s p in
      match qp x with
      | QIdle => None
      | Q0 => (* node alloc + head.swap *)
          let n := nn s in
          Some {| nodes := upd (nodes s) n (fresh (head s)); nn := S n; head := n; tail := tail s;
                  P := upd (P s) p {| qp := Q1; qn := n; qprev := head s; qempty := Nat.eqb (head s) (tail s) |};
                  kp := kp s; kn := kn s; lastpop := lastpop s; bad_order := bad_order s; bad_head := bad_head s; bad_val := bad_val s |}
      | Q1 => let nd := nodes s (qn x) in
          Some {| nodes := upd (nodes s) (qn x) {| nprev := Some (qprev x); nnext := nnext nd; nval := nval nd; nlink := nlink nd; stage := 1; inch := inch nd; gpred := gpred nd; cons := cons nd; ret := ret nd |};
                  nn := nn s; head := head s; tail := tail s;
                  P := upd (P s) p {| qp := Q2; qn := qn x; qprev := qprev x; qempty := qempty x |};
                  kp := kp s; kn := kn s; lastpop := lastpop s; bad_order := bad_order s; bad_head := bad_head s; bad_val := bad_val s |}
      | Q2 => let pd := nodes s (qprev x) in let nd := nodes s (qn x) in
          let f1 := upd (nodes s) (qprev x) {| nprev := nprev pd; nnext := Some (qn x); nval := nval pd; nlink := nlink pd; stage := stage pd; inch := inch pd; gpred := gpred pd; cons := cons pd; ret := ret pd |} in
          let nd1 := f1 (qn x) in
          Some {| nodes := upd f1 (qn x) {| nprev := nprev nd1; nnext := nnext nd1; nval := nval nd1; nlink := nlink nd1; stage := 0; inch := inch nd1; gpred := gpred nd1; cons := cons nd1; ret := ret nd1 |};
                  nn := nn s; head := head s; tail := tail s;
                  P := upd (P s) p {| qp := Q3; qn := qn x; qprev := qprev x; qempty := qempty x |};
                  kp := kp s; kn := kn s; lastpop := lastpop s; bad_order := bad_order s; bad_head := bad_head s; bad_val := bad_val s |}
      | Q3 => (* read the consumer position: is_head := tail == prev *)
          let nd := nodes s (qn x) in
          let flag := Nat.eqb (tail s) (qprev x) in
          let claimA := implb (qempty x && Nat.eqb (cons nd) 0) flag in
          let claimC := implb flag (Nat.eqb (cons nd) 0 && inch nd && Nat.eqb (gpred nd) (tail s)) in
          Some {| nodes := upd (nodes s) (qn x) {| nprev := nprev nd; nnext := nnext nd; nval := nval nd; nlink := nlink nd; stage := stage nd; inch := inch nd; gpred := gpred nd; cons := cons nd; ret := true |};
                  nn := nn s; head := head s; tail := tail s;
                  P := upd (P s) p {| qp := QIdle; qn := qn x; qprev := qprev x; qempty := qempty x |};
                  kp := kp s; kn := kn s; lastpop := lastpop s; bad_order := bad_order s;
                  bad_head := bad_head s || negb (claimA && claimC); bad_val := bad_val s |}
      end
  | Pop => match kp s with KIdle => Some {| nodes := nodes s; nn := nn s; head := head s; tail := tail s; P := P s; kp := KP0 false true; kn := 0; lastpop := lastpop s; bad_order := bad_order s; bad_head := bad_head s; bad_val := bad_val s |} | _ => None end
  | PopIf yes => match kp s with KIdle => Some {| nodes := nodes s; nn := nn s; head := head s; tail := tail s; P := P s; kp := KP0 true yes; kn := 0; lastpop := lastpop s; bad_order := bad_order s; bad_head := bad_head s; bad_val := bad_val s |} | _ => None end
  | Remove n => match kp s with
                | KIdle => if ret (nodes s n) then Some {| nodes := nodes s; nn := nn s; head := head s; tail := tail s; P := P s; kp := KR0; kn := n; lastpop := lastpop s; bad_order := bad_order s; bad_head := bad_head s; bad_val := bad_val s |} else None
                | _ => None end
  | KStep =>
      match kp s with
      | KIdle => None
      | KP0 pi yes =>
          if Nat.eqb (head s) (tail s)
          then Some {| nodes := nodes s; nn := nn s; head := head s; tail := tail s; P := P s; kp := KIdle; kn := 0; lastpop := lastpop s; bad_order := bad_order s; bad_head := bad_head s; bad_val := bad_val s |}
          else let td := nodes s (tail s) in
               (* pop() clears the stub's link bit before spinning; pop_if only when it pops *)
               Some {| nodes := (if pi then nodes s else upd (nodes s) (tail s) {| nprev := nprev td; nnext := nnext td; nval := nval td; nlink := false; stage := stage td; inch := inch td; gpred := gpred td; cons := cons td; ret := ret td |});
                       nn := nn s; head := head s; tail := tail s; P := P s; kp := KP1 pi yes; kn := 0; lastpop := lastpop s; bad_order := bad_order s; bad_head := bad_head s; bad_val := bad_val s |}
      | KP1 pi yes =>
          match nnext (nodes s (tail s)) with
          | None => Some s       (* spin *)
          | Some x => if yes
                      then Some {| nodes := nodes s; nn := nn s; head := head s; tail := tail s; P := P s; kp := KP2; kn := x; lastpop := lastpop s; bad_order := bad_order s; bad_head := bad_head s; bad_val := bad_val s |}
                      else Some {| nodes := nodes s; nn := nn s; head := head s; tail := tail s; P := P s; kp := KIdle; kn := 0; lastpop := lastpop s; bad_order := bad_order s; bad_head := bad_head s; bad_val := bad_val s |}
          end
      | KP2 => let x := kn s in let xd := nodes s x in let td := nodes s (tail s) in
          let f1 := upd (nodes s) (tail s) {| nprev := nprev td; nnext := nnext td; nval := nval td; nlink := false; stage := stage td; inch := false; gpred := gpred td; cons := cons td; ret := ret td |} in
          let xd1 := f1 x in
          Some {| nodes := upd f1 x {| nprev := None; nnext := nnext xd1; nval := false; nlink := nlink xd1; stage := stage xd1; inch := inch xd1; gpred := gpred xd1; cons := S (cons xd1); ret := ret xd1 |};
                  nn := nn s; head := head s; tail := x; P := P s; kp := KIdle; kn := 0;
                  lastpop := x; bad_order := bad_order s || Nat.leb x (lastpop s); bad_head := bad_head s; bad_val := bad_val s || negb (nval xd) |}
      | KR0 => let n := kn s in let nd := nodes s n in
          if negb (nlink nd) then Some {| nodes := nodes s; nn := nn s; head := head s; tail := tail s; P := P s; kp := KIdle; kn := 0; lastpop := lastpop s; bad_order := bad_order s; bad_head := bad_head s; bad_val := bad_val s |}
          else match nprev nd with
               | None => Some {| nodes := nodes s; nn := nn s; head := head s; tail := tail s; P := P s; kp := KIdle; kn := 0; lastpop := lastpop s; bad_order := bad_order s; bad_head := bad_head s; bad_val := bad_val s |}
               | Some _ => Some {| nodes := nodes s; nn := nn s; head := head s; tail := tail s; P := P s; kp := KR1; kn := n; lastpop := lastpop s; bad_order := bad_order s; bad_head := bad_head s; bad_val := bad_val s |}
               end
      | KR1 => let n := kn s in let nd := nodes s n in
          match nnext nd, nprev nd with
          | Some x, Some pr =>
              let f1 := upd (nodes s) n {| nprev := nprev nd; nnext := nnext nd; nval := false; nlink := false; stage := stage nd; inch := false; gpred := gpred nd; cons := S (cons nd); ret := ret nd |} in
              let xd := f1 x in
              let f2 := upd f1 x {| nprev := Some pr; nnext := nnext xd; nval := nval xd; nlink := nlink xd; stage := stage xd; inch := inch xd; gpred := pr; cons := cons xd; ret := ret xd |} in
              let pd := f2 pr in
              Some {| nodes := upd f2 pr {| nprev := nprev pd; nnext := Some x; nval := nval pd; nlink := nlink pd; stage := stage pd; inch := inch pd; gpred := gpred pd; cons := cons pd; ret := ret pd |};
                      nn := nn s; head := head s; tail := tail s; P := P s; kp := KIdle; kn := 0;
                      lastpop := lastpop s; bad_order := bad_order s; bad_head := bad_head s; bad_val := bad_val s || negb (nval nd) |}
          | _, _ => Some {| nodes := nodes s; nn := nn s; head := head s; tail := tail s; P := P s; kp := KIdle; kn := 0; lastpop := lastpop s; bad_order := bad_order s; bad_head := bad_head s; bad_val := bad_val s |}
          end
      end
  end.

Definition stub := {| nprev := None; nnext := None; nval := false; nlink := true; stage := 0; inch := true; gpred := 0; cons := 0; ret := false |}.
Definition unalloc := {| nprev := None; nnext := None; nval := false; nlink := false; stage := 0; inch := false; gpred := 0; cons := 0; ret := false |}.
Definition init : st :=
  {| nodes := fun n => if Nat.eqb n 0 then stub else unalloc; nn := 1; head := 0; tail := 0;
     P := fun _ => {| qp := QIdle; qn := 0; qprev := 0; qempty := false |}; kp := KIdle; kn := 0;
     lastpop := 0; bad_order := false; bad_head := false; bad_val := false |}.
Inductive Reach : st -> Prop := R0 : Reach init | RS s a s' : Reach s -> step s a = Some s' -> Reach s'.
Fixpoint run (s : st) (l : list action) : st :=
  match l with [] => s | a :: l' => match step s a with Some s' => run s' l' | None => run s l' end end.
