From Coq Require Import List Arith Bool Lia.
Import ListNotations.
Require Import LV.ListCore LV.ListInv.

Ltac inv_some := match goal with H : Some _ = Some _ |- _ => inversion H; subst; clear H end.
Ltac step_cases H :=
  unfold ListCore.step in H;
  repeat match type of H with
  | context [match ?ac with Push _ => _ | PStep _ => _ | Pop => _ | PopIf _ => _ | Remove _ => _ | KStep => _ end] => destruct ac
  | context [match qp ?x with _ => _ end] => let E := fresh "Eqp" in destruct (qp x) eqn:E
  | context [match kp ?s with _ => _ end] => let E := fresh "Ekp" in destruct (kp s) eqn:E
  | context [match nnext ?x with _ => _ end] => let E := fresh "Enx" in destruct (nnext x) eqn:E
  | context [match nprev ?x with _ => _ end] => let E := fresh "Epv" in destruct (nprev x) eqn:E
  | context [if ?c then _ else _] => let E := fresh "Ec" in destruct c eqn:E
  end; try discriminate; inv_some.
Ltac bools :=
  repeat match goal with
  | H : _ && _ = true |- _ => apply andb_prop in H; destruct H
  | H : negb _ = true |- _ => apply negb_true_iff in H
  | H : negb _ = false |- _ => apply negb_false_iff in H
  | H : (_ =? _) = true |- _ => apply Nat.eqb_eq in H
  | H : (_ =? _) = false |- _ => apply Nat.eqb_neq in H
  | H : (_ <=? _) = true |- _ => apply Nat.leb_le in H
  | H : (_ <=? _) = false |- _ => apply Nat.leb_gt in H
  end.

(* steps that only move the consumer's or a producer's program counter *)
Lemma frame s s' :
  Inv s ->
  nodes s' = nodes s -> nn s' = nn s -> head s' = head s -> tail s' = tail s ->
  lastpop s' = lastpop s -> bad_order s' = bad_order s -> bad_head s' = bad_head s -> bad_val s' = bad_val s ->
  (forall p, active (P s' p) = true -> P s' p = P s p) ->
  (kp s' = KP2 -> inch (nd s (kn s')) = true /\ gpred (nd s (kn s')) = tail s /\ stage (nd s (kn s')) = 0 /\ kn s' <> tail s) ->
  ((kp s' = KR0 \/ kp s' = KR1) -> ret (nd s (kn s')) = true) ->
  (kp s' = KR1 -> nlink (nd s (kn s')) = true /\ nprev (nd s (kn s')) <> None) ->
  Inv s'.
Proof.
  intros Hi En Enn Eh Et El E1 E2 E3 HP HK2 HK3 HK4.
  constructor; unfold ninv, pinv; cbv zeta; rewrite ?En, ?Enn, ?Eh, ?Et, ?El, ?E1, ?E2, ?E3.
  - apply (G1 _ Hi).
  - apply (G2 _ Hi).
  - apply (G3 _ Hi).
  - apply (G4 _ Hi).
  - apply (GM _ Hi).
  - apply (NI _ Hi).
  - apply (N6 _ Hi).
  - apply (N7 _ Hi).
  - apply (N8 _ Hi).
  - apply (NR _ Hi).
  - intros p Ha. pose proof (HP p Ha) as E. rewrite E in *. apply (PP _ Hi p). assumption.
  - intros p p' Hne Ha Ha'. pose proof (HP p Ha) as E. pose proof (HP p' Ha') as E'. rewrite E, E' in *. apply (PU _ Hi); assumption.
  - assumption.
  - assumption.
  - assumption.
  - apply (GH _ Hi).
Qed.

Lemma inv_step_frames s a s' : Inv s -> step s a = Some s' ->
  (match a with Push _ | Pop | PopIf _ | Remove _ => True | _ => False end) -> Inv s'.
Proof.
  intros Hi H Ha. step_cases H; try contradiction.
  all: eapply frame; try eassumption; try reflexivity; cbn; try discriminate; try tauto.
  all: try (intros p0 Hact; unfold upd in *; destruct (Nat.eqb p0 p); [cbn in Hact; discriminate | reflexivity]).
  all: try (intros _; assumption).
  all: try (apply (K2 _ Hi)).
  all: try (apply (K3 _ Hi)).
  all: try (apply (K4 _ Hi)).
  all: try (intros [E|E]; discriminate).
Qed.
