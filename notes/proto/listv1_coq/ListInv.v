From Coq Require Import List Arith Bool Lia.
Import ListNotations.
Require Import LV.ListCore.

Notation nd s n := (nodes s n).
Definition active (x : pst) : bool := match qp x with Q1 | Q2 | Q3 => true | _ => false end.
Definition stage_of (q : ppc) : nat := match q with Q1 => 2 | Q2 => 1 | _ => 0 end.

Definition ninv (s : st) (b : nat) : Prop :=
  inch (nd s b) = true -> b <> tail s ->
    gpred (nd s b) < b /\ inch (nd s (gpred (nd s b))) = true /\
    (forall x, inch (nd s x) = true -> ~ (gpred (nd s b) < x /\ x < b)) /\
    (stage (nd s b) = 0 -> nnext (nd s (gpred (nd s b))) = Some b) /\
    (stage (nd s b) <= 1 -> nprev (nd s b) = Some (gpred (nd s b))) /\
    (stage (nd s b) = 2 -> nprev (nd s b) = None) /\
    nval (nd s b) = true /\ nlink (nd s b) = true /\ cons (nd s b) = 0 /\ stage (nd s b) <= 2.

Definition pinv (s : st) (p : nat) : Prop :=
  let x := P s p in let n := qn x in let a := qprev x in
  active x = true ->
    a < n /\ n < nn s /\ ret (nd s n) = false /\ stage (nd s n) = stage_of (qp x) /\
    (inch (nd s n) = true -> gpred (nd s n) <= a) /\
    (inch (nd s n) = false -> n < tail s) /\
    (qempty x = true -> a <= tail s) /\
    (stage (nd s n) >= 1 -> nnext (nd s a) = None /\ gpred (nd s n) = a /\ inch (nd s a) = true /\ inch (nd s n) = true).

Record Inv (s : st) : Prop := {
  G1 : 1 <= nn s /\ tail s <= head s /\ head s < nn s /\ lastpop s <= tail s;
  G2 : inch (nd s (tail s)) = true /\ inch (nd s (head s)) = true /\ nval (nd s (tail s)) = false /\ nprev (nd s (tail s)) = None;
  G3 : forall x, inch (nd s x) = true -> tail s <= x /\ x <= head s;
  G4 : forall x, nn s <= x -> nd s x = unalloc;
  GM : bad_order s = false /\ bad_head s = false /\ bad_val s = false;
  NI : forall b, ninv s b;
  N6 : forall a x, inch (nd s a) = true -> nnext (nd s a) = Some x ->
         inch (nd s x) = true /\ gpred (nd s x) = a /\ stage (nd s x) = 0 /\ x <> tail s;
  N7 : forall n, n < nn s -> inch (nd s n) = false -> nlink (nd s n) = false /\ (1 <= n -> cons (nd s n) = 1);
  N8 : (1 <= tail s -> cons (nd s (tail s)) = 1) /\ cons (nd s 0) = 0;
  NR : forall n, ret (nd s n) = true -> stage (nd s n) = 0 /\ n < nn s /\ 1 <= n;
  PP : forall p, pinv s p;
  PU : forall p p', p <> p' -> active (P s p) = true -> active (P s p') = true -> qn (P s p) <> qn (P s p');
  K2 : kp s = KP2 -> inch (nd s (kn s)) = true /\ gpred (nd s (kn s)) = tail s /\ stage (nd s (kn s)) = 0 /\ kn s <> tail s;
  K3 : (kp s = KR0 \/ kp s = KR1) -> ret (nd s (kn s)) = true;
  K4 : kp s = KR1 -> nlink (nd s (kn s)) = true /\ nprev (nd s (kn s)) <> None;
  GH : nnext (nd s (head s)) = None
}.

Lemma upd_eq {X} (f : nat -> X) i v : upd f i v i = v.
Proof. unfold upd. now rewrite Nat.eqb_refl. Qed.
Lemma upd_neq {X} (f : nat -> X) i j v : j <> i -> upd f i v j = f j.
Proof. unfold upd. intros H. destruct (Nat.eqb_spec j i); congruence. Qed.

Lemma inv_init : Inv init.
Proof.
  constructor; unfold ninv, pinv, init; cbn; intros; try discriminate; try tauto; try lia; auto.
  all: try (repeat split; lia).
  all: try (destruct (Nat.eqb_spec x 0); cbn in *; try lia; try discriminate; try reflexivity).
  all: try (destruct (Nat.eqb_spec b 0); cbn in *; try lia; try discriminate).
  all: try (destruct (Nat.eqb_spec a 0); cbn in *; try discriminate).
  all: try (destruct (Nat.eqb_spec n 0); cbn in *; try lia; try discriminate).
  all: try (destruct H; discriminate).
  all: match goal with |- ?G => idtac "REM" G end.
Qed.
