From Coq Require Import List Arith Bool Lia.
Import ListNotations.
Require Import LV.ListCore LV.ListInv LV.ListPres1.

Ltac upd_tac :=
  repeat match goal with
  | |- context [upd ?f ?i ?v ?j] =>
      first [ rewrite (upd_eq f i v) | rewrite (upd_neq f i j v) by (try congruence; try lia)
            | let e := fresh "e" in let ne := fresh "ne" in
              destruct (Nat.eq_dec j i) as [e|ne];
              [ rewrite e; rewrite (upd_eq f i v) | rewrite (upd_neq f i j v ne) ] ]
  end.
Ltac upd_hyp :=
  repeat match goal with
  | H : context [upd ?f ?i ?v ?i] |- _ => rewrite (upd_eq f i v) in H; cbn in H
  | H : context [upd ?f ?i ?v ?j], ne : ?j <> ?i |- _ => rewrite (upd_neq f i j v ne) in H; cbn in H
  | H : context [upd ?f ?i ?v ?j] |- _ =>
      let e := fresh "e" in let ne := fresh "ne" in
      destruct (Nat.eq_dec j i) as [e|ne];
      [ rewrite e in H; rewrite (upd_eq f i v) in H; cbn in H | rewrite (upd_neq f i j v ne) in H; cbn in H ]
  end.

(* pop(): the stub's link bit is cleared before spinning for its successor *)
Lemma clear_tail_link s s' nd' :
  Inv s ->
  nodes s' = upd (nodes s) (tail s) nd' ->
  nprev nd' = nprev (nd s (tail s)) -> nnext nd' = nnext (nd s (tail s)) -> nval nd' = nval (nd s (tail s)) ->
  stage nd' = stage (nd s (tail s)) -> inch nd' = inch (nd s (tail s)) -> gpred nd' = gpred (nd s (tail s)) ->
  cons nd' = cons (nd s (tail s)) -> ret nd' = ret (nd s (tail s)) -> nlink nd' = false ->
  nn s' = nn s -> head s' = head s -> tail s' = tail s -> P s' = P s ->
  lastpop s' = lastpop s -> bad_order s' = bad_order s -> bad_head s' = bad_head s -> bad_val s' = bad_val s ->
  (kp s' <> KP2 /\ kp s' <> KR0 /\ kp s' <> KR1) ->
  Inv s'.
Proof.
  intros Hi En F1 F2 F3 F4 F5 F6 F7 F8 F9 Enn Eh Et EP El E1 E2 E3 (K1 & K2' & K3').
  assert (Hn : forall x, nprev (nd s' x) = nprev (nd s x) /\ nnext (nd s' x) = nnext (nd s x) /\ nval (nd s' x) = nval (nd s x) /\
                         stage (nd s' x) = stage (nd s x) /\ inch (nd s' x) = inch (nd s x) /\ gpred (nd s' x) = gpred (nd s x) /\
                         cons (nd s' x) = cons (nd s x) /\ ret (nd s' x) = ret (nd s x) /\
                         (x <> tail s -> nlink (nd s' x) = nlink (nd s x)) /\ (nlink (nd s' x) = true -> nlink (nd s x) = true)).
  { intro x. rewrite En. destruct (Nat.eq_dec x (tail s)) as [->|ne].
    - rewrite upd_eq. repeat split; auto; try congruence; try tauto.
    - rewrite upd_neq by assumption. repeat split; auto. }
  constructor; unfold ninv, pinv; cbv zeta; rewrite ?Enn, ?Eh, ?Et, ?El, ?E1, ?E2, ?E3, ?EP.
  - apply (G1 _ Hi).
  - destruct (G2 _ Hi) as (A & B & C & D). destruct (Hn (tail s)) as (h1&h2&h3&h4&h5&_). destruct (Hn (head s)) as (_&_&_&_&h5'&_).
    rewrite h5, h5', h3, h1. auto.
  - intros x. destruct (Hn x) as (_&_&_&_&h5&_). rewrite h5. apply (G3 _ Hi).
  - intros x Hx. rewrite En. rewrite upd_neq. apply (G4 _ Hi); assumption.
    destruct (G1 _ Hi) as (_&a&b&_). lia.
  - apply (GM _ Hi).
  - intros b. destruct (Hn b) as (h1&h2&h3&h4&h5&h6&h7&h8&h9&_). destruct (Hn (gpred (nd s b))) as (_&g2&_&_&g5&_).
    rewrite h5, h6, h4, h1, h3, h7, g5, g2. intros Hb Hne. rewrite (h9 Hne).
    destruct (NI _ Hi b Hb Hne) as (a1&a2&a3&a4). repeat split; try tauto.
    intros x Hx. destruct (Hn x) as (_&_&_&_&x5&_). rewrite x5 in Hx. apply (a3 x Hx).
  - intros a x. destruct (Hn a) as (_&h2&_&_&h5&_). destruct (Hn x) as (_&_&_&x4&x5&x6&_). rewrite h5, h2, x4, x5, x6. apply (N6 _ Hi).
  - intros n Hlt. destruct (Hn n) as (_&_&_&_&h5&_&h7&_&h9&_). rewrite h5, h7. intros Hi0.
    destruct (N7 _ Hi n Hlt Hi0) as (a1&a2). split; auto.
    destruct (Nat.eq_dec n (tail s)) as [->|ne]; [rewrite En, upd_eq; assumption | rewrite (h9 ne); assumption].
  - destruct (Hn (tail s)) as (_&_&_&_&_&_&h7&_). destruct (Hn 0) as (_&_&_&_&_&_&h0&_). rewrite h7, h0. apply (N8 _ Hi).
  - intros n. destruct (Hn n) as (_&_&_&h4&_&_&_&h8&_). rewrite h8, h4. apply (NR _ Hi).
  - intros p Ha. pose proof (PP _ Hi p Ha) as Hp. cbv zeta in Hp.
    destruct (Hn (qn (P s p))) as (_&_&_&h4&h5&h6&_&h8&_). destruct (Hn (qprev (P s p))) as (_&g2&_&_&g5&_).
    rewrite h8, h4, h5, h6, g2, g5. exact Hp.
  - apply (PU _ Hi).
  - intros Hk. congruence.
  - intros [Hk|Hk]; congruence.
  - intros Hk; congruence.
  - destruct (Hn (head s)) as (_&h2&_). rewrite h2. apply (GH _ Hi).
Qed.

Lemma inv_kstep_easy s s' : Inv s -> step s KStep = Some s' ->
  kp s <> KP2 -> (kp s = KR1 -> nnext (nd s (kn s)) = None \/ nprev (nd s (kn s)) = None) -> Inv s'.
Proof.
  intros Hi H NK2 NK1. step_cases H; try congruence.
  all: try solve [eapply clear_tail_link; try eassumption; try reflexivity; cbn; try reflexivity; repeat split; discriminate].
  all: try (eapply frame; try eassumption; try reflexivity; cbn; try discriminate; try tauto;
            try (intros [E|E]; discriminate)).
  all: try (intros _; destruct (G2 _ Hi) as (Ht & _); destruct (N6 _ Hi _ _ Ht Enx) as (a1&a2&a3&a4); auto).
  all: try (intros _; apply (K3 _ Hi); left; assumption).
  all: try (intros _; bools; split; [assumption | congruence]).
  all: try (exfalso; destruct (NK1 eq_refl); congruence).
  all: match goal with |- ?G => idtac "REM" G end.
Qed.
