(* Prototype (design-time) for C08.i / finding F3: src/sync/atomic_dur.rs as arithmetic on
   nanoseconds.  `enc` is what `store` writes into the AtomicUsize, `dec` what `take` returns
   (in ns); `armed d = dec (enc (Some d))` is the timeout a caller that asked for `d` really gets.
   Durations are Z in ns with 0 <= d (Duration is unsigned); usize is 64 bit. *)
From Coq Require Import ZArith Lia.
Open Scope Z_scope.
Ltac Zify.zify_post_hook ::= Z.div_mod_to_equations.

Definition MS := 1000000.
Definition W := 2 ^ 64.

(* the code as it is: d.as_millis() as usize  (floor, truncating cast), 0 means "none" *)
Definition enc (d : option Z) : Z := match d with None => 0 | Some d => (d / MS) mod W end.
Definition dec (v : Z) : option Z := if v =? 0 then None else Some (v * MS).
Definition armed (d : Z) := dec (enc (Some d)).

Theorem armed_refuted :
  armed 500000 = None /\                       (* recv_timeout(500 us): no timer at all *)
  armed 0 = None /\                            (* Some(0): parks for ever *)
  armed 1900000 = Some 1000000 /\              (* wait_timeout(1.9 ms) fires after 1 ms *)
  armed (W * MS + 5 * MS) = Some (5 * MS).     (* the cast wraps: an astronomically long wait becomes 5 ms *)
Proof. vm_compute. repeat split. Qed.

(* what the code does guarantee *)
Theorem armed_floor d t : 0 <= d -> d / MS < W -> armed d = Some t -> t <= d < t + MS.
Proof.
  unfold armed, dec, enc, MS, W. intros H0 Hw. rewrite Z.mod_small by (split; [apply Z.div_pos; lia | exact Hw]).
  destruct (d / 1000000 =? 0) eqn:E; [discriminate|]. intros [= <-]. lia.
Qed.

(* the planned repair: store ceil_ms(d) + 1, saturating below usize::MAX; 0 still means "none" *)
Definition ceil_ms (d : Z) := (d + MS - 1) / MS.
Definition enc' (d : option Z) : Z := match d with None => 0 | Some d => Z.min (ceil_ms d) (W - 2) + 1 end.
Definition dec' (v : Z) : option Z := if v =? 0 then None else Some ((v - 1) * MS).
Definition armed' (d : Z) := dec' (enc' (Some d)).

Theorem none_round_trip : dec' (enc' None) = None.
Proof. reflexivity. Qed.
Theorem enc'_fits d : 0 <= d -> 0 < enc' (Some d) < W.
Proof. unfold enc', ceil_ms, MS, W. intros. assert (0 <= (d + 1000000 - 1) / 1000000) by (apply Z.div_pos; lia). lia. Qed.
Theorem some_is_never_none d : 0 <= d -> exists t, armed' d = Some t.
Proof.
  intros H. unfold armed', dec'. pose proof (enc'_fits d H) as F.
  destruct (enc' (Some d) =? 0) eqn:E; [lia | eauto].
Qed.
(* never early, less than one millisecond late -- for every duration below 2^64 - 2 ms (584 My) *)
Theorem armed'_bounds d t : 0 <= d -> ceil_ms d <= W - 2 -> armed' d = Some t -> d <= t < d + MS.
Proof.
  unfold armed', dec', enc'. intros H0 Hs. rewrite Z.min_l by exact Hs.
  assert (0 <= ceil_ms d) by (unfold ceil_ms, MS; apply Z.div_pos; lia).
  destruct (ceil_ms d + 1 =? 0) eqn:E; [lia|]. intros [= <-]. unfold ceil_ms, MS in *. lia.
Qed.
Theorem armed'_zero : armed' 0 = Some 0.
Proof. reflexivity. Qed.
(* beyond the bound the wait saturates instead of wrapping *)
Theorem armed'_saturates d : W - 2 < ceil_ms d -> armed' d = Some ((W - 2) * MS).
Proof. unfold armed', dec', enc'. intros H. rewrite Z.min_r by lia. reflexivity. Qed.
Print Assumptions armed'_bounds.
Print Assumptions armed_refuted.
